''' Per-property registration data for gen_manifest.py. '''

CLAIMED = {}

NOT_APPLICABLE = {}
