''' Per-property registration data for gen_manifest.py. '''

_NOTE = ('Trusted base: the /verif shims for GLib (sim loop calibrated against GLib 2.74 traces), dbus-python '
         '(marshalling model calibrated on 857 rows of the real library), crcmod/portion (self-tested), fake sockets '
         'and TLS; the independent oracles under vf/oracles (known-answer self-tests in ./setup). Held means: held on '
         'the executions listed in the evidence file, nothing more.')

CLAIMED = {
    'C01': dict(
        technique='runtime history monitor at the D-Bus boundary of two real TCPCL endpoints in a simulated network, offline conservation/order/exactly-once checker with unique payloads; wire automaton as second witness',
        text='Exploration: a directed corpus (length classes around the negotiated segment size, MRU 1, above CHUNK_SIZE, 64 KiB / 1 MiB, tiny pipes, one-octet delivery) x scheduling policies, then hundreds (thorough: thousands) of seeded random scenarios with send calls before start, during negotiation and between arbitrary callbacks; chunking, delay and back-pressure are schedule choices. Checked: popped sequence == queued sequence, finish order, success-after-receipt by logical clock, stuck-at-quiescence. Evidence reports distinct dispatch-sequence hashes and abstract states. Also 13-104 bundles waiting in the receive queue at once (ids of one to three digits), drained in listed order.',
        note=_NOTE + ' Liveness is restated as: quiescent world with an unfinished transfer is a violation; exhausted budget is inconclusive.',
    ),
    'C04': dict(
        technique='online trace automaton over both decoded wire logs (independent RFC 9174 decoder) with cross-stream correlation',
        text='Exploration: the C01 workload with and without termination requests by A, B or both at seeded scheduler steps, plus every cut-point of two base scenarios; the automaton enforces header/SESS_INIT order, allowed message set, single SESS_TERM, no START after own SESS_TERM, contiguity, START/END placement, Transfer-Length = sum, fresh ids, segment <= peer MRU, k-th ACK echoing the k-th segment with cumulative length. Also non-ASCII node ids and the rule that a stream does not end in the middle of a message once the world is quiescent.',
        note=_NOTE,
    ),
    'C09': dict(
        technique='runtime monitor of boundary signals, decoded wire logs, socket close events and on-close callbacks under exhaustive cut-point enumeration of termination/close/process-death requests',
        text='Exploration with exhaustive sub-spaces: every scheduler step of 4 (thorough 5) deterministic baseline scenarios x requester {A, B, both} x action {terminate, close, peer process death}, then seeded random scenarios and cut-points; obligations (a)-(e) of the statement are decided at world quiescence only (half-open = quiescent and still open). Plus a real endpoint against a conformant scripted peer that reads slowly through small socket buffers, acknowledges or refuses, sends or answers SESS_TERM and then waits for the endpoint to close; plus Agent.shutdown() of real agents holding 1-3 contacts at different stages. Bundles accepted but never started must be reported finished before the contact leaves the bus (close(), lost peer, shutdown).',
        note=_NOTE + ' A refused terminate() imposes only "session unharmed". Agent.shutdown() over several contacts is exercised in the C18 agent scenarios.',
    ),
    'C13': dict(
        technique='runtime monitor: datagrams captured at the fake UDP socket for real send requests (full queue + paced sender in virtual time) and the receive queue after every fed datagram, judged by an independent CBOR walker, a tiling model and an exactly-once model',
        text='Exploration with exhaustive sub-spaces: bundle lengths x MTUs across CBOR head-size boundaries and transfer ids; all permutations of segment sets up to 5 (thorough 6), single repeats at every position, seeded interleavings over transfer ids and peer address/port, datagrams of several messages and zero padding, and round trips of what the real sender produced; range_encode/range_decode round trips against set[int].',
        note=_NOTE + ' MTUs that cannot carry one data octet per segment are outside the domain.',
    ),
    'C20': dict(
        technique='runtime differential monitor: real BTP-U message classes vs an independent codec in both directions, Ethernet frames captured at the fake AF_PACKET socket, receive queue after every fed frame',
        text='Exploration with exhaustive sub-spaces: seeded message sets (bundle PDU, segment/end with 0-3 hints, definite and trailing padding) through both codecs both ways incl. decode->re-encode identity; bundle lengths around the segmentation threshold per MTU; all permutations of up to 5 (thorough 6) segments produced by the real sender and of 1-4 segments built by the independent encoder; interleaved transfers from two peers.',
        note=_NOTE + ' The independent codec is written from the header layout in the repository (no published specification offline).',
    ),
    'C14': dict(
        technique='runtime monitor in virtual time: send_message/recv_raw recorder on both real endpoints judged by a keepalive/idle timer model; get_session_parameters() vs announced values; icontract postcondition on the segment-size controller plus wire bound',
        text='Exploration over the 6x6 keepalive grid x idle times with traffic placed 1 ms before, at and 1 ms after each deadline (virtual clock), a mute-peer family for the terminating-endpoint clause (idle times x keepalives x request offsets x in-flight bundle) and seeded adaptive-segment-size runs with 1 ms network latency; every KEEPALIVE must follow exactly K of own silence, no silence longer than K, SESS_TERM(idle-timeout) exactly at I without traffic, closure by request + I. The mute-peer family also covers termination started by the idle timer itself (SESS_TERM at I, closed by 2I). Also peers that trickle a large message a few octets at a time (every octet is peer activity: no idle termination before I after the last octet), scripted peers announcing extreme SESS_INIT values, one-way network delay, and configuration loaded through Config.from_file().',
        note=_NOTE + ' Timer verdicts use the virtual clock only.',
    ),
    'C18': dict(
        technique='runtime monitor: every signal emission and method return checked against its declared signature by a model of dbus-python marshalling calibrated on the real library; shadow-model invariant evaluated after every event-loop callback and boundary call',
        text='Exploration: seeded two-endpoint scenarios with boundary calls (send, pop, queue and idle queries, terminate) interleaved at random scheduler steps and the queue/idle invariant evaluated after EVERY callback; scripted-peer refusal runs so that every contact signal is emitted; two real tcpcl.agent.Agent objects over the simulated listen/accept/connect path with shutdown() at 0-3 contacts in mixed states; the real UDPCL agent with benign transfers and hostile polling items. Signals emitted on an object that has left the bus are ignored (dbus-python sends nothing) and boundary calls to such an object get UnknownObject; the UDPCL agent is fed whole and segmented bundles whose peer-chosen transfer ids coincide with local receive ids (announced ids distinct, queue == announced, pops return each bundle once). After a refusal that follows the END segment, with the other transfer acknowledged, is_sess_idle() must be true.',
        note=_NOTE + ' The marshalling model is calibrated on 857 (signature, value) rows produced by real dbus-python 1.3.2.',
    ),
    'C15': dict(
        technique='runtime monitor of a real endpoint with a scenario-controlled fake TLS layer and real X.509 certificates, judged by an independent policy decision function over the whole decision table',
        text='Exhaustive over the decision table (1602 rows): local/peer TLS capability x require-TLS x handshake result x role/naming x IP/DNS/URI SAN states x require-host x require-node; observed: handshake attempted, SESS_INIT emitted, state, SESS_TERM reason, closure, is_secure(), authn parameters, and a probe that no transfer flows after a refusal. Rows are also run with the configuration loaded through Config.from_file(), with an empty announced node id, with SESS_INIT pipelined behind the contact header, and with a second / repeated SESS_INIT after acceptance or refusal (must be rejected, never renegotiated, no exception).',
        note=_NOTE + ' The TLS handshake itself is simulated; only the decisions around it are judged.',
    ),
    'C17': dict(
        technique='runtime monitor of loop exception records, decoded wire output, receive queue and own-transfer progress of a real endpoint driven by a scripted adversarial peer, judged by a peer-model automaton',
        text='Exploration with exhaustive sub-spaces: in each of six endpoint states and both roles, all sequences of length <= 2 (thorough <= 3 over a reduced alphabet) of ~16 state-relative messages (segments, ACKs, refusals, SESS_TERM, unknown types, bad contact headers), then seeded random sequences up to length 12; afterwards the scripted peer acknowledges honestly and the endpoint\'s own transfers must complete. The alphabet includes unknown type codes 0x00/0x08/0x0f/0xff and bad contact headers followed by a good header (and SESS_INIT) in the same write. Directed histories: own bundles given up when termination begins (by the peer or by terminate()) and then named by the peer\'s XFER_ACK / XFER_REFUSE: treated as unknown ids.',
        note=_NOTE,
    ),
    'C02': dict(
        technique='runtime differential monitor: real scapy-CBOR encoder/decoder vs an independent RFC 9171 decoder/encoder/validator with a framing-preserving CBOR walker',
        text='Exploration: a directed boundary corpus plus ~12k (quick) / ~320k (thorough) seeded random bundles, each run through three differentials (values->real encoder->independent decoder and validator; real decode and byte-identical re-encode; independent encoder->real decoder, typed block data and status reports included) and a byte-for-byte comparison of the two encoders. The directed corpus adds 21-300 canonical blocks, known block types with data of the wrong shape (kept opaque), other administrative record types with falsy contents, every reason code 0-19/255/256/2^32, and fragments of administrative records.',
        note=_NOTE,
    ),
    'C08': dict(
        technique='runtime monitor at the CL and application boundaries of the real BP agent under exhaustive single-bit and sampled burst corruption, judged by an independent bitwise CRC and RFC 9171 decoder',
        text='Exploration with an exhaustive sub-space: every single-bit flip of 26 base bundles (all CRC-type assignments, block types 1/6/7/10/192/200) and seeded bursts <= CRC width inside protected blocks; a mutant that alters a CRC-protected block and is invalid for the independent decoder must leave no trace (seen-set, application observer, CL output) in a fresh real agent. Output side: CRC fields of every byte string handed to the CL by local sends, forwards, fragmentation and status reports are recomputed on raw block spans. Thorough also substitutes every octet value at every position of CRC-protected blocks (all bursts of up to 8 bits within an octet) for a subset of base bundles, including status-report bundles.',
        note=_NOTE + ' Known finding: uint 0/1 -> CBOR false/true bursts pass because decode coerces bool to int (pinned by a unit test).',
    ),
    'C05': dict(
        technique='runtime monitor at the CL boundary of the real BP agent per send request, judged by an independent decoder, an integer tiling model and a no-MTU reference send',
        text='Exploration, boundary-directed: per header configuration the MTU walks (non-payload size + k) so fragment offsets and lengths cross the 23/24 and 255/256 head boundaries within tens of fragments; payload 0..300 and 65530..70000; both origins (locally built, received-and-forwarded); integrity policy on/off; do-not-fragment, existing fragments and fitting bundles must equal the no-MTU send byte for byte; every output must decode, be <= MTU, tile the payload exactly and carry the right identity and extension blocks. Forwarded bundles from a source without a clock (creation time 0, lifetime 0, Bundle Age block) are fragmented as well.',
        note=_NOTE,
    ),
    'C10': dict(
        technique='runtime history monitor: application and CL observers plus seen-table peek after every receive, against an executable reference model of the receive policy',
        text='Exploration: seeded histories (1-40 bundles) with exact repeats, one-component look-alikes, fragments, own-source and administrative-endpoint bundles over random routing tables of overlapping anchored patterns; after each receive the observed deliveries, forwards, reports and seen-set are compared with the model. Histories also contain copies damaged in transit (CRC failure) arriving before the intact copy: dropped without trace. Long histories (256+ identities between a bundle and its repeat), bursts of receives before the loop runs, ipn node ids loaded from a configuration file.',
        note=_NOTE,
    ),
    'C03': dict(
        technique='runtime differential monitor: integrity blocks produced by the real source agent verified by an independent AAD/COSE implementation, and every single-bit flip / field edit of the encoding judged at a real receiver against the covered octet spans computed by an independent CBOR walker',
        text='Exploration with an exhaustive sub-space: for COSE_Mac0 (HMAC-256/384/512) and COSE_Sign1 bundles from the real source EVERY single-bit flip of the encoding (sampled for large ones) is classified by location (covered: primary block, target metadata/data, security source, scope/protected parameters, protected header, tag; outside: other blocks) and pushed through a real receiver; field-level edits with CRCs recomputed; oracle-built BIBs with scopes adding other blocks, the security block itself and additional protected parameters; wrong and missing keys. Covered alteration delivered = violation; outside alteration rejected = violation; agent BIB not verifying independently = violation. Multi-target blocks: the result of one target removed and that target altered. COSE_Sign1 with x5chain or x5t over certificate variants (other node, no SAN, DNS only, untrusted CA, prefix look-alikes) and validity judged at the bundle\'s creation time (expired, not yet valid, creation times up to 2^64-1).',
        note=_NOTE + ' COSE_Mac with a wrapped key and x5t-only signing cannot run with the upstream pycose 1.1.0 installed here (source raises); a mutant that re-types the security block itself carries no obligation.',
    ),
    'C12': dict(
        technique='runtime monitor at the application step of the receive chain and the CL boundary (status report reason) of a real receiver, judged by an independent verify-all oracle over malformation classes built by an independent encoder',
        text='Exploration over the product of 21 security-block classes (valid, none, wrong tag, unknown key id, altered target/primary, unknown context, missing target, duplicate parameters/results, count mismatch, 0/2 results, garbage/wrong-type/truncated COSE, non-ASB data, bad source EID, scope naming a missing block, two blocks with the first/second/neither failing) x BIB/BCB x key store {all, wrong, none} x accept-after-verify x deletion report requested; fail => no delivery, no escaping exception, report with deleted + security reason; ok/none => delivered with the expected payload and accepted blocks removed. Also valid blocks whose AAD scope binds metadata and data (flags 3) of the target or another block, and the same parameter id twice with another parameter in between. Further classes: multi-target blocks with one failing target, an attached original payload with an altered target, certificate variants, and an x5t history (thumbprint look-up, validity window at creation time).',
        note=_NOTE,
    ),
    'C16': dict(
        technique='runtime differential monitor: octets transmitted by the real source agent decrypted and re-encrypted by an independent AAD/Enc_structure/AES-GCM/key-wrap implementation; payload at the application step of a real receiver; every single-bit flip judged against covered spans and the independent verdict',
        text='Exploration with an exhaustive sub-space: plaintext lengths 0..1000 across AES block boundaries x COSE_Encrypt0 A256GCM/A128GCM and COSE_Encrypt with A256KW x fixed/generated IVs x CRC types and extension blocks: wire data == independent AES-GCM encryption, no plaintext (or content key) in the transmitted octets, receiver with the key recovers exactly the plaintext (BCB removed); EVERY single-bit flip of the encoding (sampled for large bundles) and field-level edits (ciphertext, GCM tag, IV, key id, wrapped key, algorithm, primary fields, target flags, security source, scope) through a real receiver with accept on and off: no delivery and no plaintext at the application step; wrong and missing keys. Also: two targets per block, oracle-built COSE_Encrypt with 1-3 recipients (usable one first/last/middle/none), and status reports generated and encrypted by the real agent.',
        note=_NOTE + ' Exceptions thrown by the bundle decoder for mutated octets are C08 material and are not judged here.',
    ),
    'C11': dict(
        technique='runtime differential monitor on transmitted bytes: forwarded output of the real agent decoded by the independent RFC 9171 decoder and compared field by field with the received bundle',
        text='Exploration over the product of hop-by-hop block combinations (previous node none/other/self, 0-2 hop counts, age, 0-2 unknown blocks), CRC types, dense/sparse/permuted numbering, creation time zero or not, lifetimes, dwell times and two routes; two Previous Node / Bundle Age blocks, anonymous source; plus histories of different bundles through one agent to expose state carried between forwards. Also dtn:none / ipn:0.0 / ipn:2^32 sources, unassigned flag bits, and administrative records in transit (identified by identity, compared octet for octet).',
        note=_NOTE,
    ),
    'C19': dict(
        technique='runtime monitor of administrative records at the CL boundary against a reference expectation model, over the complete flag x report-to x outcome product',
        text='Exploration with an exhaustive sub-space: all 2^5 request-flag subsets x 3 report-to values x 8 outcomes (incl. forward with real fragmentation, security failure, duplicate) plus forwarding that fails for lack of a transmit route x 3 CRC types = 2304 combinations, each on a fresh agent; report presence, addressee, subject, asserted set, times, flags and CRCs are checked. Also confidentiality-failure outcomes, clockless subjects, reports larger than the route MTU (reassembled before judging) and fragment histories (one report per requested event of the reassembled bundle).',
        note=_NOTE + ' For "no route" and "duplicate" only the only-if direction and content are enforced.',
    ),
    'C06': dict(
        technique='runtime history monitor: application observer after every fragment arrival at the real BP agent, against an integer coverage model with position-coded payloads',
        text='Exploration with exhaustive sub-spaces: all permutations of fragment sets of up to 5 (thorough 6) pieces for uniform, uneven, overlapping, nested, same-offset and zero-length fragmentations, every single duplicate at every position for sets up to 4, seeded permutations up to 200 fragments, 2-3 interleaved bundles differing in one identity component, and fragment sets produced by the real fragmenter; exactly one delivery, at the completing arrival, with the original payload and the first fragment\'s extension blocks. Also at least 17 bundles pending reassembly at once and fragments that are fragmented again.',
        note=_NOTE,
    ),
    'C07': dict(
        technique='runtime monitor: recv_message recorder + receive-buffer probe on the real endpoint, judged by an independent RFC 9174 stream parser; codec differential both ways',
        text='Exploration with exhaustive sub-spaces: every composition (2^13) of 14-octet streams, every single cut of streams up to 300 octets, directed and random cuts of long streams, plus loop-driven runs; each feed step is checked for exactly-the-completed-messages and exact buffer occupancy. Codec half compares fields in both directions for directed boundary values and seeded random messages of all seven types and the contact header. Streams include segments as large as the configured MRU, reserved flag bits and chunks aligned to the 10240-octet read size; bursts of reads before the loop runs; and the framing runs behind the daemon\'s own start-up logging configuration at DEBUG and INFO.',
        note=_NOTE + ' Known findings (not masked for other inputs): MSG_REJECT field order; multi-item extension lists decode to a blob.',
    ),
}

NOT_APPLICABLE = {}
