''' Per-property registration data for gen_manifest.py. '''

_NOTE = ('Trusted base: the /verif shims for GLib (sim loop calibrated against GLib 2.74 traces), dbus-python '
         '(marshalling model calibrated on 857 rows of the real library), crcmod/portion (self-tested), fake sockets '
         'and TLS; the independent oracles under vf/oracles (known-answer self-tests in ./setup). Held means: held on '
         'the executions listed in the evidence file, nothing more.')

CLAIMED = {
    'C07': dict(
        technique='runtime monitor: recv_message recorder + receive-buffer probe on the real endpoint, judged by an independent RFC 9174 stream parser; codec differential both ways',
        text='Exploration with exhaustive sub-spaces: every composition (2^13) of 14-octet streams, every single cut of streams up to 300 octets, directed and random cuts of long streams, plus loop-driven runs; each feed step is checked for exactly-the-completed-messages and exact buffer occupancy. Codec half compares fields in both directions for directed boundary values and seeded random messages of all seven types and the contact header.',
        note=_NOTE + ' Known findings (not masked for other inputs): MSG_REJECT field order; multi-item extension lists decode to a blob.',
    ),
}

NOT_APPLICABLE = {}
