''' Helpers to stand up real TCPCL endpoints inside a Sim. '''
import dbus
import dbus.bus

from tcpcl import config as tcpcl_config
from tcpcl import session as tcpcl_session


def make_config(node_id, **kwargs):
    opts = dict(
        tls_enable=False,
        node_id=node_id,
        keepalive_time=0,
        idle_time=0,
    )
    opts.update(kwargs)
    if opts.pop('via_file', False):
        # the way the daemon is configured: a document read by the real Config.from_file()
        import io  # pylint: disable=import-outside-toplevel
        import json  # pylint: disable=import-outside-toplevel
        cfg = tcpcl_config.Config()
        cfg.from_file(io.StringIO(json.dumps({'tcpcl': opts})))
    else:
        cfg = tcpcl_config.Config(**opts)
    cfg._bus_conn = dbus.bus.BusConnection('vf-bus-' + node_id)
    return cfg


class Endpoint(object):
    ''' One real ContactHandler living in its own simulated process. '''

    def __init__(self, sim, name, cfg, sock, passive, peer_addr, path=None):
        self.sim = sim
        self.name = name
        self.cfg = cfg
        self.sock = sock
        self.path = path or '/org/ietf/dtn/tcpcl/Contact_%s' % name
        self.closed_events = []
        from vf.world.sim import install_clock  # pylint: disable=import-outside-toplevel
        install_clock()
        with sim.as_node(name):
            kwargs = dict(config=cfg, sock=sock)
            if passive:
                kwargs['fromaddr'] = peer_addr
            else:
                kwargs['toaddr'] = peer_addr
            self.hdl = tcpcl_session.ContactHandler(
                hdl_kwargs=kwargs,
                bus_kwargs=dict(conn=cfg.bus_conn, object_path=self.path),
            )
            self.hdl.set_on_close(self._on_close)
        self.proxy = cfg.bus_conn.get_object(None, self.path)

    def _on_close(self):
        self.closed_events.append(self.sim.world.event_no)

    def start(self):
        with self.sim.as_node(self.name):
            self.hdl.start()

    # "user" calls through the D-Bus boundary
    def call(self, member, *args):
        obj = self.hdl
        func = getattr(type(obj), member)
        return _bus_call(self.sim, self.name, obj, self.path, func, member, args)

    def send(self, data):
        return self.call('send_bundle_data', dbus.ByteArray(data))

    def state(self):
        return self.hdl._state


def _bus_call(sim, node_name, obj, path, func, member, args):
    ''' Invoke an exported method the way the bus would (used by the harness acting as the user); a call to an
    object that has left the bus gets the daemon's UnknownObject error and the method does not run.
    '''
    from vf.oracles import dbus_sig  # pylint: disable=import-outside-toplevel
    from dbus.bus import to_dbus_arg, history  # pylint: disable=import-outside-toplevel
    from dbus.service import SignatureViolation  # pylint: disable=import-outside-toplevel
    hist = history()
    in_sig = func._dbus_in_signature
    out_sig = func._dbus_out_signature
    call_args = args
    if in_sig is not None:
        verdict = dbus_sig.check(in_sig, args)
        if verdict is not None:
            raise TypeError('harness passed unmarshallable arguments: %s %s' % verdict)
        parts = dbus_sig.split_signature(in_sig)
        call_args = tuple(to_dbus_arg(part, arg) for part, arg in zip(parts, args))
    event = hist.add('call', path=path, iface=func._dbus_interface, member=member, args=args, obj=obj)
    if hasattr(obj, '_locations') and not obj._locations:
        # the object has left the bus: the daemon answers for it, the method is never run
        import dbus.exceptions  # pylint: disable=import-outside-toplevel
        err = dbus.exceptions.DBusException('Method "%s" on path "%s" does not exist: object is not exported' % (member, path))
        err._dbus_error_name = 'org.freedesktop.DBus.Error.UnknownObject'
        event['raised'] = err
        hist.add('error', path=path, member=member, exc_type='UnknownObject', exc=str(err)[:200], obj=obj)
        raise err
    with sim.as_node(node_name):
        try:
            retval = getattr(obj, member)(*call_args)
        except Exception as err:  # pylint: disable=broad-except
            event['raised'] = err
            hist.add('error', path=path, member=member, exc_type=type(err).__name__, exc=str(err)[:200], obj=obj)
            raise
    verdict = dbus_sig.check_return(out_sig, retval)
    ret_event = hist.add('return', path=path, iface=func._dbus_interface, member=member,
                         retval=retval, signature=out_sig, obj=obj)
    if verdict is not None:
        viol = SignatureViolation('return', path, func._dbus_interface, member, out_sig, (retval,), *verdict)
        ret_event['sig_violation'] = viol
        hist.sig_violations.append(viol)
    return retval


def make_pair(sim, cfg_a=None, cfg_b=None, capacity=None, addr_a=('10.0.0.1', 40001), addr_b=('10.0.0.2', 4556),
              peer_name_a=None):
    ''' Active endpoint A and passive endpoint B over one simulated connection. '''
    cfg_a = cfg_a or make_config('dtn://node-a/')
    cfg_b = cfg_b or make_config('dtn://node-b/')
    sock_a, sock_b = sim.net.tcp_pair('A', 'B', addr_a, addr_b, capacity=capacity)
    end_b = Endpoint(sim, 'B', cfg_b, sock_b, passive=True, peer_addr=addr_a)
    end_a = Endpoint(sim, 'A', cfg_a, sock_a, passive=False, peer_addr=(peer_name_a or addr_b[0], addr_b[1]))
    return end_a, end_b, sock_a, sock_b
