''' Independent RFC 9174 (TCPCLv4) contact-header and message codec on ``struct``.

Shares no code with the repository's scapy layers.  Messages are plain dicts:

  {'type': 'contact', 'magic': b'dtn!', 'version': 4, 'flags': 1}
  {'type': 'SESS_INIT', 'keepalive', 'segment_mru', 'transfer_mru', 'nodeid' (bytes), 'ext': [(flags, type, data)]}
  {'type': 'SESS_TERM', 'flags', 'reason'}
  {'type': 'XFER_SEGMENT', 'flags', 'transfer_id', 'ext': [...] (only with START), 'data'}
  {'type': 'XFER_ACK', 'flags', 'transfer_id', 'length'}
  {'type': 'XFER_REFUSE', 'reason', 'transfer_id'}
  {'type': 'KEEPALIVE'}
  {'type': 'MSG_REJECT', 'reason', 'rej_msg_id'}      (wire order: reason code, rejected header)
  {'type': 'UNKNOWN', 'msg_id'}                       (cannot be framed: length unknown)
'''
import struct

MAGIC = b'dtn!'

XFER_SEGMENT = 0x01
XFER_ACK = 0x02
XFER_REFUSE = 0x03
KEEPALIVE = 0x04
SESS_TERM = 0x05
MSG_REJECT = 0x06
SESS_INIT = 0x07

FLAG_END = 0x01
FLAG_START = 0x02
TERM_REPLY = 0x01
CAN_TLS = 0x01

TYPE_NAMES = {
    XFER_SEGMENT: 'XFER_SEGMENT', XFER_ACK: 'XFER_ACK', XFER_REFUSE: 'XFER_REFUSE',
    KEEPALIVE: 'KEEPALIVE', SESS_TERM: 'SESS_TERM', MSG_REJECT: 'MSG_REJECT', SESS_INIT: 'SESS_INIT',
}
TYPE_CODES = {val: key for key, val in TYPE_NAMES.items()}

EXT_TRANSFER_LENGTH = 0x0001


class Partial(Exception):
    ''' More octets are needed. '''


class Malformed(Exception):
    ''' The octets cannot be a TCPCLv4 message. '''


def _need(buf, pos, count):
    if len(buf) - pos < count:
        raise Partial()


def encode_ext(items):
    out = b''
    for (flags, etype, data) in items:
        out += struct.pack('!BHH', flags, etype, len(data)) + bytes(data)
    return out


def decode_ext(buf):
    items = []
    pos = 0
    while pos < len(buf):
        if len(buf) - pos < 5:
            raise Malformed('truncated extension item header')
        flags, etype, length = struct.unpack_from('!BHH', buf, pos)
        pos += 5
        if len(buf) - pos < length:
            raise Malformed('truncated extension item value')
        items.append((flags, etype, bytes(buf[pos:pos + length])))
        pos += length
    return items


def encode(msg):
    mtype = msg['type']
    if mtype == 'contact':
        return bytes(msg.get('magic', MAGIC)) + struct.pack('!BB', msg.get('version', 4), msg.get('flags', 0))
    if mtype == 'SESS_INIT':
        nodeid = msg.get('nodeid', b'')
        if isinstance(nodeid, str):
            nodeid = nodeid.encode('utf-8')
        ext = encode_ext(msg.get('ext', []))
        return (struct.pack('!BHQQH', SESS_INIT, msg.get('keepalive', 0), msg.get('segment_mru', 2 ** 64 - 1),
                            msg.get('transfer_mru', 2 ** 64 - 1), len(nodeid))
                + nodeid + struct.pack('!I', len(ext)) + ext)
    if mtype == 'SESS_TERM':
        return struct.pack('!BBB', SESS_TERM, msg.get('flags', 0), msg.get('reason', 0))
    if mtype == 'XFER_SEGMENT':
        flags = msg.get('flags', 0)
        out = struct.pack('!BBQ', XFER_SEGMENT, flags, msg.get('transfer_id', 0))
        if flags & FLAG_START:
            ext = encode_ext(msg.get('ext', []))
            out += struct.pack('!I', len(ext)) + ext
        data = bytes(msg.get('data', b''))
        return out + struct.pack('!Q', len(data)) + data
    if mtype == 'XFER_ACK':
        return struct.pack('!BBQQ', XFER_ACK, msg.get('flags', 0), msg.get('transfer_id', 0), msg.get('length', 0))
    if mtype == 'XFER_REFUSE':
        return struct.pack('!BBQ', XFER_REFUSE, msg.get('reason', 0), msg.get('transfer_id', 0))
    if mtype == 'KEEPALIVE':
        return struct.pack('!B', KEEPALIVE)
    if mtype == 'MSG_REJECT':
        return struct.pack('!BBB', MSG_REJECT, msg.get('reason', 1), msg.get('rej_msg_id', 0))
    if mtype == 'UNKNOWN':
        return struct.pack('!B', msg['msg_id']) + bytes(msg.get('raw', b''))
    raise ValueError('cannot encode %r' % (mtype,))


def decode_contact(buf, pos=0):
    ''' :return: (msg, end offset); raises Partial. '''
    _need(buf, pos, 6)
    magic = bytes(buf[pos:pos + 4])
    version, flags = struct.unpack_from('!BB', buf, pos + 4)
    return dict(type='contact', magic=magic, version=version, flags=flags), pos + 6


def decode_message(buf, pos=0):
    ''' Decode one message at ``pos``.
    :return: (msg, end offset); raises Partial when more octets are needed and
        Malformed for an unknown type code (whose length cannot be known).
    '''
    _need(buf, pos, 1)
    code = buf[pos]
    cur = pos + 1
    if code == SESS_INIT:
        _need(buf, cur, 2 + 8 + 8 + 2)
        keepalive, seg_mru, xfer_mru, nlen = struct.unpack_from('!HQQH', buf, cur)
        cur += 20
        _need(buf, cur, nlen + 4)
        nodeid = bytes(buf[cur:cur + nlen])
        cur += nlen
        (elen,) = struct.unpack_from('!I', buf, cur)
        cur += 4
        _need(buf, cur, elen)
        ext = decode_ext(bytes(buf[cur:cur + elen]))
        cur += elen
        return dict(type='SESS_INIT', keepalive=keepalive, segment_mru=seg_mru, transfer_mru=xfer_mru,
                    nodeid=nodeid, ext=ext), cur
    if code == SESS_TERM:
        _need(buf, cur, 2)
        flags, reason = struct.unpack_from('!BB', buf, cur)
        return dict(type='SESS_TERM', flags=flags, reason=reason), cur + 2
    if code == XFER_SEGMENT:
        _need(buf, cur, 9)
        flags, xid = struct.unpack_from('!BQ', buf, cur)
        cur += 9
        msg = dict(type='XFER_SEGMENT', flags=flags, transfer_id=xid)
        if flags & FLAG_START:
            _need(buf, cur, 4)
            (elen,) = struct.unpack_from('!I', buf, cur)
            cur += 4
            _need(buf, cur, elen)
            msg['ext'] = decode_ext(bytes(buf[cur:cur + elen]))
            cur += elen
        _need(buf, cur, 8)
        (dlen,) = struct.unpack_from('!Q', buf, cur)
        cur += 8
        _need(buf, cur, dlen)
        msg['data'] = bytes(buf[cur:cur + dlen])
        return msg, cur + dlen
    if code == XFER_ACK:
        _need(buf, cur, 17)
        flags, xid, length = struct.unpack_from('!BQQ', buf, cur)
        return dict(type='XFER_ACK', flags=flags, transfer_id=xid, length=length), cur + 17
    if code == XFER_REFUSE:
        _need(buf, cur, 9)
        reason, xid = struct.unpack_from('!BQ', buf, cur)
        return dict(type='XFER_REFUSE', reason=reason, transfer_id=xid), cur + 9
    if code == KEEPALIVE:
        return dict(type='KEEPALIVE'), cur
    if code == MSG_REJECT:
        _need(buf, cur, 2)
        reason, rej = struct.unpack_from('!BB', buf, cur)
        return dict(type='MSG_REJECT', reason=reason, rej_msg_id=rej), cur + 2
    raise Malformed('unknown message type 0x%02x' % code)


def parse_stream(buf, with_contact=True):
    ''' Parse as many complete items as the prefix contains.
    :return: (list of (msg, end offset), offset of the first unparsed octet, status)
        status: 'complete' | 'partial' | 'malformed'
    '''
    buf = bytes(buf)
    out = []
    pos = 0
    status = 'complete'
    try:
        if with_contact:
            msg, pos = decode_contact(buf, 0)
            out.append((msg, pos))
        while pos < len(buf):
            msg, end = decode_message(buf, pos)
            out.append((msg, end))
            pos = end
    except Partial:
        status = 'partial'
    except Malformed:
        status = 'malformed'
    return out, pos, status


def transfer_length_ext(total):
    return (0x00, EXT_TRANSFER_LENGTH, struct.pack('!Q', total))


def get_transfer_length(msg):
    for (_flags, etype, data) in msg.get('ext', []) or []:
        if etype == EXT_TRANSFER_LENGTH and len(data) == 8:
            return struct.unpack('!Q', data)[0]
    return None


def selftest():
    problems = []
    count = 0
    # RFC 9174 field layouts, hand-assembled
    vectors = [
        (dict(type='contact', flags=1), b'dtn!\x04\x01'),
        (dict(type='KEEPALIVE'), b'\x04'),
        (dict(type='SESS_TERM', flags=1, reason=3), b'\x05\x01\x03'),
        (dict(type='MSG_REJECT', reason=2, rej_msg_id=9), b'\x06\x02\x09'),
        (dict(type='XFER_ACK', flags=1, transfer_id=7, length=300),
         b'\x02\x01' + (7).to_bytes(8, 'big') + (300).to_bytes(8, 'big')),
        (dict(type='XFER_REFUSE', reason=2, transfer_id=7), b'\x03\x02' + (7).to_bytes(8, 'big')),
        (dict(type='XFER_SEGMENT', flags=3, transfer_id=1, ext=[transfer_length_ext(2)], data=b'hi'),
         b'\x01\x03' + (1).to_bytes(8, 'big') + (13).to_bytes(4, 'big') + b'\x00\x00\x01\x00\x08' + (2).to_bytes(8, 'big')
         + (2).to_bytes(8, 'big') + b'hi'),
        (dict(type='XFER_SEGMENT', flags=0, transfer_id=1, data=b''),
         b'\x01\x00' + (1).to_bytes(8, 'big') + (0).to_bytes(8, 'big')),
        (dict(type='SESS_INIT', keepalive=30, segment_mru=10, transfer_mru=20, nodeid=b'dtn://a/', ext=[]),
         b'\x07\x00\x1e' + (10).to_bytes(8, 'big') + (20).to_bytes(8, 'big') + b'\x00\x08dtn://a/' + b'\x00\x00\x00\x00'),
    ]
    for msg, want in vectors:
        count += 1
        got = encode(msg)
        if got != want:
            problems.append('encode %s: %s != %s' % (msg['type'], got.hex(), want.hex()))
            continue
        if msg['type'] == 'contact':
            back, end = decode_contact(want)
            back.pop('magic')
            back.pop('version')
        else:
            back, end = decode_message(want)
        if end != len(want) or any(back.get(key) != val for key, val in msg.items()):
            problems.append('decode %s: %s' % (msg['type'], back))
        # every strict prefix is partial
        for cut in range(len(want)):
            try:
                if msg['type'] == 'contact':
                    decode_contact(want[:cut])
                else:
                    decode_message(want[:cut])
                problems.append('prefix %d of %s decoded' % (cut, msg['type']))
            except Partial:
                pass
    return count, problems
