''' Independent BTP-U message-set codec written from the header layout:

  message  = type(8) | flags(4) length(20) | hints | body          length = len(hints) + len(body)
  hint     = hint_type(7) more(1) | length(8) | value              present iff flag H (0x8); chained by `more`
  body     = type 1 padding octets | type 2 bundle | type 3/4 xfer_num(32) seg_idx(32) data | type 5 xfer_num(32)
  set      = messages until end of frame or an octet 0 (trailing padding)

Messages are dicts: {'type', 'flags', 'hints': [(hint_type, value)], 'body': bytes}
'''
import struct

T_PADDING = 1
T_BUNDLE = 2
T_SEG = 3
T_END = 4
T_CANCEL = 5
FLAG_H = 0x8


class BtpuError(Exception):
    pass


def encode_msg(msg):
    hints = b''
    items = msg.get('hints') or []
    for idx, (htype, value) in enumerate(items):
        more = 1 if idx < len(items) - 1 else 0
        if len(value) > 255 or not 0 <= htype < 128:
            raise ValueError('hint out of range')
        hints += bytes([(htype << 1) | more, len(value)]) + bytes(value)
    flags = msg.get('flags')
    if flags is None:
        flags = FLAG_H if items else 0
    body = bytes(msg.get('body', b''))
    length = len(hints) + len(body)
    if length >= 1 << 20:
        raise ValueError('message too long')
    return bytes([msg['type']]) + ((flags << 20) | length).to_bytes(3, 'big') + hints + body


def encode_set(msgs, trailing=b''):
    return b''.join(encode_msg(msg) for msg in msgs) + trailing


def decode_set(data):
    ''' :return: (messages, offset where trailing padding starts) '''
    data = bytes(data)
    pos = 0
    out = []
    while pos < len(data) and data[pos] != 0:
        if len(data) - pos < 4:
            raise BtpuError('truncated message head at %d' % pos)
        mtype = data[pos]
        word = int.from_bytes(data[pos + 1:pos + 4], 'big')
        flags, length = word >> 20, word & 0xFFFFF
        cur = pos + 4
        end = cur + length
        if end > len(data):
            raise BtpuError('declared length %d runs past the frame' % length)
        hints = []
        if flags & FLAG_H:
            while True:
                if end - cur < 2:
                    raise BtpuError('truncated hint')
                first, hlen = data[cur], data[cur + 1]
                cur += 2
                if end - cur < hlen:
                    raise BtpuError('hint value runs past the message')
                hints.append((first >> 1, data[cur:cur + hlen]))
                cur += hlen
                if not first & 1:
                    break
        out.append(dict(type=mtype, flags=flags, hints=hints, body=data[cur:end], declared=length, actual=end - (pos + 4)))
        pos = end
    return out, pos


def seg_fields(msg):
    if msg['type'] not in (T_SEG, T_END) or len(msg['body']) < 8:
        raise BtpuError('not a transfer segment')
    xfer_num, seg_idx = struct.unpack('!II', msg['body'][:8])
    return xfer_num, seg_idx, msg['body'][8:]


def seg_body(xfer_num, seg_idx, data):
    return struct.pack('!II', xfer_num, seg_idx) + bytes(data)


def selftest():
    problems = []
    msgs = [dict(type=T_BUNDLE, hints=[], body=b'\x9f\xff'),
            dict(type=T_SEG, hints=[(0, b'\x00\x00\x01\x00')], body=seg_body(7, 0, b'abc')),
            dict(type=T_END, hints=[(0, b'\x00\x00\x01\x00'), (5, b'')], body=seg_body(7, 1, b'')),
            dict(type=T_PADDING, hints=[], body=b'\x00\x00\x00')]
    enc = encode_set(msgs, trailing=b'\x00\x00')
    want = (b'\x02\x00\x00\x02\x9f\xff' + b'\x03\x80\x00\x11' + b'\x00\x04\x00\x00\x01\x00' + b'\x00\x00\x00\x07\x00\x00\x00\x00abc'
            + b'\x04\x80\x00\x10' + b'\x01\x04\x00\x00\x01\x00' + b'\x0a\x00' + b'\x00\x00\x00\x07\x00\x00\x00\x01'
            + b'\x01\x00\x00\x03\x00\x00\x00' + b'\x00\x00')
    if enc != want:
        problems.append('encode_set: %s != %s' % (enc.hex(), want.hex()))
    dec, pad = decode_set(want)
    if [(m['type'], m['hints'], m['body']) for m in dec] != [(m['type'], m['hints'], m['body']) for m in msgs] or pad != len(want) - 2:
        problems.append('decode_set')
    if seg_fields(dec[1]) != (7, 0, b'abc'):
        problems.append('seg_fields')
    return 3, problems
