''' A small CBOR pull parser that keeps the framing ``cbor2.loads`` hides.

``parse(data, pos)`` returns ``(Item, end)``.  An Item records major type,
argument, head width, whether the head is shortest-form, whether the length is
indefinite, children (arrays, maps, tags) and the octet span.
'''
import struct


class CborError(Exception):
    pass


class Item(object):
    __slots__ = ('major', 'arg', 'head_len', 'shortest', 'indefinite', 'children', 'start', 'end', 'value', 'simple')

    def __init__(self):
        self.children = None
        self.indefinite = False
        self.shortest = True
        self.value = None
        self.simple = None

    def all_definite(self):
        if self.indefinite:
            return False
        return all(child.all_definite() for child in (self.children or []))

    def all_shortest(self):
        if not self.shortest:
            return False
        return all(child.all_shortest() for child in (self.children or []))

    def to_python(self):
        ''' Value as plain Python (ints, bytes, str, list, dict, tags as ('tag', n, v)). '''
        if self.major in (0, 1):
            return self.value
        if self.major in (2, 3):
            return self.value
        if self.major == 4:
            return [child.to_python() for child in self.children]
        if self.major == 5:
            kids = self.children
            return {_hashable(kids[i].to_python()): kids[i + 1].to_python() for i in range(0, len(kids), 2)}
        if self.major == 6:
            return ('tag', self.arg, self.children[0].to_python())
        return self.value


def _hashable(val):
    if isinstance(val, (list, tuple)):
        return tuple(_hashable(item) for item in val)
    if isinstance(val, dict):
        return ('map',) + tuple(sorted(((repr(key), _hashable(item)) for key, item in val.items())))
    try:
        hash(val)
    except TypeError:
        return repr(val)
    return val


def _head(data, pos):
    if pos >= len(data):
        raise CborError('truncated at %d' % pos)
    initial = data[pos]
    major = initial >> 5
    info = initial & 0x1F
    if info < 24:
        return major, info, 1, True, False
    if info == 24:
        width = 1
    elif info == 25:
        width = 2
    elif info == 26:
        width = 4
    elif info == 27:
        width = 8
    elif info == 31:
        return major, None, 1, True, True
    else:
        raise CborError('reserved additional information %d at %d' % (info, pos))
    if pos + 1 + width > len(data):
        raise CborError('truncated head at %d' % pos)
    arg = int.from_bytes(data[pos + 1:pos + 1 + width], 'big')
    floor = {1: 24, 2: 256, 4: 65536, 8: 2 ** 32}[width]
    return major, arg, 1 + width, arg >= floor, False


def parse(data, pos=0, depth=0):
    if depth > 64:
        raise CborError('nesting too deep')
    item = Item()
    item.start = pos
    major, arg, hlen, shortest, indef = _head(data, pos)
    item.major = major
    item.arg = arg
    item.head_len = hlen
    item.shortest = shortest
    item.indefinite = indef
    cur = pos + hlen
    if major == 0:
        if indef:
            raise CborError('indefinite uint')
        item.value = arg
    elif major == 1:
        if indef:
            raise CborError('indefinite nint')
        item.value = -1 - arg
    elif major in (2, 3):
        if indef:
            chunks = []
            item.children = []
            while True:
                if cur >= len(data):
                    raise CborError('unterminated indefinite string')
                if data[cur] == 0xFF:
                    cur += 1
                    break
                child, cur = parse(data, cur, depth + 1)
                if child.major != major or child.indefinite:
                    raise CborError('bad chunk in indefinite string')
                item.children.append(child)
                chunks.append(child.value)
            item.value = b''.join(chunks) if major == 2 else ''.join(chunks)
        else:
            if cur + arg > len(data):
                raise CborError('truncated string at %d' % pos)
            raw = bytes(data[cur:cur + arg])
            cur += arg
            if major == 3:
                try:
                    item.value = raw.decode('utf-8')
                except UnicodeDecodeError:
                    raise CborError('invalid UTF-8 in text string')
            else:
                item.value = raw
    elif major == 4:
        item.children = []
        if indef:
            while True:
                if cur >= len(data):
                    raise CborError('unterminated indefinite array')
                if data[cur] == 0xFF:
                    cur += 1
                    break
                child, cur = parse(data, cur, depth + 1)
                item.children.append(child)
        else:
            for _ in range(arg):
                child, cur = parse(data, cur, depth + 1)
                item.children.append(child)
    elif major == 5:
        item.children = []
        if indef:
            while True:
                if cur >= len(data):
                    raise CborError('unterminated indefinite map')
                if data[cur] == 0xFF:
                    cur += 1
                    break
                child, cur = parse(data, cur, depth + 1)
                item.children.append(child)
            if len(item.children) % 2:
                raise CborError('odd number of items in map')
        else:
            for _ in range(2 * arg):
                child, cur = parse(data, cur, depth + 1)
                item.children.append(child)
    elif major == 6:
        if indef:
            raise CborError('indefinite tag')
        child, cur = parse(data, cur, depth + 1)
        item.children = [child]
    else:
        if indef:
            raise CborError('unexpected break')
        info = data[pos] & 0x1F
        if info < 24:
            item.simple = info
            item.value = {20: False, 21: True, 22: None}.get(info, ('simple', info))
        elif info == 24:
            item.simple = arg
            item.value = ('simple', arg)
            item.shortest = arg >= 32
        elif info == 25:
            item.value = struct.unpack('>e', data[pos + 1:pos + 3])[0]
            item.shortest = True
        elif info == 26:
            item.value = struct.unpack('>f', data[pos + 1:pos + 5])[0]
            item.shortest = True
        else:
            item.value = struct.unpack('>d', data[pos + 1:pos + 9])[0]
            item.shortest = True
    item.end = cur
    return item, cur


def parse_all(data):
    ''' Parse a whole buffer holding exactly one item. '''
    item, end = parse(data, 0)
    if end != len(data):
        raise CborError('%d trailing octets' % (len(data) - end))
    return item


def enc_head(major, arg):
    ''' Shortest-form head. '''
    if arg < 24:
        return bytes([(major << 5) | arg])
    if arg < 256:
        return bytes([(major << 5) | 24, arg])
    if arg < 65536:
        return bytes([(major << 5) | 25]) + arg.to_bytes(2, 'big')
    if arg < 2 ** 32:
        return bytes([(major << 5) | 26]) + arg.to_bytes(4, 'big')
    return bytes([(major << 5) | 27]) + arg.to_bytes(8, 'big')


def enc(val):
    ''' Independent preferred-serialization encoder for the value subset BPv7 uses. '''
    if val is None:
        return b'\xf6'
    if val is True:
        return b'\xf5'
    if val is False:
        return b'\xf4'
    if isinstance(val, int):
        if val >= 0:
            return enc_head(0, val)
        return enc_head(1, -1 - val)
    if isinstance(val, (bytes, bytearray)):
        return enc_head(2, len(val)) + bytes(val)
    if isinstance(val, str):
        raw = val.encode('utf-8')
        return enc_head(3, len(raw)) + raw
    if isinstance(val, (list, tuple)):
        return enc_head(4, len(val)) + b''.join(enc(item) for item in val)
    if isinstance(val, dict):
        return enc_head(5, len(val)) + b''.join(enc(key) + enc(item) for key, item in val.items())
    raise TypeError('cannot encode %r' % type(val))


def selftest():
    problems = []
    vectors = [
        (0, '00'), (23, '17'), (24, '1818'), (255, '18ff'), (256, '190100'), (65535, '19ffff'), (65536, '1a00010000'),
        (2 ** 32 - 1, '1affffffff'), (2 ** 32, '1b0000000100000000'), (2 ** 64 - 1, '1bffffffffffffffff'),
        (-1, '20'), (-25, '3818'), (b'', '40'), (b'\x01\x02', '420102'), ('a', '6161'), ([], '80'), ([1, [2, 3]], '8201820203'),
        ({1: 2}, 'a10102'), (None, 'f6'), (True, 'f5'), (False, 'f4'),
    ]
    for val, hexes in vectors:
        if enc(val).hex() != hexes:
            problems.append('enc %r' % (val,))
        item = parse_all(bytes.fromhex(hexes))
        got = item.to_python()
        if got != val or not item.all_shortest() or not item.all_definite():
            problems.append('parse %s -> %r' % (hexes, got))
    item = parse_all(bytes.fromhex('9f0102ff'))
    if not item.indefinite or item.to_python() != [1, 2]:
        problems.append('indefinite array')
    item = parse_all(bytes.fromhex('1800'))
    if item.shortest:
        problems.append('non-shortest head not flagged')
    try:
        parse_all(bytes.fromhex('8201'))
        problems.append('truncated array accepted')
    except CborError:
        pass
    return len(vectors) + 3, problems
