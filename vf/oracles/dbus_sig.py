''' Pure-Python model of dbus-python 1.3.2 ``Message.append(*args, signature=...)``.

Calibrated row by row against the real library: fixtures/dbus_marshal_calibration.json
(regenerate with ``/usr/bin/python3 fixtures/gen_dbus_calibration.py``).
``check(signature, args)`` returns None when the real library would accept the
arguments, or ``(exception type name, message)`` when it would raise.
'''
import re

_BASIC = set('ybnqiuxtdsogh')

_PATH_RE = re.compile(r'^(/|(/[A-Za-z0-9_]+)+)$')


class SigError(Exception):
    ''' The arguments do not marshal; ``exc_type`` names what dbus-python raises. '''

    def __init__(self, exc_type, msg):
        Exception.__init__(self, '%s: %s' % (exc_type, msg))
        self.exc_type = exc_type
        self.msg = msg


def split_signature(sig):
    ''' Split a signature into single complete types. '''
    out = []
    pos = 0
    while pos < len(sig):
        end = _one_end(sig, pos)
        out.append(sig[pos:end])
        pos = end
    return out


def _one_end(sig, pos):
    if pos >= len(sig):
        raise ValueError('truncated signature %r' % sig)
    code = sig[pos]
    if code in _BASIC or code == 'v':
        return pos + 1
    if code == 'a':
        return _one_end(sig, pos + 1)
    if code in '({':
        close = ')' if code == '(' else '}'
        pos += 1
        while True:
            if pos >= len(sig):
                raise ValueError('unbalanced signature %r' % sig)
            if sig[pos] == close:
                return pos + 1
            pos = _one_end(sig, pos)
    raise ValueError('bad type code %r in %r' % (code, sig))


def valid_signature(sig):
    try:
        split_signature(sig)
        return True
    except ValueError:
        return False


def _tname(val):
    mod = type(val).__module__
    name = type(val).__name__
    if mod.startswith('dbus') or mod.endswith('_types'):
        return 'dbus.' + name
    return name


def _as_index(val, what):
    ''' PyLong_AsLong semantics: __index__ only, C long range. '''
    if isinstance(val, (bytes, bytearray, str, float)) or not hasattr(val, '__index__'):
        raise SigError('TypeError', "'%s' object cannot be interpreted as an integer" % _tname(val))
    num = val.__index__()
    if not -2 ** 63 <= num <= 2 ** 63 - 1:
        raise SigError('OverflowError', 'Python int too large to convert to C long')
    return num


def _as_int(val):
    ''' PyNumber_Long semantics: int(val). '''
    try:
        return int(val)
    except TypeError as err:
        raise SigError('TypeError', str(err))
    except ValueError as err:
        raise SigError('ValueError', str(err))
    except OverflowError as err:
        raise SigError('OverflowError', str(err))


def _is_dbus(val, name):
    return type(val).__name__ == name and hasattr(val, 'variant_level')


def _append_basic(code, val):
    if code == 'y':
        if isinstance(val, bytes):
            if len(val) != 1:
                raise SigError('ValueError', 'Expected a length-1 bytes but found %d bytes' % len(val))
            return
        num = _as_index(val, 'byte')
        if not 0 <= num <= 255:
            raise SigError('ValueError', '%d outside range for a byte value' % num)
    elif code == 'b':
        return
    elif code in 'nqi':
        num = _as_index(val, code)
        lo, hi = {'n': (-2 ** 15, 2 ** 15 - 1), 'q': (0, 2 ** 16 - 1), 'i': (-2 ** 31, 2 ** 31 - 1)}[code]
        if not lo <= num <= hi:
            raise SigError('OverflowError', 'Value %d out of range' % num)
    elif code in 'uxt':
        num = _as_int(val)
        lo, hi = {'u': (0, 2 ** 32 - 1), 'x': (-2 ** 63, 2 ** 63 - 1), 't': (0, 2 ** 64 - 1)}[code]
        if not lo <= num <= hi:
            raise SigError('OverflowError', 'Value %d out of range' % num)
    elif code == 'd':
        if isinstance(val, (str, bytes, bytearray)) or not (hasattr(val, '__float__') or hasattr(val, '__index__')):
            raise SigError('TypeError', 'must be real number, not %s' % _tname(val))
        try:
            float(val)
        except OverflowError as err:
            raise SigError('OverflowError', str(err))
    elif code in 'sog':
        if isinstance(val, bytes):
            try:
                text = val.decode('utf-8')
            except UnicodeDecodeError:
                raise SigError('UnicodeError', 'String parameters to be sent over D-Bus must be valid UTF-8')
        elif isinstance(val, str):
            text = str(val)
            try:
                text.encode('utf-8')
            except UnicodeEncodeError:
                raise SigError('UnicodeError', 'String parameters to be sent over D-Bus must be valid UTF-8')
        else:
            raise SigError('TypeError', 'Expected a string or unicode object')
        if '\x00' in text:
            raise SigError('ValueError', 'embedded null character')
        if code == 'o' and not _PATH_RE.match(text):
            # libdbus aborts the process; a checker must reject it before that
            raise SigError('ABORT', 'invalid object path %r' % text)
        if code == 'g' and not valid_signature(text):
            raise SigError('ABORT', 'invalid signature %r' % text)
    elif code == 'h':
        _as_index(val, 'fd')
    else:
        raise ValueError('not a basic type %r' % code)


def guess_signature(val):
    ''' dbus-python ``_signature_string_for_single``. '''
    name = type(val).__name__
    if hasattr(val, 'variant_level') and type(val).__module__ != 'builtins':
        simple = {
            'Byte': 'y', 'Int16': 'n', 'UInt16': 'q', 'Int32': 'i', 'UInt32': 'u',
            'Int64': 'x', 'UInt64': 't', 'Boolean': 'b', 'Double': 'd',
            'String': 's', 'UTF8String': 's', 'ObjectPath': 'o', 'Signature': 'g', 'ByteArray': 'ay',
        }
        if name in simple:
            return simple[name]
        sig = getattr(val, 'signature', None)
        if name == 'Array':
            if sig is not None:
                return 'a' + str(sig)
        elif name == 'Dictionary':
            if sig is not None:
                return 'a{' + str(sig) + '}'
        elif name == 'Struct':
            if sig is not None:
                return '(' + str(sig) + ')'
    if isinstance(val, bool):
        return 'b'
    if isinstance(val, int):
        return 'i'
    if isinstance(val, float):
        return 'd'
    if isinstance(val, (str, bytes)):
        return 's'
    if isinstance(val, list):
        if not val:
            raise SigError('ValueError', 'Unable to guess signature from an empty list')
        return 'a' + guess_signature(val[0])
    if isinstance(val, tuple):
        if not val:
            raise SigError('ValueError', 'D-Bus structs cannot be empty')
        return '(' + ''.join(guess_signature(item) for item in val) + ')'
    if isinstance(val, dict):
        if not val:
            raise SigError('ValueError', 'Unable to guess signature from an empty dict')
        key, item = next(iter(val.items()))
        return 'a{' + guess_signature(key) + guess_signature(item) + '}'
    raise SigError('TypeError', 'Don\'t know which D-Bus type to use to encode type "%s"' % type(val).__name__)


def append_one(sig, val):
    ''' Marshal one value against one single complete type. '''
    code = sig[0]
    if code in _BASIC:
        _append_basic(code, val)
    elif code == 'v':
        inner = guess_signature(val)
        append_one(inner, val)
    elif code == 'a':
        elem = sig[1:]
        if elem == 'y' and isinstance(val, bytes):
            return
        if elem.startswith('{'):
            parts = split_signature(elem[1:-1])
            if len(parts) != 2:
                raise ValueError('bad dict entry signature %r' % sig)
            try:
                keys = list(iter(val))
            except TypeError:
                raise SigError('TypeError', "'%s' object is not iterable" % _tname(val))
            for key in keys:
                try:
                    item = val[key]
                except TypeError as err:
                    raise SigError('TypeError', str(err))
                except (KeyError, IndexError) as err:
                    raise SigError(type(err).__name__, str(err))
                append_one(parts[0], key)
                append_one(parts[1], item)
        else:
            try:
                items = list(iter(val))
            except TypeError:
                raise SigError('TypeError', "'%s' object is not iterable" % _tname(val))
            for item in items:
                append_one(elem, item)
    elif code == '(':
        parts = split_signature(sig[1:-1])
        try:
            items = list(iter(val))
        except TypeError:
            raise SigError('TypeError', "'%s' object is not iterable" % _tname(val))
        if len(items) < len(parts):
            raise SigError('TypeError', "More items found in struct's D-Bus signature than in Python arguments")
        if len(items) > len(parts):
            raise SigError('TypeError', "Fewer items found in struct's D-Bus signature than in Python arguments")
        for part, item in zip(parts, items):
            append_one(part, item)
    else:
        raise ValueError('bad signature %r' % sig)


def check(signature, args):
    ''' Decide whether ``Message.append(*args, signature=signature)`` succeeds.
    :return: None when accepted, else ``(exc_type, message)``.
    '''
    try:
        args = tuple(args)
        if not signature:
            # measured: with an empty signature string nothing is marshalled
            return None
        parts = split_signature(signature)
        if len(args) < len(parts):
            raise SigError('TypeError', 'More items found in D-Bus signature than in Python arguments')
        if len(args) > len(parts):
            raise SigError('TypeError', 'Fewer items found in D-Bus signature than in Python arguments')
        for part, arg in zip(parts, args):
            append_one(part, arg)
    except SigError as err:
        return (err.exc_type, err.msg)
    return None


def check_return(out_signature, retval):
    ''' Model of ``dbus.service._method_reply_return``.
    :return: None when the reply marshals, else ``(exc_type, message)``.
    '''
    if out_signature is None:
        # guessed from the value
        if retval is None:
            return None
        vals = retval if isinstance(retval, tuple) else (retval,)
        try:
            for val in vals:
                append_one(guess_signature(val), val)
        except SigError as err:
            return (err.exc_type, err.msg)
        return None
    parts = split_signature(out_signature)
    if not parts:
        if retval is None or retval == ():
            return None
        return ('TypeError', 'method has an empty output signature but did not return None')
    if len(parts) == 1:
        vals = (retval,)
    else:
        try:
            vals = tuple(retval)
        except TypeError:
            return ('TypeError', 'method has multiple output values in signature but did not return a sequence')
    return check(out_signature, vals)
