''' Known-answer tests of the independent oracles. '''


def run_all():
    report = {}
    problems = []
    for modname in ('tcpcl_wire', 'cbor_walk', 'bpv7', 'btpu_wire', 'cose_bpsec'):
        try:
            mod = __import__('vf.oracles.' + modname, fromlist=['selftest'])
        except ImportError:
            continue
        func = getattr(mod, 'selftest', None)
        if func is None:
            continue
        count, probs = func()
        report[modname] = count
        problems += ['%s: %s' % (modname, item) for item in probs]
    return report, problems
