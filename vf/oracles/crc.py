''' Bitwise CRC-16/X-25 and CRC-32C (Castagnoli), written from the parameter
sets (reflected in/out, init all-ones, xorout all-ones).  Deliberately a
different implementation from the table-driven crcmod shim.
'''


def _crc_reflected(data, poly, width):
    mask = (1 << width) - 1
    crc = mask
    for octet in bytes(data):
        crc ^= octet
        for _ in range(8):
            if crc & 1:
                crc = (crc >> 1) ^ poly
            else:
                crc >>= 1
    return (crc ^ mask) & mask


def crc16_x25(data):
    # poly 0x1021 reflected = 0x8408
    return _crc_reflected(data, 0x8408, 16)


def crc32c(data):
    # poly 0x1EDC6F41 reflected = 0x82F63B78
    return _crc_reflected(data, 0x82F63B78, 32)
