''' Independent construction and verification of BPSec COSE-context security
blocks from *wire bytes* (draft-ietf-bpsec-cose as implemented by the statement
of properties C03/C12/C16):

  external_aad = enc(security source EID) || enc(canonical scope map)
                 || for each scope key in canonical order:
                        primary (0):   [metadata flag] the encoded primary block
                        other blocks:  [metadata flag] enc(type) enc(number) enc(flags)
                                       [btsd flag]     enc(bstr block data)
                    (-1 = the target block, -2 = the security block itself)
                 || enc(bstr additional-protected)

  COSE_Mac0 / COSE_Sign1 / COSE_Encrypt0 / COSE_Encrypt(A256KW) structures per RFC 9052,
  HMAC via hmac/hashlib, ECDSA / AES-GCM / AES-KW via ``cryptography``.

Shares no code with the repository or with pycose.
'''
import hashlib
import hmac

from . import bpv7
from . import cbor_walk as cw

CONTEXT_ID = 3
TAG_MAC0 = 17
TAG_SIGN1 = 18
TAG_ENC0 = 16
TAG_ENC = 96
TAG_MAC = 97

HMAC_ALGS = {5: (hashlib.sha256, 32), 6: (hashlib.sha384, 48), 7: (hashlib.sha512, 64), 4: (hashlib.sha256, 8)}
GCM_ALGS = {1: 16, 2: 24, 3: 32}
ECDSA_ALGS = {-7: 'sha256', -35: 'sha384', -36: 'sha512'}
OID_BUNDLE_EID = '1.3.6.1.5.5.7.8.11'


class SecError(Exception):
    ''' The security block cannot be processed (malformed / unsupported / key missing). '''


# ------------------------------------------------------------------ ASB

def parse_asb(data):
    ''' Abstract security block from block-type-specific data (a CBOR sequence). '''
    items = []
    pos = 0
    data = bytes(data)
    try:
        while pos < len(data):
            item, pos = cw.parse(data, pos)
            items.append(item.to_python())
    except cw.CborError as err:
        raise SecError('security block data is not a CBOR sequence: %s' % err)
    if len(items) < 5:
        raise SecError('security block has %d items' % len(items))
    targets, context_id, flags, source = items[0], items[1], items[2], items[3]
    if not (isinstance(targets, list) and targets and all(isinstance(t, int) and t >= 0 for t in targets)):
        raise SecError('bad target list %r' % (targets,))
    if len(set(targets)) != len(targets):
        raise SecError('duplicate targets')
    if not isinstance(context_id, int) or not isinstance(flags, int):
        raise SecError('bad context id / flags')
    try:
        src_text = bpv7.eid_from_item(source)
    except bpv7.DecodeError as err:
        raise SecError('bad security source: %s' % err)
    rest = items[4:]
    params = []
    if flags & 1:
        if len(rest) != 2:
            raise SecError('parameters flag set but %d trailing items' % len(rest))
        params = rest[0]
        results = rest[1]
    else:
        if len(rest) != 1:
            raise SecError('%d trailing items' % len(rest))
        results = rest[0]
    if not isinstance(params, list) or not all(isinstance(p, list) and len(p) == 2 and isinstance(p[0], int) for p in params):
        raise SecError('bad parameter list')
    if not isinstance(results, list) or not all(isinstance(r, list) for r in results):
        raise SecError('bad result list')
    for tres in results:
        if not all(isinstance(r, list) and len(r) == 2 and isinstance(r[0], int) for r in tres):
            raise SecError('bad target result list')
    return dict(targets=targets, context_id=context_id, flags=flags, source=src_text, source_item=source,
                params=[(p[0], p[1]) for p in params], results=[[(r[0], r[1]) for r in tres] for tres in results])


def encode_asb(asb):
    out = cw.enc(asb['targets']) + cw.enc(asb['context_id'])
    params = asb.get('params')
    flags = asb.get('flags', 1 if params else 0)
    out += cw.enc(flags) + cw.enc(bpv7.eid_to_item(asb['source']))
    if flags & 1:
        out += cw.enc([[pid, val] for (pid, val) in (params or [])])
    out += cw.enc([[[rid, val] for (rid, val) in tres] for tres in asb['results']])
    return out


def canonical_map(mapping):
    ''' RFC 7049 canonical (length-first) key order. '''
    pairs = sorted(((cw.enc(key), key, val) for key, val in mapping.items()), key=lambda item: (len(item[0]), item[0]))
    return cw.enc_head(5, len(pairs)) + b''.join(enc_key + cw.enc(val) for (enc_key, _key, val) in pairs), [key for (_e, key, _v) in pairs]


def external_aad(bundle, sec_blk, tgt_blk, scope, addl_protected, source_item):
    ''' :param bundle: bpv7 dict form; sec_blk / tgt_blk: block dicts of that bundle '''
    scope_enc, order = canonical_map(scope)
    out = cw.enc(source_item) + scope_enc
    by_num = {blk['num']: blk for blk in bundle['blocks']}
    for key in order:
        flags = scope[key]
        if key == 0:
            if flags & 1:
                out += bpv7.encode_primary(bundle['primary'], fix_crc=True)
            continue
        if key == -1:
            blk = tgt_blk
        elif key == -2:
            blk = sec_blk
        else:
            if key not in by_num:
                raise SecError('AAD scope names missing block %r' % (key,))
            blk = by_num[key]
        if flags & 1:
            out += cw.enc(blk['type']) + cw.enc(blk['num']) + cw.enc(blk['flags'])
        if flags & 2:
            out += cw.enc(bytes(blk['data']))
    out += cw.enc(bytes(addl_protected))
    return out


# ------------------------------------------------------------------ COSE primitives

def mac0_tag(alg, key, protected, ext_aad, payload):
    hfunc, trunc = HMAC_ALGS[alg]
    structure = cw.enc(['MAC0', bytes(protected), bytes(ext_aad), bytes(payload)])
    return hmac.new(key, structure, hfunc).digest()[:trunc]


def sign1_input(protected, ext_aad, payload):
    return cw.enc(['Signature1', bytes(protected), bytes(ext_aad), bytes(payload)])


def enc_aad(context, protected, ext_aad):
    return cw.enc([context, bytes(protected), bytes(ext_aad)])


def gcm_encrypt(key, nonce, plaintext, aad):
    from cryptography.hazmat.primitives.ciphers.aead import AESGCM
    return AESGCM(key).encrypt(nonce, bytes(plaintext), aad)


def gcm_decrypt(key, nonce, ciphertext, aad):
    from cryptography.hazmat.primitives.ciphers.aead import AESGCM
    from cryptography.exceptions import InvalidTag
    try:
        return AESGCM(key).decrypt(nonce, bytes(ciphertext), aad)
    except (InvalidTag, ValueError) as err:
        raise SecError('AES-GCM authentication failed: %s' % type(err).__name__)


def kw_unwrap(kek, wrapped):
    from cryptography.hazmat.primitives import keywrap
    try:
        return keywrap.aes_key_unwrap(kek, bytes(wrapped))
    except (keywrap.InvalidUnwrap, ValueError) as err:
        raise SecError('AES key unwrap failed: %s' % type(err).__name__)


def kw_wrap(kek, key):
    from cryptography.hazmat.primitives import keywrap
    return keywrap.aes_key_wrap(kek, key)


def _headers(protected_bstr, unprotected):
    if not isinstance(protected_bstr, bytes):
        raise SecError('protected header is not a byte string')
    phdr = {}
    if protected_bstr:
        try:
            phdr = cw.parse_all(protected_bstr).to_python()
        except cw.CborError as err:
            raise SecError('protected header is not CBOR: %s' % err)
        if not isinstance(phdr, dict):
            raise SecError('protected header is not a map')
    if not isinstance(unprotected, dict):
        raise SecError('unprotected header is not a map')
    if set(phdr) & set(unprotected):
        raise SecError('header parameter in both buckets')
    return phdr, unprotected


class KeyStore(object):
    ''' Keys the verifying node holds. '''

    def __init__(self, sym=None, ca_certs=None, known_certs=None):
        self.sym = dict(sym or {})          # kid -> key bytes
        self.ca_certs = list(ca_certs or [])  # cryptography certificates
        self.known_certs = list(known_certs or [])  # DER end-entity certificates seen (and validated) earlier, for x5t look-up

    def by_thumbprint(self, alg_id, tprint):
        if alg_id != -16:
            raise SecError('unsupported thumbprint algorithm %r' % (alg_id,))
        for der in self.known_certs:
            if hashlib.sha256(bytes(der)).digest() == tprint:
                return [bytes(der)]
        raise SecError('no certificate for the thumbprint')

    def ee_public_key(self, chain_der, source_eid, at_time=None):
        ''' Public key of the end-entity certificate if it is issued by a trusted CA and names the security source. '''
        from cryptography import x509
        from cryptography.hazmat.primitives.asymmetric import ec
        from cryptography.hazmat.primitives import hashes
        from cryptography.exceptions import InvalidSignature
        if isinstance(chain_der, bytes):
            chain_der = [chain_der]
        if not chain_der:
            raise SecError('empty x5chain')
        try:
            cert = x509.load_der_x509_certificate(bytes(chain_der[0]))
        except Exception as err:  # pylint: disable=broad-except
            raise SecError('x5chain certificate does not parse: %s' % type(err).__name__)
        trusted = False
        for ca_cert in self.ca_certs:
            try:
                ca_cert.public_key().verify(cert.signature, cert.tbs_certificate_bytes, ec.ECDSA(cert.signature_hash_algorithm))
                trusted = True
                break
            except (InvalidSignature, Exception):  # pylint: disable=broad-except
                continue
        if not trusted:
            raise SecError('certificate is not issued by a trusted CA')
        if at_time:
            # validity at the creation time of the bundle (milliseconds since 2000-01-01T00:00:00Z)
            import datetime
            try:
                moment = datetime.datetime(2000, 1, 1, tzinfo=datetime.timezone.utc) + datetime.timedelta(milliseconds=at_time)
            except OverflowError:
                raise SecError('certificate is not valid at the bundle creation time (beyond the calendar)')
            if not (cert.not_valid_before_utc <= moment <= cert.not_valid_after_utc):
                raise SecError('certificate is not valid at the bundle creation time %s' % moment.isoformat())
        names = []
        try:
            ext = cert.extensions.get_extension_for_oid(x509.oid.ExtensionOID.SUBJECT_ALTERNATIVE_NAME)
            for other in ext.value.get_values_for_type(x509.OtherName):
                if other.type_id.dotted_string == OID_BUNDLE_EID:
                    raw = other.value
                    # IA5String / UTF8String TLV with a short length
                    if len(raw) >= 2 and raw[1] == len(raw) - 2:
                        names.append(raw[2:].decode('ascii', 'replace'))
        except x509.ExtensionNotFound:
            pass
        if source_eid not in names:
            raise SecError('certificate does not name the security source %r' % source_eid)
        return cert.public_key()


def verify_result(tag, value, bundle, sec_blk, tgt_blk, asb, keys):
    ''' Verify (or decrypt) one security result for one target.
    :return: plaintext for confidentiality results, True for integrity results; raises SecError otherwise.
    '''
    if not isinstance(value, bytes):
        raise SecError('result value is not a byte string')
    try:
        msg = cw.parse_all(value).to_python()
    except cw.CborError as err:
        raise SecError('result value is not CBOR: %s' % err)
    if isinstance(msg, tuple) and msg and msg[0] == 'tag':
        raise SecError('tagged COSE message in a result')
    if not isinstance(msg, list):
        raise SecError('COSE message is not an array')
    scope = {0: 1, -1: 1, -2: 1}
    addl_protected = b''
    addl_unprotected = {}
    for (pid, pval) in asb['params']:
        if pid == 5:
            if not isinstance(pval, dict) or not all(isinstance(k, int) and isinstance(v, int) for k, v in pval.items()):
                raise SecError('bad AAD scope parameter')
            scope = pval
        elif pid == 3:
            if not isinstance(pval, bytes):
                raise SecError('bad additional protected parameter')
            addl_protected = pval
        elif pid == 4:
            if not isinstance(pval, bytes):
                raise SecError('bad additional unprotected parameter')
            try:
                addl_unprotected = cw.parse_all(pval).to_python() if pval else {}
            except cw.CborError:
                raise SecError('additional unprotected is not CBOR')
    addl_phdr = {}
    if addl_protected:
        try:
            addl_phdr = cw.parse_all(addl_protected).to_python()
        except cw.CborError:
            raise SecError('additional protected is not CBOR')
        if not isinstance(addl_phdr, dict):
            raise SecError('additional protected is not a map')
    if not isinstance(addl_unprotected, dict):
        raise SecError('additional unprotected is not a map')
    if set(addl_phdr) & set(addl_unprotected):
        raise SecError('duplicate additional headers')
    ext_aad = external_aad(bundle, sec_blk, tgt_blk, scope, addl_protected, asb['source_item'])
    defaults = dict(addl_phdr)
    defaults.update(addl_unprotected)

    def header(phdr, uhdr, label):
        if label in phdr:
            return phdr[label]
        if label in uhdr:
            return uhdr[label]
        return defaults.get(label)

    payload = bytes(tgt_blk['data'])
    if tag == TAG_MAC0:
        if len(msg) != 4:
            raise SecError('COSE_Mac0 has %d items' % len(msg))
        phdr, uhdr = _headers(msg[0], msg[1])
        if msg[2] is not None:
            raise SecError('payload is not detached')
        alg = header(phdr, uhdr, 1)
        kid = header(phdr, uhdr, 4)
        if alg not in HMAC_ALGS:
            raise SecError('unsupported MAC algorithm %r' % (alg,))
        if kid not in keys.sym:
            raise SecError('no key for kid %r' % (kid,))
        want = mac0_tag(alg, keys.sym[kid], msg[0], ext_aad, payload)
        if not isinstance(msg[3], bytes) or not hmac.compare_digest(want, msg[3]):
            raise SecError('MAC tag mismatch')
        return True
    if tag == TAG_SIGN1:
        from cryptography.hazmat.primitives.asymmetric import ec, utils
        from cryptography.hazmat.primitives import hashes
        from cryptography.exceptions import InvalidSignature
        if len(msg) != 4:
            raise SecError('COSE_Sign1 has %d items' % len(msg))
        phdr, uhdr = _headers(msg[0], msg[1])
        if msg[2] is not None:
            raise SecError('payload is not detached')
        alg = header(phdr, uhdr, 1)
        if alg not in ECDSA_ALGS:
            raise SecError('unsupported signature algorithm %r' % (alg,))
        chain = header(phdr, uhdr, 33)
        x5t = header(phdr, uhdr, 34)
        if isinstance(chain, bytes):
            chain = [chain]
        if x5t is not None:
            if not (isinstance(x5t, list) and len(x5t) == 2 and isinstance(x5t[1], bytes)):
                raise SecError('bad x5t')
            if not (chain and x5t[0] == -16 and hashlib.sha256(bytes(chain[0])).digest() == x5t[1]):
                chain = keys.by_thumbprint(x5t[0], x5t[1])
        if chain is None:
            raise SecError('no x5chain')
        pub = keys.ee_public_key(chain, asb['source'], at_time=bundle['primary']['create_time'])
        sig = msg[3]
        if not isinstance(sig, bytes) or len(sig) % 2:
            raise SecError('bad signature')
        half = len(sig) // 2
        der = utils.encode_dss_signature(int.from_bytes(sig[:half], 'big'), int.from_bytes(sig[half:], 'big'))
        hfunc = {'sha256': hashes.SHA256, 'sha384': hashes.SHA384, 'sha512': hashes.SHA512}[ECDSA_ALGS[alg]]()
        try:
            pub.verify(der, sign1_input(msg[0], ext_aad, payload), ec.ECDSA(hfunc))
        except InvalidSignature:
            raise SecError('signature mismatch')
        except Exception as err:  # pylint: disable=broad-except
            raise SecError('signature check failed: %s' % type(err).__name__)
        return True
    if tag == TAG_ENC0:
        if len(msg) != 3:
            raise SecError('COSE_Encrypt0 has %d items' % len(msg))
        phdr, uhdr = _headers(msg[0], msg[1])
        if msg[2] is not None:
            raise SecError('ciphertext is not detached')
        alg = header(phdr, uhdr, 1)
        kid = header(phdr, uhdr, 4)
        nonce = header(phdr, uhdr, 5)
        if alg not in GCM_ALGS:
            raise SecError('unsupported content algorithm %r' % (alg,))
        if kid not in keys.sym or len(keys.sym[kid]) != GCM_ALGS[alg]:
            raise SecError('no key for kid %r' % (kid,))
        if not isinstance(nonce, bytes) or len(nonce) != 12:
            raise SecError('bad IV')
        return gcm_decrypt(keys.sym[kid], nonce, payload, enc_aad('Encrypt0', msg[0], ext_aad))
    if tag == TAG_ENC:
        if len(msg) != 4:
            raise SecError('COSE_Encrypt has %d items' % len(msg))
        phdr, uhdr = _headers(msg[0], msg[1])
        if msg[2] is not None:
            raise SecError('ciphertext is not detached')
        alg = header(phdr, uhdr, 1)
        nonce = header(phdr, uhdr, 5)
        if alg not in GCM_ALGS:
            raise SecError('unsupported content algorithm %r' % (alg,))
        if not isinstance(nonce, bytes) or len(nonce) != 12:
            raise SecError('bad IV')
        recips = msg[3]
        if not isinstance(recips, list) or not recips:
            raise SecError('no recipients')
        last = None
        for recip in recips:
            try:
                if not (isinstance(recip, list) and len(recip) >= 3):
                    raise SecError('bad recipient')
                rphdr, ruhdr = _headers(recip[0], recip[1])
                ralg = header(rphdr, ruhdr, 1)
                rkid = header(rphdr, ruhdr, 4)
                if ralg not in (-3, -4, -5):
                    raise SecError('unsupported key wrap %r' % (ralg,))
                if rkid not in keys.sym:
                    raise SecError('no key for kid %r' % (rkid,))
                cek = kw_unwrap(keys.sym[rkid], recip[2])
                if len(cek) != GCM_ALGS[alg]:
                    raise SecError('content key has the wrong size')
                return gcm_decrypt(cek, nonce, payload, enc_aad('Encrypt', msg[0], ext_aad))
            except SecError as err:
                last = err
        raise last
    raise SecError('unhandled result type %r' % (tag,))


def verify_block(bundle, sec_blk, keys, kind):
    ''' Verify every target of one security block.
    :param kind: 'bib' or 'bcb'
    :return: dict target number -> True / plaintext.  Raises SecError if any target fails.
    '''
    asb = parse_asb(sec_blk['data'])
    if asb['context_id'] != CONTEXT_ID:
        raise SecError('unknown security context %r' % (asb['context_id'],))
    if len({pid for (pid, _v) in asb['params']}) != len(asb['params']):
        raise SecError('duplicate parameter ids')
    if len(asb['results']) != len(asb['targets']):
        raise SecError('%d result lists for %d targets' % (len(asb['results']), len(asb['targets'])))
    by_num = {blk['num']: blk for blk in bundle['blocks']}
    out = {}
    for tnum, tres in zip(asb['targets'], asb['results']):
        if len({rid for (rid, _v) in tres}) != len(tres):
            raise SecError('duplicate result ids')
        if len(tres) != 1:
            raise SecError('%d results for target %d' % (len(tres), tnum))
        if tnum not in by_num:
            raise SecError('target block %d is missing' % tnum)
        (rid, rval) = tres[0]
        if kind == 'bib' and rid not in (TAG_MAC0, TAG_SIGN1, TAG_MAC, 98):
            raise SecError('result type %d in an integrity block' % rid)
        if kind == 'bcb' and rid not in (TAG_ENC0, TAG_ENC):
            raise SecError('result type %d in a confidentiality block' % rid)
        out[tnum] = verify_result(rid, rval, bundle, sec_blk, by_num[tnum], asb, keys)
    return out


def verify_bundle(data, keys):
    ''' Decide whether every security block of an encoded bundle verifies for every target.
    :return: ('ok' | 'none' | 'fail' | 'undecodable', detail)
    '''
    try:
        bundle, problems = bpv7.decode(data)
    except bpv7.DecodeError as err:
        return 'undecodable', str(err)
    if any('CRC' in item for item in problems):
        return 'undecodable', 'CRC failure'
    secs = [(blk, 'bcb') for blk in bundle['blocks'] if blk['type'] == bpv7.TYPE_BCB] + \
           [(blk, 'bib') for blk in bundle['blocks'] if blk['type'] == bpv7.TYPE_BIB]
    if not secs:
        return 'none', ''
    work = dict(primary=dict(bundle['primary']), blocks=[dict(blk) for blk in bundle['blocks']])
    try:
        for (blk, kind) in secs:
            cur = next(item for item in work['blocks'] if item['num'] == blk['num'])
            res = verify_block(work, cur, keys, kind)
            if kind == 'bcb':
                # integrity blocks over decrypted targets see the plaintext only after acceptance; keep ciphertext here
                pass
    except SecError as err:
        return 'fail', str(err)
    return 'ok', ''


# ------------------------------------------------------------------ producers (for workloads built by the oracle)

def make_mac0_result(alg, kid, key, ext_aad, payload, protected=None):
    prot = cw.enc({1: alg}) if protected is None else protected
    tag = mac0_tag(alg, key, prot, ext_aad, payload)
    return (TAG_MAC0, cw.enc([prot, {4: kid}, None, tag]))


def make_enc0_result(alg, kid, key, nonce, ext_aad, plaintext):
    prot = cw.enc({1: alg})
    ciphertext = gcm_encrypt(key, nonce, plaintext, enc_aad('Encrypt0', prot, ext_aad))
    return (TAG_ENC0, cw.enc([prot, {4: kid, 5: nonce}, None])), ciphertext


def make_sign1_result(alg, private_key, chain_der, ext_aad, payload, x5t_only=False):
    ''' COSE_Sign1 (ECDSA, raw r||s signature) with the certificate chain in the unprotected x5chain header. '''
    from cryptography.hazmat.primitives.asymmetric import ec, utils
    from cryptography.hazmat.primitives import hashes
    prot = cw.enc({1: alg})
    hfunc = {'sha256': hashes.SHA256, 'sha384': hashes.SHA384, 'sha512': hashes.SHA512}[ECDSA_ALGS[alg]]()
    der = private_key.sign(sign1_input(prot, ext_aad, payload), ec.ECDSA(hfunc))
    (r_val, s_val) = utils.decode_dss_signature(der)
    size = (private_key.curve.key_size + 7) // 8
    sig = r_val.to_bytes(size, 'big') + s_val.to_bytes(size, 'big')
    chain = chain_der[0] if len(chain_der) == 1 else list(chain_der)
    uhdr = {34: [-16, hashlib.sha256(bytes(chain_der[0])).digest()]} if x5t_only else {33: chain}
    return (TAG_SIGN1, cw.enc([prot, uhdr, None, sig]))


def make_enc_kw_result(alg, recipients, cek, nonce, ext_aad, plaintext, kw_alg=-5):
    ''' COSE_Encrypt with the content key wrapped (AES key wrap) once per recipient.
    :param recipients: list of (kid, key-encryption key or None); None stands for a recipient nobody can use (random wrap) '''
    prot = cw.enc({1: alg})
    ciphertext = gcm_encrypt(cek, nonce, plaintext, enc_aad('Encrypt', prot, ext_aad))
    recips = []
    for (kid, kek) in recipients:
        wrapped = kw_wrap(kek, cek) if kek is not None else bytes((idx * 29 + 3) & 0xFF for idx in range(len(cek) + 8))
        recips.append([b'', {1: kw_alg, 4: kid}, wrapped])
    return (TAG_ENC, cw.enc([prot, {5: nonce}, None, recips])), ciphertext


def selftest():
    problems = []
    # RFC 9053-style sanity: HMAC 256/256 over a known structure equals hmac module output (definition check) and
    # canonical ordering of the default scope
    enc, order = canonical_map({0: 1, -1: 1, -2: 1})
    if order != [0, -1, -2] or enc.hex() != 'a3000120012101':
        problems.append('canonical scope map: %s %s' % (order, enc.hex()))
    enc, order = canonical_map({24: 3, 2: 1, -1: 1, 0: 1})
    if order != [0, 2, -1, 24]:
        problems.append('canonical order with 2-octet key: %s' % order)
    asb = dict(targets=[1], context_id=3, flags=1, source='dtn://a/', params=[(5, {0: 1, -1: 1})], results=[[(17, b'\x01')]])
    back = parse_asb(encode_asb(asb))
    if back['targets'] != [1] or back['source'] != 'dtn://a/' or back['params'] != [(5, {0: 1, -1: 1})] or back['results'] != [[(17, b'\x01')]]:
        problems.append('ASB round trip: %s' % back)
    # AES-GCM / KW round trip through the primitives
    key = bytes(range(32))
    ct = gcm_encrypt(key, b'\x00' * 12, b'plain', b'aad')
    if gcm_decrypt(key, b'\x00' * 12, ct, b'aad') != b'plain':
        problems.append('gcm round trip')
    if kw_unwrap(key, kw_wrap(key, bytes(16))) != bytes(16):
        problems.append('kw round trip')
    return 5, problems
