''' Independent RFC 9171 bundle encoder / decoder / validator.

Built on vf/oracles/cbor_walk.py and vf/oracles/crc.py only; shares no code
with the repository's scapy layers.  Bundles are plain dicts:

  {'primary': {'version', 'flags', 'crc_type', 'dest', 'src', 'report_to',
               'create_time', 'seqno', 'lifetime', 'frag_offset', 'total_adu_len', 'crc'},
   'blocks': [{'type', 'num', 'flags', 'crc_type', 'data', 'crc'}, ...]}

Endpoint IDs are text: 'dtn:none', 'dtn://node/svc', 'ipn:N.S'.
'''
from . import cbor_walk as cw
from . import crc as crc_mod

FLAG_IS_FRAGMENT = 0x000001
FLAG_ADMIN = 0x000002
FLAG_NO_FRAGMENT = 0x000004
FLAG_USER_APP_ACK = 0x000020
FLAG_REQ_STATUS_TIME = 0x000040
FLAG_REQ_RECEPTION = 0x004000
FLAG_REQ_FORWARDING = 0x010000
FLAG_REQ_DELIVERY = 0x020000
FLAG_REQ_DELETION = 0x040000

BLK_REPLICATE = 0x01
BLK_STATUS_IF_FAIL = 0x02
BLK_DELETE_IF_FAIL = 0x04
BLK_REMOVE_IF_FAIL = 0x10

TYPE_PAYLOAD = 1
TYPE_PREV_NODE = 6
TYPE_AGE = 7
TYPE_HOP_COUNT = 10
TYPE_BIB = 11
TYPE_BCB = 12

CRC_WIDTH = {0: 0, 1: 2, 2: 4}


class DecodeError(Exception):
    pass


# ------------------------------------------------------------------ EIDs

def eid_to_item(text):
    if text is None or text == 'dtn:none':
        return [1, 0]
    scheme, _, ssp = text.partition(':')
    if scheme == 'dtn':
        return [1, ssp]
    if scheme == 'ipn':
        return [2, [int(part) for part in ssp.split('.')]]
    raise ValueError('unknown EID scheme in %r' % text)


def eid_from_item(item):
    if not isinstance(item, list) or len(item) != 2:
        raise DecodeError('EID is not a 2-array: %r' % (item,))
    scheme, ssp = item
    if scheme == 1:
        if ssp == 0:
            return 'dtn:none'
        if isinstance(ssp, str):
            return 'dtn:' + ssp
        raise DecodeError('bad dtn SSP %r' % (ssp,))
    if scheme == 2:
        if isinstance(ssp, list) and len(ssp) in (2, 3) and all(isinstance(part, int) and part >= 0 for part in ssp):
            return 'ipn:' + '.'.join(str(part) for part in ssp)
        raise DecodeError('bad ipn SSP %r' % (ssp,))
    raise DecodeError('unknown EID scheme code %r' % (scheme,))


# ------------------------------------------------------------------ CRC

def crc_bytes(crc_type, data):
    if crc_type == 1:
        return crc_mod.crc16_x25(data).to_bytes(2, 'big')
    if crc_type == 2:
        return crc_mod.crc32c(data).to_bytes(4, 'big')
    raise ValueError('no CRC for type %r' % crc_type)


def block_crc_ok(block_bytes, crc_type):
    ''' Check the CRC of one encoded block (a definite array whose last item is the CRC bstr). '''
    width = CRC_WIDTH[crc_type]
    if width == 0:
        return True
    # the last item is a bstr of `width` octets: head 0x42 / 0x44 then the value
    if len(block_bytes) < width + 1 or block_bytes[-width - 1] != (0x40 | width):
        return False
    zeroed = block_bytes[:-width] + b'\x00' * width
    return crc_bytes(crc_type, zeroed) == block_bytes[-width:]


# ------------------------------------------------------------------ encode

def encode_primary(pri, fix_crc=True):
    flags = pri.get('flags', 0)
    crc_type = pri.get('crc_type', 0)
    items = [
        pri.get('version', 7), flags, crc_type,
        eid_to_item(pri.get('dest')), eid_to_item(pri.get('src')), eid_to_item(pri.get('report_to')),
        [pri.get('create_time', 0), pri.get('seqno', 0)],
        pri.get('lifetime', 0),
    ]
    if flags & FLAG_IS_FRAGMENT:
        items += [pri.get('frag_offset', 0), pri.get('total_adu_len', 0)]
    if crc_type:
        width = CRC_WIDTH[crc_type]
        items.append(b'\x00' * width)
        enc = cw.enc(items)
        if fix_crc or pri.get('crc') is None:
            crc = crc_bytes(crc_type, enc)
        else:
            crc = pri['crc']
        enc = enc[:-width] + crc
        return enc
    return cw.enc(items)


def encode_block(blk, fix_crc=True):
    crc_type = blk.get('crc_type', 0)
    items = [blk['type'], blk['num'], blk.get('flags', 0), crc_type, bytes(blk.get('data', b''))]
    if crc_type:
        width = CRC_WIDTH[crc_type]
        items.append(b'\x00' * width)
        enc = cw.enc(items)
        if fix_crc or blk.get('crc') is None:
            crc = crc_bytes(crc_type, enc)
        else:
            crc = blk['crc']
        return enc[:-width] + crc
    return cw.enc(items)


def encode(bundle, fix_crc=True):
    out = b'\x9f' + encode_primary(bundle['primary'], fix_crc)
    for blk in bundle['blocks']:
        out += encode_block(blk, fix_crc)
    return out + b'\xff'


# ------------------------------------------------------------------ decode + validate

def decode(data, strict=True):
    ''' Decode an encoded bundle.
    :return: (bundle dict, list of structural problems).  Raises DecodeError when
        the octets cannot be read as a bundle at all.
    '''
    problems = []
    try:
        outer = cw.parse_all(bytes(data))
    except cw.CborError as err:
        raise DecodeError('not CBOR: %s' % err)
    if outer.major != 4:
        raise DecodeError('outer item is not an array')
    if not outer.indefinite:
        problems.append('outer array is not indefinite-length')
    kids = outer.children
    if len(kids) < 2:
        raise DecodeError('bundle has fewer than two blocks')
    for idx, kid in enumerate(kids):
        if kid.major != 4:
            raise DecodeError('block %d is not an array' % idx)
        if not kid.all_definite():
            problems.append('block %d contains an indefinite-length item' % idx)
        if not kid.all_shortest():
            problems.append('block %d contains a non-shortest-form head' % idx)

    pitem = kids[0]
    pvals = pitem.to_python()
    count = len(pvals)
    if not 8 <= count <= 11:
        raise DecodeError('primary block has %d items' % count)
    try:
        version, flags, crc_type = pvals[0], pvals[1], pvals[2]
        if not all(isinstance(val, int) and val >= 0 for val in (version, flags, crc_type)):
            raise DecodeError('primary header fields are not uints')
        if crc_type not in CRC_WIDTH:
            raise DecodeError('unknown primary CRC type %r' % crc_type)
        ts = pvals[6]
        if not (isinstance(ts, list) and len(ts) == 2 and all(isinstance(val, int) and val >= 0 for val in ts)):
            raise DecodeError('bad creation timestamp %r' % (ts,))
        if not (isinstance(pvals[7], int) and pvals[7] >= 0):
            raise DecodeError('bad lifetime')
        pri = dict(version=version, flags=flags, crc_type=crc_type,
                   dest=eid_from_item(pvals[3]), src=eid_from_item(pvals[4]), report_to=eid_from_item(pvals[5]),
                   create_time=ts[0], seqno=ts[1], lifetime=pvals[7], frag_offset=None, total_adu_len=None, crc=None)
    except (IndexError, TypeError) as err:
        raise DecodeError('bad primary block: %s' % err)
    want = 8 + (2 if flags & FLAG_IS_FRAGMENT else 0) + (1 if crc_type else 0)
    if count != want:
        raise DecodeError('primary block has %d items, flags/CRC type imply %d' % (count, want))
    pos = 8
    if flags & FLAG_IS_FRAGMENT:
        if not all(isinstance(val, int) and val >= 0 for val in pvals[8:10]):
            raise DecodeError('bad fragment fields')
        pri['frag_offset'], pri['total_adu_len'] = pvals[8], pvals[9]
        pos = 10
    if crc_type:
        crc = pvals[pos]
        if not isinstance(crc, bytes) or len(crc) != CRC_WIDTH[crc_type]:
            raise DecodeError('primary CRC field has wrong type/width')
        pri['crc'] = crc
        if not block_crc_ok(bytes(data[pitem.start:pitem.end]), crc_type):
            problems.append('primary block CRC mismatch')
    if version != 7:
        problems.append('version is %r' % version)

    blocks = []
    seen_nums = set()
    for idx, kid in enumerate(kids[1:], start=1):
        vals = kid.to_python()
        if len(vals) not in (5, 6):
            raise DecodeError('canonical block %d has %d items' % (idx, len(vals)))
        btype, num, bflags, bcrc, bdata = vals[:5]
        if not all(isinstance(val, int) and val >= 0 for val in (btype, num, bflags, bcrc)):
            raise DecodeError('canonical block %d header fields are not uints' % idx)
        if not isinstance(bdata, bytes):
            raise DecodeError('canonical block %d data is not a byte string' % idx)
        if bcrc not in CRC_WIDTH:
            raise DecodeError('canonical block %d has unknown CRC type %r' % (idx, bcrc))
        if (len(vals) == 6) != bool(bcrc):
            raise DecodeError('canonical block %d: CRC field presence does not match CRC type %d' % (idx, bcrc))
        blk = dict(type=btype, num=num, flags=bflags, crc_type=bcrc, data=bdata, crc=None)
        if bcrc:
            crc = vals[5]
            if not isinstance(crc, bytes) or len(crc) != CRC_WIDTH[bcrc]:
                raise DecodeError('canonical block %d CRC field has wrong type/width' % idx)
            blk['crc'] = crc
            if not block_crc_ok(bytes(data[kid.start:kid.end]), bcrc):
                problems.append('block number %d CRC mismatch' % num)
        if num in seen_nums:
            problems.append('duplicate block number %d' % num)
        seen_nums.add(num)
        if num == 0:
            problems.append('canonical block numbered 0')
        blocks.append(blk)
    payloads = [blk for blk in blocks if blk['type'] == TYPE_PAYLOAD]
    if len(payloads) != 1:
        problems.append('%d payload blocks' % len(payloads))
    else:
        if blocks[-1]['type'] != TYPE_PAYLOAD:
            problems.append('payload block is not last')
        if payloads[0]['num'] != 1:
            problems.append('payload block is numbered %d' % payloads[0]['num'])
    for blk in blocks:
        if blk['type'] != TYPE_PAYLOAD and blk['num'] == 1:
            problems.append('non-payload block numbered 1')
    return dict(primary=pri, blocks=blocks), problems


def crc_report(data):
    ''' CRC status per block judged on raw block spans only, independent of
    whether the bundle is otherwise well-formed.
    :return: list of (block index, crc_type, 'ok' | 'bad' | 'stray-crc-item' | 'missing-crc-item')
    '''
    outer = cw.parse_all(bytes(data))
    if outer.major != 4:
        raise DecodeError('outer item is not an array')
    out = []
    for idx, kid in enumerate(outer.children):
        if kid.major != 4 or kid.indefinite:
            raise DecodeError('block %d is not a definite array' % idx)
        items = kid.children
        tpos = 2 if idx == 0 else 3
        if len(items) <= tpos or items[tpos].major != 0:
            raise DecodeError('block %d has no CRC type' % idx)
        crc_type = items[tpos].value
        if idx == 0:
            flags = items[1].value if items[1].major == 0 else 0
            base = 8 + (2 if flags & FLAG_IS_FRAGMENT else 0)
        else:
            base = 5
        if crc_type == 0:
            out.append((idx, 0, 'ok' if len(items) == base else 'stray-crc-item'))
            continue
        if crc_type not in CRC_WIDTH:
            raise DecodeError('block %d has unknown CRC type %r' % (idx, crc_type))
        if len(items) != base + 1:
            out.append((idx, crc_type, 'missing-crc-item'))
            continue
        out.append((idx, crc_type, 'ok' if block_crc_ok(bytes(data[kid.start:kid.end]), crc_type) else 'bad'))
    return out


def crc_failures(data):
    ''' :return: True if the independent decoder finds the encoding malformed or any CRC wrong. '''
    try:
        _bundle, problems = decode(data)
    except DecodeError:
        return True
    return any('CRC mismatch' in item for item in problems)


def payload_of(bundle):
    for blk in bundle['blocks']:
        if blk['type'] == TYPE_PAYLOAD:
            return blk
    return None


def ident(bundle):
    pri = bundle['primary']
    base = (pri['src'], pri['create_time'], pri['seqno'])
    if pri['flags'] & FLAG_IS_FRAGMENT:
        # a fragment is identified by its own extent: offset and payload length
        pay = payload_of(bundle)
        base += (pri['frag_offset'], len(pay['data']) if pay is not None else None)
    return base


# ------------------------------------------------------------------ admin records

def encode_status_report(status, reason, src, create_time, seqno, frag_offset=None, payload_len=None):
    ''' status: list of four (asserted, time or None) in order received/forwarded/delivered/deleted. '''
    info = []
    for (flag, when) in status:
        info.append([bool(flag)] if when is None else [bool(flag), when])
    body = [info, reason, eid_to_item(src), [create_time, seqno]]
    if frag_offset is not None:
        body += [frag_offset, payload_len]
    return cw.enc([1, body])


def decode_admin_record(data):
    try:
        item = cw.parse_all(bytes(data))
    except cw.CborError as err:
        raise DecodeError('admin record is not CBOR: %s' % err)
    val = item.to_python()
    if not (isinstance(val, list) and len(val) == 2 and isinstance(val[0], int)):
        raise DecodeError('admin record is not [type, content]')
    out = dict(record_type=val[0], content=val[1], definite=item.all_definite(), shortest=item.all_shortest())
    if val[0] == 1:
        body = val[1]
        if not (isinstance(body, list) and len(body) in (4, 6)):
            raise DecodeError('status report has %r items' % (len(body) if isinstance(body, list) else body))
        info = body[0]
        if not (isinstance(info, list) and len(info) == 4):
            raise DecodeError('status information is not a 4-array')
        status = []
        for entry in info:
            if not (isinstance(entry, list) and len(entry) in (1, 2) and isinstance(entry[0], bool)):
                raise DecodeError('bad status assertion %r' % (entry,))
            status.append((entry[0], entry[1] if len(entry) == 2 else None))
        ts = body[3]
        if not (isinstance(ts, list) and len(ts) == 2):
            raise DecodeError('bad subject timestamp')
        out.update(status=status, reason=body[1], subj_src=eid_from_item(body[2]), subj_time=ts[0], subj_seqno=ts[1],
                   frag_offset=body[4] if len(body) == 6 else None, payload_len=body[5] if len(body) == 6 else None)
    return out


# ------------------------------------------------------------------ self-test

def selftest():
    problems = []
    count = 0
    # RFC 9171 style hand-assembled bundle: primary (no CRC) + payload block
    primary_hex = '88' + '07' + '00' + '00' + '8201692f2f6e6f64652d622f' + '8201682f2f6e6f64652d61' + '820100' + '820a01' + '1903e8'
    payload_hex = '85' + '01' + '01' + '00' + '00' + '43616263'
    data = bytes.fromhex('9f' + primary_hex + payload_hex + 'ff')
    bundle, probs = decode(data)
    count += 1
    if probs or bundle['primary']['dest'] != 'dtn://node-b/' or bundle['primary']['src'] != 'dtn://node-a' \
            or bundle['primary']['report_to'] != 'dtn:none' or bundle['primary']['create_time'] != 10 \
            or bundle['primary']['lifetime'] != 1000 or bundle['blocks'][0]['data'] != b'abc':
        problems.append('hand-assembled bundle decode: %s %s' % (bundle, probs))
    if encode(bundle) != data:
        problems.append('hand-assembled bundle re-encode')
    # CRC-protected blocks round trip and detect a flip
    bundle = dict(
        primary=dict(version=7, flags=FLAG_IS_FRAGMENT, crc_type=2, dest='ipn:977000.1', src='ipn:5.0', report_to='dtn:none',
                     create_time=2 ** 40, seqno=3, lifetime=0, frag_offset=24, total_adu_len=300),
        blocks=[dict(type=10, num=2, flags=1, crc_type=1, data=bytes.fromhex('82181e01')),
                dict(type=1, num=1, flags=0, crc_type=2, data=b'x' * 30)])
    enc = encode(bundle)
    back, probs = decode(enc)
    count += 1
    if probs or encode(back, fix_crc=False) != enc:
        problems.append('CRC bundle round trip: %s' % probs)
    for pos in (3, len(enc) // 2, len(enc) - 3):
        flipped = bytearray(enc)
        flipped[pos] ^= 0x10
        count += 1
        if not crc_failures(bytes(flipped)):
            problems.append('flip at %d not detected' % pos)
    # status report
    rep = encode_status_report([(True, 5), (False, None), (False, None), (True, 7)], 6, 'dtn://a/', 9, 1)
    dec = decode_admin_record(rep)
    count += 1
    if dec['status'] != [(True, 5), (False, None), (False, None), (True, 7)] or dec['reason'] != 6 or dec['subj_src'] != 'dtn://a/':
        problems.append('status report round trip: %s' % dec)
    return count, problems
