''' Whole-stack worlds: real ``bp.agent.Agent`` objects bound, through the repository's own convergence-layer adaptors
(``bp/cla.py``) and the in-process bus, to real UDPCL / TCPCL agents that talk to each other over the simulated network.

Nothing between the application boundary of one node and the application boundary of another is a harness stand-in any
more: BP agent -> ``cl_attach`` -> ``UdpclAdaptor`` / ``TcpclAdaptor`` -> D-Bus proxy call (marshalled by the signature
model) -> CL agent -> fake socket -> network -> peer CL agent -> ``recv_bundle_finished`` signal -> adaptor pops the
data over the bus -> ``Agent.recv_bundle``.  Each agent is its own simulated process (its own loop context), as in a real
deployment where every daemon is a process on one session bus.

The observations are taken at three places only: the application observer of each BP node (vf.bp_harness), the
datagrams / TCP octets on the simulated network, and the bus history (signature violations, errors, callback exceptions).
'''
import time as _time

import dbus
import dbus.bus

from vf import bp_harness
from vf import tcpcl_harness as th

UDP_PORT = 4556


class _SleepPatch(object):
    ''' bp.cla polls ``get_session_state`` with time.sleep(0.1) (imported inside the function): no wall-clock sleeping. '''

    def __enter__(self):
        self._orig = _time.sleep
        _time.sleep = lambda _secs: None
        return self

    def __exit__(self, *_exc):
        _time.sleep = self._orig
        return False


class StackWorld(object):
    ''' A set of stacks in one Sim. '''

    def __init__(self, sim):
        import udpcl.agent  # pylint: disable=import-outside-toplevel
        import tcpcl.agent  # pylint: disable=import-outside-toplevel
        from vf.world import net as vnet  # pylint: disable=import-outside-toplevel
        from vf.world.sim import install_clock  # pylint: disable=import-outside-toplevel
        self.sim = sim
        self.fake = vnet.FakeSocketModule(sim.net)
        self._saved = [(udpcl.agent, udpcl.agent.socket), (tcpcl.agent, tcpcl.agent.socket)]
        udpcl.agent.socket = self.fake
        tcpcl.agent.socket = self.fake
        install_clock()
        self.stacks = {}
        self._sleep = _SleepPatch()
        self._sleep.__enter__()

    def close(self):
        self._sleep.__exit__()
        for (mod, orig) in self._saved:
            mod.socket = orig

    def add(self, name, **kwargs):
        stack = Stack(self, name, **kwargs)
        self.stacks[name] = stack
        return stack

    def settle(self, max_steps=200000):
        return self.sim.settle(max_steps)

    def problems(self):
        ''' Things that must not happen in any node of the world, whatever the scenario. '''
        out = []
        for err in self.sim.world.callback_errors:
            out.append(('raised', 'event-loop callback %s of node %s raised %s: %s' % (
                getattr(err, 'source', '?'), getattr(err, 'node', '?'), err.exc_type, str(err.exc)[:160])))
        for viol in self.sim.hist.sig_violations:
            out.append(('signature', 'D-Bus %s %s.%s does not marshal as %r: %s' % (
                viol.kind, viol.path, viol.member, viol.signature, str(viol.msg)[:120])))
        return out


class Stack(object):
    ''' One host: a BP agent and its CL agents, every one a simulated process, on one bus. '''

    def __init__(self, world, name, node_id, ip, rx_routes=(), tx_routes=(), udp_mtu=None, tcp=False, tcp_cfg=None, **bp_cfg):
        import udpcl.agent  # pylint: disable=import-outside-toplevel
        import udpcl.config  # pylint: disable=import-outside-toplevel
        self.world = world
        sim = world.sim
        self.sim = sim
        self.name = name
        self.ip = ip
        self.node_id = node_id
        sim.net.node_addr['udp-' + name] = ip
        sim.net.node_addr['tcp-' + name] = ip
        self.bp = bp_harness.BpNode(sim, node_id, name='bp-' + name, rx_routes=rx_routes, tx_routes=tx_routes, **bp_cfg)
        self.bus = self.bp.cfg.bus_conn
        # -- UDPCL agent, its own process
        ucfg = udpcl.config.Config(node_id=node_id, mtu_default=udp_mtu, bus_service='org.ietf.dtn.udpcl.' + name)
        ucfg._bus_conn = self.bus
        self.udp_path = '/org/ietf/dtn/udpcl/Agent'
        with sim.as_node('udp-' + name):
            self.udp = udpcl.agent.Agent(ucfg, bus_kwargs=dict(conn=self.bus, object_path=self.udp_path))
        self.udp_call('listen', ip, dbus.Int32(UDP_PORT), dbus.Dictionary({}, signature='sv'))
        self.bp_call('cl_attach', 'udpcl', 'org.ietf.dtn.udpcl.' + name)
        # what the BP agent hands to a convergence layer: calls of the sender function its adaptor gave it
        self.handed = []  # (event_no, bytes, cl type)
        self._tap('udpcl')
        self.tcp = None
        if tcp:
            self._make_tcp(tcp_cfg or {})
            self._tap('tcpcl')

    def _tap(self, cltype):
        adaptor = self.bp.agent._cl_agent[cltype]
        orig = adaptor.send_bundle_func
        world = self.sim.world
        handed = self.handed

        def send_bundle_func(tx_params):
            inner = orig(tx_params)

            def sender(data):
                world.event_no += 1
                handed.append((world.event_no, bytes(data), cltype))
                return inner(data)

            return sender

        adaptor.send_bundle_func = send_bundle_func

    def _make_tcp(self, tcp_cfg):
        import tcpcl.agent  # pylint: disable=import-outside-toplevel
        import tcpcl.config  # pylint: disable=import-outside-toplevel
        sim = self.sim
        cfg = tcpcl.config.Config(node_id=self.node_id, bus_service='org.ietf.dtn.tcpcl.' + self.name, tls_enable=False,
                                  **tcp_cfg)
        cfg._bus_conn = self.bus
        self.tcp_path = '/org/ietf/dtn/tcpcl/Agent'
        with sim.as_node('tcp-' + self.name):
            self.tcp = tcpcl.agent.Agent(cfg, bus_kwargs=dict(conn=self.bus, object_path=self.tcp_path))
        th._bus_call(sim, 'tcp-' + self.name, self.tcp, self.tcp_path, type(self.tcp).listen, 'listen', (self.ip, dbus.Int32(4556)))
        self.bp_call('cl_attach', 'tcpcl', 'org.ietf.dtn.tcpcl.' + self.name)

    def udp_call(self, member, *args):
        return th._bus_call(self.sim, 'udp-' + self.name, self.udp, self.udp_path, getattr(type(self.udp), member), member, args)

    def bp_call(self, member, *args):
        agent = self.bp.agent
        return th._bus_call(self.sim, 'bp-' + self.name, agent, '/org/ietf/dtn/bp/Agent', getattr(type(agent), member), member, args)

    def udp_sent(self):
        ''' Every datagram any socket of this host's UDPCL agent has sent: (event_no, data, to). '''
        out = []
        for socks in self.sim.net.udp_bound.values():
            for sock in socks:
                if getattr(sock, '_vf_node', None) == 'udp-' + self.name:
                    out += [(item[0], item[2], item[4]) for item in sock.sent]
        out.sort(key=lambda item: item[0])
        return out
