''' Scenario generation and execution for two-endpoint TCPCL runs (C01, C04, C09, C18). '''
import random

from vf.tcpcl_run import PairRun, payload_for

SEG_SIZES = [1, 2, 7, 100, 10240, 104857]
MRUS = [1, 2, 64, 10240, 10485760]
POLICIES = ['fair', 'rr', 'eager', 'starve0', 'starve1', 'burst', 'lazy', 'octet']


def length_classes(seg):
    base = [0, 1, 2, seg - 1, seg, seg + 1, 2 * seg - 1, 2 * seg + 1, 3 * seg]
    return sorted(set(val for val in base if val >= 0))


def directed(tier):
    ''' Directed corpus of scenarios (dicts). '''
    out = []
    idx = 0
    for seg_a, mru_b in ((1, 10485760), (2, 64), (7, 2), (100, 64), (10240, 10240), (104857, 10485760), (100, 1)):
        seg = max(1, min(seg_a, mru_b))
        lens = [val for val in length_classes(seg) if val <= 60000]
        if seg <= 2:
            lens = [val for val in lens if val <= 40]
        for policy in ('fair', 'rr', 'burst', 'starve0'):
            out.append(dict(id='dir-%d' % idx, seed=idx, policy=policy, capacity=None,
                            cfg_a=dict(segment_size_tx_initial=seg_a), cfg_b=dict(segment_size_mru=mru_b),
                            sends=[dict(side='A', length=val, at=-1 if pos % 3 == 0 else pos * 3) for pos, val in enumerate(lens)] +
                            [dict(side='B', length=val, at=pos * 2) for pos, val in enumerate(lens[:3])]))
            idx += 1
    # large bundles above the chunk size
    for length in (10239, 10240, 10241, 65536) + ((1 << 20,) if tier == 'thorough' else ()):
        for policy in ('fair', 'eager'):
            out.append(dict(id='dir-%d' % idx, seed=idx, policy=policy, capacity=None, cfg_a={}, cfg_b={},
                            sends=[dict(side='A', length=length, at=-1), dict(side='B', length=length // 2, at=5),
                                   dict(side='A', length=3, at=6)]))
            idx += 1
    # back-pressure: tiny pipes
    for cap in (1, 3, 64, 1000):
        for policy in ('fair', 'starve1', 'lazy'):
            out.append(dict(id='dir-%d' % idx, seed=idx, policy=policy, capacity=cap,
                            cfg_a=dict(segment_size_tx_initial=50), cfg_b=dict(segment_size_tx_initial=50),
                            sends=[dict(side='A', length=120, at=-1), dict(side='B', length=1, at=-1), dict(side='A', length=2, at=20),
                                   dict(side='B', length=300, at=30)]))
            idx += 1
    # many bundles waiting in the receive queue at once (ids of one and two digits; the harness drains in listed order)
    for count, policy in ((13, 'fair'), (25, 'rr'), (104, 'eager')):
        out.append(dict(id='dir-%d' % idx, seed=idx, policy=policy, capacity=None, cfg_a=dict(segment_size_tx_initial=40), cfg_b={},
                        sends=[dict(side='A', length=5 + pos, at=-1 if pos < 3 else pos) for pos in range(count)] +
                        [dict(side='B', length=30 + pos, at=2 * pos) for pos in range(11)]))
        idx += 1
    # keepalive running: a slow, narrow link on which the KEEPALIVE timer fires while segments are still queued, and a negotiation
    # that takes longer than the keepalive interval.  (The session never falls silent, so the run ends at a virtual-time horizon.)
    for (ka_a, ka_b, latency_ms, cap, seg, lens_a, lens_b) in ((1, 1, 300, 600, 2000, [5000, 3000], [2000]), (1, 2, 200, 256, 900, [4000], [10, 2500]),
                                                               (2, 1, 1500, None, 100, [250, 30], [120]), (1, 1, 2500, 4000, 5000, [12000], []),
                                                               # more than two 10240-octet pulls waiting in the message-level buffer for longer than the interval
                                                               (1, 1, 1000, 3000, 40000, [100000, 7], [50000])):
        out.append(dict(id='dir-%d' % idx, seed=idx, policy='eager', capacity=cap, latency_ns=latency_ms * 1000000, horizon_ns=1800 * 10 ** 9,
                        cfg_a=dict(segment_size_tx_initial=seg, keepalive_time=ka_a), cfg_b=dict(segment_size_tx_initial=seg, keepalive_time=ka_b),
                        sends=[dict(side='A', length=val, at=-1) for val in lens_a] + [dict(side='B', length=val, at=3) for val in lens_b]))
        idx += 1
    # node ids outside ASCII (lengths on the wire count octets, not characters)
    for (nid_a, nid_b) in (('dtn://n\u0153ud-\u00e9/', 'dtn://node-b/'), ('dtn://node-a/', 'dtn://kn\u00f6ten-\u00fc/x'), ('dtn://\u65e5\u672c/', 'dtn://\u00e9/')):
        out.append(dict(id='dir-%d' % idx, seed=idx, policy='fair', capacity=None, cfg_a=dict(node_id=nid_a, segment_size_tx_initial=30),
                        cfg_b=dict(node_id=nid_b, segment_size_tx_initial=30),
                        sends=[dict(side='A', length=70, at=-1), dict(side='B', length=10, at=2), dict(side='A', length=1, at=9)]))
        idx += 1
    # a burst of many small bundles over a link with delay: all of them are on the wire before the first acknowledgement returns,
    # and nothing but the acknowledgements happens afterwards
    for (count, latency_ms, cap, both) in ((12, 50, None, False), (30, 200, None, True), (20, 20, 500, False), (9, 1000, None, False)):
        out.append(dict(id='dir-%d' % idx, seed=idx, policy='eager', capacity=cap, latency_ns=latency_ms * 1000000,
                        cfg_a=dict(segment_size_tx_initial=1000), cfg_b=dict(segment_size_tx_initial=1000),
                        sends=[dict(side='A', length=10 + pos, at=-1) for pos in range(count)] +
                        ([dict(side='B', length=40 + pos, at=-1) for pos in range(count)] if both else [])))
        idx += 1
    # many small messages per read: one side's loop runs much less often than the other's, so that each of its 10240-octet reads holds
    # hundreds of complete segments (or acknowledgements); every one of them is acted on although no further octet may ever arrive
    # (traffic in one direction only, so that nothing arriving later can cover for messages left behind)
    for policy in ('starve0', 'starve1', 'burst', 'hold0', 'hold1'):
        for seg in (100, 20):
            out.append(dict(id='dir-%d' % idx, seed=idx, policy=policy, capacity=None, cfg_a=dict(segment_size_tx_initial=seg),
                            cfg_b=dict(segment_size_mru=seg, segment_size_tx_initial=seg),
                            sends=[dict(side='A', length=40000 if seg == 100 else 12000, at=-1), dict(side='A', length=6, at=-1)] +
                            ([dict(side='B', length=9000, at=4)] if policy == 'burst' else [])))
            idx += 1
    # the sender's test option that adds a private (critical) transfer extension item: multi-segment bundles are transfers like any other
    for policy in ('fair', 'eager'):
        out.append(dict(id='dir-%d' % idx, seed=idx, policy=policy, capacity=None, cfg_a=dict(segment_size_tx_initial=100, enable_test={'private_extensions'}),
                        cfg_b=dict(segment_size_tx_initial=100), sends=[dict(side='A', length=250, at=-1), dict(side='A', length=7, at=-1), dict(side='B', length=120, at=3)]))
        idx += 1
    # one octet at a time
    for seg in (1, 7, 100):
        out.append(dict(id='dir-%d' % idx, seed=idx, policy='octet', capacity=None, cfg_a=dict(segment_size_tx_initial=seg),
                        cfg_b=dict(segment_size_tx_initial=seg),
                        sends=[dict(side='A', length=val, at=-1) for val in (1, 0 + seg, seg + 1)] + [dict(side='B', length=9, at=40)]))
        idx += 1
    return out


def random_scenario(rng, idx, allow_zero=True):
    policy = rng.choice(POLICIES)
    seg_a, seg_b = rng.choice(SEG_SIZES), rng.choice(SEG_SIZES)
    mru_a, mru_b = rng.choice(MRUS), rng.choice(MRUS)
    eff_a, eff_b = max(1, min(seg_a, mru_b)), max(1, min(seg_b, mru_a))
    capacity = rng.choice([None, None, None, 1, 2, 17, 500, 20000])
    sends = []
    budget = 3000 if policy != 'octet' else 400
    for side, eff in (('A', eff_a), ('B', eff_b)):
        for _ in range(rng.randint(0, 6)):
            classes = [val for val in length_classes(eff) if val <= budget] or [1]
            length = rng.choice(classes + [rng.randint(0, min(budget, 4 * eff + 5))])
            if eff <= 2:
                length = min(length, 60)
            if not allow_zero and length == 0:
                length = 1
            sends.append(dict(side=side, length=length, at=rng.choice([-1, -1, 0, 1, 2, 5, 10, 30, 80, 200])))
    rng.shuffle(sends)
    scn = dict(id='rnd-%d' % idx, seed=rng.randrange(1 << 30), policy=policy, capacity=capacity,
               cfg_a=dict(segment_size_tx_initial=seg_a, segment_size_mru=mru_a),
               cfg_b=dict(segment_size_tx_initial=seg_b, segment_size_mru=mru_b), sends=sends)
    if rng.random() < 0.2:
        # adaptive segment size on one or both sides; needs a non-zero acknowledgement delay (the controller divides by it)
        for key in rng.choice([('cfg_a',), ('cfg_b',), ('cfg_a', 'cfg_b')]):
            scn[key]['modulate_target_ack_time'] = rng.choice([1, 2, 10])
        scn['latency_ns'] = 1000000
    return scn


def execute(scn, max_steps=400000, actions=None, on_step=None, on_create=None):
    ''' Run one scenario.
    :param actions: optional list of dict(at=step index, fn=callable(run)) executed between scheduler steps
    :return: (run, result) with result in 'quiescent' | 'budget'
    '''
    run = PairRun(seed=scn['seed'], policy=scn['policy'], cfg_a=scn.get('cfg_a'), cfg_b=scn.get('cfg_b'),
                  capacity=scn.get('capacity'))
    if scn.get('latency_ns'):
        run.sim.deliver_latency_ns = scn['latency_ns']
    if on_create is not None:
        on_create(run)
    counters = {'A': 0, 'B': 0}
    pending = []
    for item in scn['sends']:
        pending.append(dict(at=item['at'], side=item['side'], length=item['length']))
    extra = sorted(list(actions or []), key=lambda act: act['at'])

    def fire(step):
        for item in [it for it in pending if it['at'] <= step]:
            pending.remove(item)
            idx = counters[item['side']]
            counters[item['side']] += 1
            run.send(item['side'], payload_for(item['side'], idx, item['length']))
        while extra and extra[0]['at'] <= step:
            act = extra.pop(0)
            act['fn'](run)

    fire(-1)
    run.start()
    result = 'budget'
    step = 0
    for step in range(max_steps):
        fire(step)
        if on_step is not None:
            on_step(run, step)
        if scn.get('horizon_ns') and run.sim.world.now_ns >= scn['horizon_ns'] and not (pending or extra):
            # a session with a running keepalive never falls silent: observation ends at the horizon
            result = 'quiescent'
            run.ended_at_horizon = True
            break
        if run.sim.step() is None:
            if pending or extra:
                # nothing happens any more: issue the remaining user actions now
                nxt = min([it['at'] for it in pending] + [act['at'] for act in extra])
                fire(nxt)
                continue
            result = 'quiescent'
            break
    run.steps_used = step
    return run, result
