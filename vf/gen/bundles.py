''' Seeded generators of bundles (in the oracle's dict form) and converters
to / from the repository's scapy objects.
'''
from vf.oracles import bpv7
from vf.oracles import cbor_walk as cw

U64_EDGES = [0, 1, 23, 24, 255, 256, 65535, 65536, 2 ** 32 - 1, 2 ** 32, 2 ** 63, 2 ** 64 - 1]
NODE_CHARS = 'abcdefghijklmnopqrstuvwxyzABCDEFGHIJKLMNOPQRSTUVWXYZ0123456789-._'
# RFC 9171 demux = *VCHAR; '?' and '#' are legal there and stress URI splitting
DEMUX_CHARS = NODE_CHARS + '/~!$&\'()*+,;=:@'
DEMUX_HARD = '?#%[]'


def rand_uint(rng, maxbits=64):
    roll = rng.random()
    if roll < 0.45:
        val = rng.choice(U64_EDGES)
    elif roll < 0.7:
        val = rng.randrange(0, 300)
    else:
        val = rng.getrandbits(rng.choice([8, 16, 24, 32, 40, 64]))
    return val & ((1 << maxbits) - 1)


def rand_eid(rng, allow_none=True, hard=False):
    roll = rng.random()
    if allow_none and roll < 0.15:
        return 'dtn:none'
    if roll < 0.55:
        node = ''.join(rng.choice(NODE_CHARS) for _ in range(rng.choice([1, 2, 6, 20, 23, 24, 60])))
        chars = DEMUX_CHARS + (DEMUX_HARD if hard else '')
        demux = ''.join(rng.choice(chars) for _ in range(rng.choice([0, 0, 1, 3, 12, 40])))
        return 'dtn://%s/%s' % (node, demux)
    return 'ipn:%d.%d' % (rand_uint(rng), rand_uint(rng))


def typed_block_data(rng, btype, hard=False):
    ''' Valid block-type-specific data for the known extension block types. '''
    if btype == bpv7.TYPE_PREV_NODE:
        return cw.enc(bpv7.eid_to_item(rand_eid(rng, hard=hard)))
    if btype == bpv7.TYPE_AGE:
        return cw.enc(rand_uint(rng))
    if btype == bpv7.TYPE_HOP_COUNT:
        return cw.enc([rand_uint(rng, 8), rand_uint(rng, 8)])
    return bytes(rng.getrandbits(8) for _ in range(rng.choice([0, 1, 2, 23, 24, 100, 255, 256, 1000])))


def rand_bundle(rng, hard_eids=False, allow_admin=False, max_ext=4, payload_len=None, types=None):
    flags = 0
    for bit in (bpv7.FLAG_NO_FRAGMENT, bpv7.FLAG_USER_APP_ACK, bpv7.FLAG_REQ_STATUS_TIME, bpv7.FLAG_REQ_RECEPTION,
                bpv7.FLAG_REQ_FORWARDING, bpv7.FLAG_REQ_DELIVERY, bpv7.FLAG_REQ_DELETION):
        if rng.random() < 0.3:
            flags |= bit
    is_frag = rng.random() < 0.3
    if is_frag:
        flags |= bpv7.FLAG_IS_FRAGMENT
    pri = dict(
        version=7, flags=flags, crc_type=rng.choice([0, 1, 2]),
        dest=rand_eid(rng, hard=hard_eids), src=rand_eid(rng, hard=hard_eids), report_to=rand_eid(rng, hard=hard_eids),
        create_time=rand_uint(rng), seqno=rand_uint(rng), lifetime=rand_uint(rng),
        frag_offset=rand_uint(rng) if is_frag else None, total_adu_len=rand_uint(rng) if is_frag else None, crc=None,
    )
    blocks = []
    used = {1}
    for _ in range(rng.randint(0, max_ext)):
        btype = rng.choice(types or [6, 7, 10, 10, 192, 200, 65535, 2 ** 32, 13])
        while True:
            num = rng.choice([2, 3, 4, 5, 23, 24, 255, 256, 65536, 2 ** 63]) if rng.random() < 0.7 else rand_uint(rng)
            if num not in used and num != 0:
                break
        used.add(num)
        bflags = rng.choice([0, 1, 2, 4, 0x10, 0x17, 0x01 | 0x04, 0x80, 0x100])
        blocks.append(dict(type=btype, num=num, flags=bflags, crc_type=rng.choice([0, 1, 2]),
                           data=typed_block_data(rng, btype, hard=hard_eids), crc=None))
    plen = payload_len if payload_len is not None else rng.choice([0, 1, 2, 23, 24, 100, 255, 256, 1000, 65535, 65536])
    pdata = bytes((i * 31 + 7) & 0xFF for i in range(plen))
    admin = None
    if allow_admin and rng.random() < 0.5:
        pri['flags'] |= bpv7.FLAG_ADMIN
        admin = rand_status_report(rng, hard_eids)
        pdata = bpv7.encode_status_report(**admin)
    blocks.append(dict(type=1, num=1, flags=rng.choice([0, 0, 1, 4]), crc_type=rng.choice([0, 1, 2]), data=pdata, crc=None))
    bundle = dict(primary=pri, blocks=blocks)
    if admin is not None:
        bundle['admin'] = admin
    return bundle


def rand_status_report(rng, hard=False):
    status = []
    with_time = rng.random() < 0.5
    for _ in range(4):
        flag = rng.random() < 0.5
        status.append((flag, rand_uint(rng) if (flag and with_time) else None))
    frag = rng.random() < 0.3
    return dict(status=status, reason=rng.choice([0, 1, 5, 6, 9, 10, 12, 15, 16]), src=rand_eid(rng, hard=hard),
                create_time=rand_uint(rng), seqno=rand_uint(rng),
                frag_offset=rand_uint(rng) if frag else None, payload_len=rand_uint(rng) if frag else None)


# ------------------------------------------------------------------ real objects

def to_real(bundle, typed=False):
    ''' Build the repository's Bundle object from the dict form.
    :param typed: use the typed payload classes for known block types instead of raw data.
    '''
    from bp.encoding import (Bundle, PrimaryBlock, CanonicalBlock, Timestamp, PreviousNodeBlock, BundleAgeBlock,
                             HopCountBlock, AdminRecord, StatusReport, StatusInfoArray, StatusInfo)
    pri = bundle['primary']
    kwargs = dict(
        bp_version=pri['version'], bundle_flags=pri['flags'], crc_type=pri['crc_type'],
        destination=pri['dest'], source=pri['src'], report_to=pri['report_to'],
        create_ts=Timestamp(dtntime=pri['create_time'], seqno=pri['seqno']),
        lifetime=pri['lifetime'],
    )
    if pri['flags'] & bpv7.FLAG_IS_FRAGMENT:
        kwargs['fragment_offset'] = pri['frag_offset']
        kwargs['total_app_data_len'] = pri['total_adu_len']
    if pri.get('crc') is not None:
        kwargs['crc_value'] = pri['crc']
    real = Bundle()
    real.primary = PrimaryBlock(**kwargs)
    blocks = []
    for blk in bundle['blocks']:
        bkw = dict(type_code=blk['type'], block_num=blk['num'], block_flags=blk['flags'], crc_type=blk['crc_type'])
        if blk.get('crc') is not None:
            bkw['crc_value'] = blk['crc']
        obj = None
        if typed:
            val = cw.parse_all(blk['data']).to_python() if blk['type'] in (6, 7, 10) else None
            if blk['type'] == 6:
                obj = CanonicalBlock(**bkw) / PreviousNodeBlock(node=bpv7.eid_from_item(val))
            elif blk['type'] == 7:
                obj = CanonicalBlock(**bkw) / BundleAgeBlock(age=val)
            elif blk['type'] == 10:
                obj = CanonicalBlock(**bkw) / HopCountBlock(limit=val[0], count=val[1])
            elif blk['type'] == 1 and 'admin' in bundle:
                adm = bundle['admin']
                infos = [StatusInfo(status=flag, at=when) for (flag, when) in adm['status']]
                rep_kw = dict(
                    status=StatusInfoArray(received=infos[0], forwarded=infos[1], delivered=infos[2], deleted=infos[3]),
                    reason_code=adm['reason'], subj_source=adm['src'],
                    subj_ts=Timestamp(dtntime=adm['create_time'], seqno=adm['seqno']))
                if adm['frag_offset'] is not None:
                    rep_kw['fragment_offset'] = adm['frag_offset']
                    rep_kw['payload_len'] = adm['payload_len']
                obj = CanonicalBlock(**bkw) / AdminRecord() / StatusReport(**rep_kw)
        if obj is None:
            obj = CanonicalBlock(btsd=blk['data'], **bkw)
        blocks.append(obj)
    real.blocks = blocks
    return real


def from_real(real):
    ''' Field values of a (decoded) repository Bundle in the dict form. '''
    pri = real.primary
    flags = int(pri.getfieldval('bundle_flags'))
    out_pri = dict(
        version=int(pri.getfieldval('bp_version')), flags=flags, crc_type=int(pri.getfieldval('crc_type')),
        dest=pri.getfieldval('destination'), src=pri.getfieldval('source'), report_to=pri.getfieldval('report_to'),
        create_time=int(pri.create_ts.getfieldval('dtntime')), seqno=int(pri.create_ts.getfieldval('seqno')),
        lifetime=int(pri.getfieldval('lifetime')),
        frag_offset=None, total_adu_len=None,
        crc=pri.fields.get('crc_value'),
    )
    if flags & bpv7.FLAG_IS_FRAGMENT:
        out_pri['frag_offset'] = int(pri.getfieldval('fragment_offset'))
        out_pri['total_adu_len'] = int(pri.getfieldval('total_app_data_len'))
    blocks = []
    for blk in real.getfieldval('blocks'):
        data = blk.getfieldval('btsd')
        blocks.append(dict(
            type=int(blk.getfieldval('type_code')), num=int(blk.getfieldval('block_num')),
            flags=int(blk.getfieldval('block_flags')), crc_type=int(blk.getfieldval('crc_type')),
            data=bytes(data) if data is not None else None, crc=blk.fields.get('crc_value')))
    return dict(primary=out_pri, blocks=blocks)


def typed_view(real):
    ''' Values the repository's typed payload classes decoded, keyed by block number. '''
    from bp.encoding import PreviousNodeBlock, BundleAgeBlock, HopCountBlock, AdminRecord, StatusReport
    out = {}
    for blk in real.getfieldval('blocks'):
        pay = blk.payload
        num = int(blk.getfieldval('block_num'))
        if isinstance(pay, PreviousNodeBlock):
            out[num] = ('prev', pay.getfieldval('node'))
        elif isinstance(pay, BundleAgeBlock):
            out[num] = ('age', pay.getfieldval('age'))
        elif isinstance(pay, HopCountBlock):
            out[num] = ('hop', pay.getfieldval('limit'), pay.getfieldval('count'))
        elif isinstance(pay, AdminRecord):
            rep = pay.payload
            if isinstance(rep, StatusReport):
                infos = []
                for name in ('received', 'forwarded', 'delivered', 'deleted'):
                    info = rep.status.getfieldval(name)
                    infos.append((bool(info.getfieldval('status')), info.getfieldval('at')))
                out[num] = ('status', infos, int(rep.getfieldval('reason_code')), rep.getfieldval('subj_source'),
                            int(rep.subj_ts.getfieldval('dtntime')), int(rep.subj_ts.getfieldval('seqno')),
                            rep.getfieldval('fragment_offset'), rep.getfieldval('payload_len'))
            else:
                out[num] = ('admin', int(pay.getfieldval('type_code')))
    return out


def strip_crc(bundle):
    ''' Copy with CRC values removed (for comparing values only). '''
    out = dict(primary=dict(bundle['primary'], crc=None), blocks=[dict(blk, crc=None) for blk in bundle['blocks']])
    return out
