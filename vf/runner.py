''' Runner: shards cases over worker subprocesses, aggregates three-valued
verdicts, matches known findings, writes evidence and replay files.

Property module interface (vf/props/cNN.py):

  PROPERTY_ID    'C01'
  RULE           text: how cases are generated and what makes one non-trivial
  ASSUMPTIONS    list of strings (shims, oracles trusted)
  DECIDING       list of 'module:qualname' functions of the repository that must
                 have been entered by the run (else the run is inconclusive)
  REQUIRED_OBS   list of counter names that must be > 0 over the whole run
  cases(tier, seed) -> list of JSON-able case dicts, each with a unique 'id'
  run_case(case) -> dict(
        verdict='held'|'violated'|'inconclusive',
        nontrivial=bool, cls=str (case class; distinct classes are counted),
        obs={counter: int}, violations=[dict(key=..., what=..., detail=...)],
        sample=optional JSON-able description of what was executed,
        inconclusive_reason=optional str)
'''
import hashlib
import importlib
import json
import os
import subprocess
import sys
import time

VERIF_DIR = os.path.dirname(os.path.dirname(os.path.abspath(__file__)))
WORK_DIR = os.path.join(VERIF_DIR, '.work')
PYTHON = '/venv/bin/python'


def load_prop(prop_id):
    return importlib.import_module('vf.props.' + prop_id.lower())


def load_known():
    path = os.path.join(VERIF_DIR, 'known_findings.json')
    with open(path, 'r') as infile:
        data = json.load(infile)
    return data.get('findings', [])


def nworkers():
    try:
        count = len(os.sched_getaffinity(0))
    except AttributeError:
        count = os.cpu_count() or 1
    env = os.environ.get('VERIF_WORKERS')
    if env:
        count = int(env)
    return max(1, min(16, count))


def _json_default(obj):
    if isinstance(obj, (bytes, bytearray)):
        return 'h:' + bytes(obj).hex()
    if isinstance(obj, (set, frozenset)):
        return sorted(obj, key=repr)
    return repr(obj)


def dump_json(obj, path):
    tmp = path + '.tmp%d' % os.getpid()
    with open(tmp, 'w') as outfile:
        json.dump(obj, outfile, indent=1, default=_json_default, sort_keys=False)
    os.replace(tmp, path)


# ------------------------------------------------------------------ worker side

class Probe(object):
    ''' Function-entry probe over the repository using sys.monitoring. '''

    def __init__(self, targets):
        self.targets = set(targets)
        self.hit = set()
        self._tool = None

    def start(self):
        mon = getattr(sys, 'monitoring', None)
        if mon is None or not self.targets:
            return
        tool = mon.COVERAGE_ID
        try:
            mon.use_tool_id(tool, 'vf-probe')
        except ValueError:
            return
        self._tool = tool
        wanted = {}
        for target in self.targets:
            mod, _, qual = target.partition(':')
            wanted.setdefault(qual, set()).add(mod)
        repo_src = os.path.join(os.environ.get('VERIF_REPO', '/repo'), 'src') + os.sep

        def on_start(code, _offset):
            fname = code.co_filename
            if fname.startswith(repo_src):
                mods = wanted.get(code.co_qualname)
                if mods:
                    modname = fname[len(repo_src):-3].replace(os.sep, '.')
                    if modname in mods:
                        self.hit.add('%s:%s' % (modname, code.co_qualname))
            return mon.DISABLE

        mon.register_callback(tool, mon.events.PY_START, on_start)
        mon.set_events(tool, mon.events.PY_START)

    def stop(self):
        mon = getattr(sys, 'monitoring', None)
        if mon is None or self._tool is None:
            return
        mon.set_events(self._tool, 0)
        mon.register_callback(self._tool, mon.events.PY_START, None)
        mon.free_tool_id(self._tool)
        self._tool = None


def worker_main(prop_id, tier, seed, shard, nshards, out_path, only_case=None, verbose=False):
    import faulthandler
    faulthandler.enable()
    from vf import env
    env.bootstrap(quiet=not verbose)
    if verbose:
        env.enable_logging()
    prop = load_prop(prop_id)
    probe = Probe(getattr(prop, 'DECIDING', []))
    probe.start()
    start = time.time()
    if only_case is not None:
        cases = [only_case]
    else:
        cases = prop.cases(tier, seed)
        cases = cases[shard::nshards]
    budget_s = float(os.environ.get('VERIF_WORKER_BUDGET_S', '0') or 0)
    out = dict(results=[], n_cases=len(cases), skipped_for_time=0)
    obs_total = {}
    classes = set()
    samples = []
    n_eval = 0
    for case in cases:
        if budget_s and time.time() - start > budget_s:
            out['skipped_for_time'] += 1
            continue
        try:
            res = prop.run_case(case)
        except Exception as err:  # pylint: disable=broad-except
            import traceback
            res = dict(verdict='inconclusive', nontrivial=False, cls='harness-error', obs={},
                       violations=[], inconclusive_reason='harness exception %s: %s\n%s' % (
                           type(err).__name__, err, traceback.format_exc()[-2000:]))
        n_eval += int(res.get('evaluations', 1))
        for key, val in res.get('obs', {}).items():
            obs_total[key] = obs_total.get(key, 0) + val
        if res.get('nontrivial'):
            cls = res.get('cls')
            if isinstance(cls, (list, tuple, set)):
                classes.update(str(item) for item in cls)
            else:
                classes.add(str(cls))
        if res.get('sample') is not None and len(samples) < 3:
            samples.append(res['sample'])
        if res['verdict'] != 'held' or verbose:
            slim = dict(case=case, verdict=res['verdict'], violations=res.get('violations', []),
                        inconclusive_reason=res.get('inconclusive_reason'))
            if verbose:
                slim['obs'] = res.get('obs')
                slim['sample'] = res.get('sample')
            out['results'].append(slim)
    probe.stop()
    out.update(evaluations=n_eval, obs=obs_total, classes=sorted(classes), samples=samples,
               probe_hit=sorted(probe.hit), wall_s=time.time() - start)
    dump_json(out, out_path)
    return out


# ------------------------------------------------------------------ parent side

def _viol_hash(prop_id, case, viol):
    text = json.dumps([prop_id, case.get('id'), viol.get('key'), viol.get('what')], default=_json_default, sort_keys=True)
    return hashlib.sha1(text.encode('utf8')).hexdigest()[:12]


def run_check(prop_id, tier='quick', seed=0, verbose=False):
    start = time.time()
    os.makedirs(WORK_DIR, exist_ok=True)
    out_dir = os.environ.get('VERIF_OUT', VERIF_DIR)  # scratch output directory when trying seeded changes
    os.makedirs(os.path.join(out_dir, 'evidence'), exist_ok=True)
    os.makedirs(os.path.join(out_dir, 'replays'), exist_ok=True)
    from vf import env
    env.bootstrap()
    prop = load_prop(prop_id)
    import glob
    for stale in glob.glob(os.path.join(out_dir, 'replays', '%s-*.json' % prop_id)):
        try:
            os.remove(stale)
        except OSError:
            pass
    nshards = nworkers()
    timeout_s = float(os.environ.get('VERIF_TIMEOUT_S', getattr(prop, 'TIMEOUT_S', {}).get(tier, 1800 if tier == 'quick' else 14400)))
    procs = []
    run_tag = '%s-%s-%d-%d' % (prop_id, tier, seed, os.getpid())
    env_vars = dict(os.environ)
    env_vars.setdefault('PYTHONHASHSEED', '0')
    env_vars['PYTHONDONTWRITEBYTECODE'] = '1'
    for shard in range(nshards):
        out_path = os.path.join(WORK_DIR, '%s-%d.json' % (run_tag, shard))
        cmd = [PYTHON, '-m', 'vf.cli', '--worker', prop_id, '--tier', tier, '--seed', str(seed),
               '--shard', '%d/%d' % (shard, nshards), '--out', out_path]
        log_path = out_path + '.log'
        logf = open(log_path, 'w')
        procs.append((shard, out_path, log_path, logf,
                      subprocess.Popen(cmd, cwd=VERIF_DIR, env=env_vars, stdout=logf, stderr=subprocess.STDOUT)))

    inconclusive = []
    merged = dict(evaluations=0, obs={}, classes=set(), samples=[], probe_hit=set(), results=[], skipped=0)
    deadline = start + timeout_s
    for (shard, out_path, log_path, logf, proc) in procs:
        try:
            proc.wait(timeout=max(1.0, deadline - time.time()))
        except subprocess.TimeoutExpired:
            proc.kill()
            proc.wait()
            inconclusive.append('worker %d exceeded the wall-clock watchdog (%.0fs)' % (shard, timeout_s))
        logf.close()
        data = None
        if os.path.exists(out_path):
            try:
                with open(out_path, 'r') as infile:
                    data = json.load(infile)
            except ValueError:
                data = None
        if data is None:
            tail = ''
            try:
                with open(log_path, 'r') as infile:
                    tail = infile.read()[-1500:]
            except OSError:
                pass
            inconclusive.append('worker %d produced no result (exit %s): %s' % (shard, proc.returncode, tail))
        else:
            merged['evaluations'] += data['evaluations']
            merged['skipped'] += data.get('skipped_for_time', 0)
            for key, val in data['obs'].items():
                merged['obs'][key] = merged['obs'].get(key, 0) + val
            merged['classes'].update(data['classes'])
            merged['probe_hit'].update(data['probe_hit'])
            if len(merged['samples']) < 4:
                merged['samples'] += data['samples'][:2]
            merged['results'] += data['results']
        for path in (out_path, log_path):
            try:
                os.remove(path)
            except OSError:
                pass

    known = [item for item in load_known() if item.get('property') == prop_id]
    known_open = {item['key']: item for item in known if item.get('status') == 'known'}
    known_hits = {}
    violations = []
    for res in merged['results']:
        if res['verdict'] == 'inconclusive':
            inconclusive.append('case %s: %s' % (res['case'].get('id'), (res.get('inconclusive_reason') or '')[:400]))
            continue
        for viol in res.get('violations', []):
            key = viol.get('key')
            if key is not None and key in known_open:
                hit = known_hits.setdefault(key, dict(count=0, example=res['case'].get('id')))
                hit['count'] += 1
            else:
                violations.append((res['case'], viol))

    missing_fn = sorted(set(getattr(prop, 'DECIDING', [])) - merged['probe_hit'])
    if getattr(prop, 'DECIDING', []) and getattr(sys, 'monitoring', None) is None:
        missing_fn = []
    for name in missing_fn:
        inconclusive.append('deciding mechanism never entered: %s' % name)
    for name in getattr(prop, 'REQUIRED_OBS', []):
        if merged['obs'].get(name, 0) <= 0:
            inconclusive.append('deciding monitor observed nothing: counter %s = 0' % name)
    if merged['skipped']:
        inconclusive.append('%d cases skipped by the worker time budget' % merged['skipped'])

    # output
    lines = []
    for key, hit in sorted(known_hits.items()):
        lines.append('KNOWN-FINDING: property=%s %s [%s] (%d occurrences, e.g. case %s)' % (
            prop_id, known_open[key]['what'], key, hit['count'], hit['example']))
    replay_paths = []
    seen_hashes = set()
    for (case, viol) in violations:
        vhash = _viol_hash(prop_id, case, viol)
        if vhash in seen_hashes:
            continue
        seen_hashes.add(vhash)
        path = os.path.join(out_dir, 'replays', '%s-%s.json' % (prop_id, vhash))
        if len(replay_paths) < 40:
            dump_json(dict(property=prop_id, tier=tier, seed=seed, case=case, violation=viol), path)
            replay_paths.append(path)
            lines.append('VIOLATION property=%s replay=%s' % (prop_id, path))
            lines.append('  what: %s [%s]' % (viol.get('what'), viol.get('key')))
    if len(seen_hashes) > len(replay_paths):
        lines.append('  (+%d further distinct violations not written)' % (len(seen_hashes) - len(replay_paths)))

    wall = time.time() - start
    coverage = dict(
        evaluations=int(merged['evaluations']),
        distinct_nontrivial=len(merged['classes']),
        rule=prop.RULE,
        samples=merged['samples'][:4],
        observed=merged['obs'],
        deciding_functions_entered=sorted(merged['probe_hit']),
        deciding_functions_missing=missing_fn,
        known_finding_hits={key: hit['count'] for key, hit in known_hits.items()},
        inconclusive=inconclusive[:20],
        workers=nshards,
    )
    extra = getattr(prop, 'EXHAUSTIVE_SUBSPACES', None)
    if extra:
        coverage['exhaustive_subspaces'] = extra.get(tier, extra) if isinstance(extra, dict) else extra
    evidence = dict(
        property_id=prop_id,
        tier=tier,
        seed=int(seed),
        level='exploration',
        coverage=coverage,
        assumptions=list(getattr(prop, 'ASSUMPTIONS', [])),
        wall_s=round(wall, 2),
        violations=len(seen_hashes),
    )
    dump_json(evidence, os.path.join(out_dir, 'evidence', '%s.json' % prop_id))

    for line in lines:
        print(line)
    print('%s tier=%s seed=%d: %d executions, %d distinct non-trivial classes, %d violations, %d known-finding keys hit, %.1fs' % (
        prop_id, tier, seed, merged['evaluations'], len(merged['classes']), len(seen_hashes), len(known_hits), wall))
    if verbose:
        print(json.dumps(merged['obs'], indent=1, sort_keys=True))
    if violations:
        return 1
    if inconclusive:
        for item in inconclusive[:10]:
            print('INCONCLUSIVE property=%s %s' % (prop_id, item))
        return 2
    return 0


def run_replay(prop_id, path):
    from vf import env
    env.bootstrap(quiet=False)
    with open(path, 'r') as infile:
        data = json.load(infile)
    prop = load_prop(prop_id)
    res = prop.run_case(data['case'])
    print(json.dumps(dict(case=data['case'], verdict=res['verdict'], violations=res.get('violations'),
                          obs=res.get('obs'), sample=res.get('sample'),
                          inconclusive_reason=res.get('inconclusive_reason')),
                     indent=1, default=_json_default))
    known_open = {item['key'] for item in load_known() if item.get('property') == prop_id and item.get('status') == 'known'}
    fresh = [viol for viol in res.get('violations', []) if viol.get('key') not in known_open]
    if fresh:
        print('VIOLATION property=%s replay=%s' % (prop_id, path))
        return 1
    return 0 if res['verdict'] != 'inconclusive' else 2
