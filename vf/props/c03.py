''' C03 -- a COSE integrity block verifies iff nothing it covers was altered.

Monitor: wire bytes of a bundle after a real source agent's transmit chain
applied a BIB; at a second, separately constructed real receiver agent: the
return value of the COSE context's verify_bib (recorded by a wrapper) and
whether the application observer is reached.

Oracle: vf/oracles/cose_bpsec.py parses the *wire bytes*, rebuilds the
external AAD and the MAC / signature structure itself and (i) confirms the
produced tag / signature, (ii) for every mutant decides the expected verdict by
verifying the mutant itself with the right key: expected accept <=> the
independent verifier accepts.
'''
import random

from vf.oracles import bpv7
from vf.oracles import cbor_walk as cw
from vf.oracles import cose_bpsec as cb

PROPERTY_ID = 'C03'
RULE = ('bundles (0-2 extension blocks, payload 0..300 octets; one or two targets per integrity block, the payload first or last) x kinds COSE_Mac0 HMAC-256/384/512 and COSE_Sign1 ES256 (x5chain, or '
        'x5t with a stored chain) produced by the real source agent with its default AAD scope, and BIBs built by the oracle with '
        'scopes that add other blocks\' metadata / data, the security block itself and additional protected parameters; '
        'mutations: EVERY single-bit flip of the encoding for MAC bundles <= 256 octets (sampled for larger / signed ones) and '
        'field-level edits (primary fields, target flags, security source, scope map, protected header, tag, in-scope and '
        'out-of-scope block data) with CRCs recomputed, plus wrong and missing keys. Non-trivial = a mutant for which both the '
        'oracle and the real receiver produced a verdict; distinct = distinct mutant byte string.')
ASSUMPTIONS = [
    'COSE_Mac with a wrapped key is not exercised: upstream pycose 1.1.0 in this sandbox can neither create nor verify it (DESIGN.md section 5)',
    'vf/oracles/cose_bpsec.py is an independent implementation of the AAD and COSE structures (hmac/hashlib, cryptography)',
    'certificate path validation in the oracle = issued by the test CA and naming the security source',
    'a mutant whose security block is no longer recognisable as one (type code changed) carries no obligation and is counted only',
]
DECIDING = ['bp.app.bpsec:CoseContext.apply_bib', 'bp.app.bpsec:CoseContext.verify_bib', 'bp.app.bpsec:CoseContext.verify_bib_target',
            'bp.app.bpsec:CoseSecOpCtx.get_external_aad', 'bp.app.bpsec:CoseSecOpCtx.decode_msg', 'bp.app.bpsec:CoseContext._get_cose_key']
REQUIRED_OBS = ['agent_bibs_confirmed', 'mutants_expect_reject', 'mutants_expect_accept', 'verify_fail_seen', 'verify_ok_seen',
                'sign1_bundles', 'oracle_scope_bibs', 'wrong_key_runs', 'multi_target_bibs', 'certificate_variant_runs', 'accepting_receiver_runs']

KINDS = ['mac0-256', 'mac0-384', 'mac0-512', 'sign1']  # 'sign1-x5t': upstream pycose 1.1.0 X5T.encode() is not CBOR-encodable, the source raises


def base_bundle(rng, plen, next_=0, crc=0, seq=1, force_types=()):
    blocks = []
    for idx in range(next_):
        btype = force_types[idx] if idx < len(force_types) else rng.choice([10, 7, 192])
        data = cw.enc([30, 2]) if btype == 10 else (cw.enc(77) if btype == 7 else bytes(rng.getrandbits(8) for _ in range(rng.choice([0, 4, 20]))))
        blocks.append(dict(type=btype, num=5 + idx * 2, flags=rng.choice([0, 1]), crc_type=crc, data=data, crc=None))
    blocks.append(dict(type=1, num=1, flags=0, crc_type=crc, data=bytes(((pos * 29) ^ seq ^ 0x17) & 0xFF for pos in range(plen)), crc=None))
    pri = dict(version=7, flags=rng.choice([0, bpv7.FLAG_NO_FRAGMENT, bpv7.FLAG_REQ_DELETION]), crc_type=crc, dest='dtn://dst-node/app', src='dtn://src-node/app',
               report_to='dtn:none', create_time=820540000000 + seq, seqno=seq, lifetime=3600000, frag_offset=None, total_adu_len=None, crc=None)
    return dict(primary=pri, blocks=blocks)


def produce(kind, bundle, target_types=(1,)):
    ''' Let a real source agent protect the bundle.  :return: encoded bytes or None '''
    from vf.world.sim import Sim
    from vf import sec_harness as sh
    from vf.gen import bundles as gen
    from bp.util import BundleContainer
    sim = Sim(0, 'eager')
    src = sh.source_node(sim, 'sign1' if kind.startswith('sign1') else kind, include_chain=(kind != 'sign1-x5t'), target_types=target_types)
    src.send(BundleContainer(gen.to_real(bundle)))
    sim.settle(5000)
    outs = src.cl.datas()
    return outs[0] if len(outs) == 1 else None


def receive(data, kind, keys='all', accept=False):
    ''' Push bytes into a fresh real receiver.  :return: (delivered payload or None, verify log, exception) '''
    from vf.world.sim import Sim
    from vf import sec_harness as sh
    sim = Sim(0, 'eager')
    dst = sh.receiver_node(sim, keys, accept=accept)
    ctx = dst.bpsec_ctx()
    if keys == 'all':
        alg = {'mac0-384': 'HMAC384', 'mac0-512': 'HMAC512'}.get(kind, 'HMAC256')
        ctx.sym_key_store[b'mk'] = sh.sym_key(b'mk', sh.MAC_KEY, alg, 'mac')
        if kind == 'sign1-x5t':
            ctx.cert_store.add_untrusted_cert(sh.pki()['ee_der'])
    log = sh.watch_verify(dst)
    err = dst.recv(data)
    sim.settle(5000)
    delivered = dst.delivered()
    record = dst.observed[0] if dst.observed else None
    return (delivered[0]['payload'] if delivered else None), log, err, sim.world.callback_errors


CRYPTO_FAILS = ('MAC tag mismatch', 'signature mismatch', 'no key for kid', 'certificate is not issued', 'certificate does not name',
                'AES-GCM authentication failed', 'AES key unwrap failed', 'x5chain certificate does not parse', 'signature check failed',
                'certificate is not valid', 'no certificate for the thumbprint')


def covered_spans(data, sec_type=11):
    ''' Octet spans of the original encoding that the (first) integrity block covers, from the independent parser:
    primary block, target type/number/flags and data, security source, scope / additional-protected parameters,
    protected header and tag of each result (plus the security block's own type/number/flags when -2 is in scope).
    :return: (list of (lo, hi, name), list of spans of blocks that are entirely outside: other extension blocks)
    '''
    outer = cw.parse_all(data)
    kids = outer.children
    covered = []
    outside = []
    bib = next((kid for kid in kids[1:] if kid.children[0].value == sec_type), None)
    if bib is None:
        return covered, outside
    bdata = bib.children[4]
    base = bdata.start + bdata.head_len
    raw = bytes(data[base:bdata.end])
    items = []
    pos = 0
    while pos < len(raw):
        item, pos = cw.parse(raw, pos)
        items.append(item)
    targets = items[0].to_python()
    scope = {0: 1, -1: 1, -2: 1}
    params = items[4] if items[2].value & 1 else None
    if params is not None:
        for par in params.children:
            pid = par.children[0].value
            val = par.children[1]
            if pid == 5:
                scope = val.to_python()
                covered.append((base + val.start, base + val.end, 'AAD scope parameter'))
            elif pid == 3:
                covered.append((base + val.start, base + val.end, 'additional protected parameter'))
    covered.append((base + items[3].start, base + items[3].end, 'security source'))
    results = items[-1]
    for tres in results.children:
        for res in tres.children:
            val = res.children[1]
            inner_base = base + val.start + val.head_len
            msg = cw.parse_all(bytes(raw[val.start + val.head_len:val.end]))
            covered.append((inner_base + msg.children[0].start, inner_base + msg.children[0].end, 'protected header'))
            if sec_type == 11:
                covered.append((inner_base + msg.children[-1].start, inner_base + msg.children[-1].end, 'tag / signature'))
    if scope.get(0, 0) & 1:
        covered.append((kids[0].start, kids[0].end, 'primary block'))
    for kid in kids[1:]:
        num = kid.children[1].value
        is_target = num in targets
        flags = scope.get(-1, 0) if is_target else (scope.get(-2, 0) if kid is bib else scope.get(num, 0))
        if is_target:
            flags |= 2  # the target data is the MAC payload
        if flags & 1:
            covered.append((kid.children[0].start, kid.children[2].end, 'type/number/flags of block %d' % num))
        if flags & 2:
            covered.append((kid.children[4].start, kid.children[4].end, 'data of block %d' % num))
        if not is_target and kid is not bib and not flags:
            outside.append((kid.start + 1, kid.end, 'block %d outside the scope' % num))
    return covered, outside


def judge(mutant, kind, obs, label, keys='all', location=None, accept=False):
    ''' Compare the independent verdict with the real receiver's. '''
    from vf import sec_harness as sh
    verdict, why = cb.verify_bundle(mutant, sh.oracle_keys(keys))
    if verdict == 'none':
        # the alteration re-typed the security block itself: a well-formed bundle without any security block is left, and no
        # integrity mechanism can notice its own removal (ASSUMPTIONS)
        obs['mutants_no_security_block'] += 1
        return []
    crypto_fail = verdict == 'fail' and any(why.startswith(text) for text in CRYPTO_FAILS)
    payload, log, err, loop_errs = receive(mutant, kind, keys, accept)
    fails = [item for item in log if item[2] != 'ok']
    oks = [item for item in log if item[2] == 'ok']
    problems = []
    if location is not None and location[0] == 'covered':
        # content bound into the integrity check was altered: the bundle must not be delivered
        obs['mutants_expect_reject'] += 1
        if fails:
            obs['verify_fail_seen'] += 1
        if payload is not None:
            problems.append(('accepted-altered', '%s (in %s): delivered although covered content was altered; independent verdict %s %s; '
                             'receiver verify log %s' % (label, location[1], verdict, why[:50], log[:2])))
        return problems
    if verdict == 'ok':
        obs['mutants_expect_accept'] += 1
        if fails:
            problems.append(('false-reject', '%s: the independent verifier accepts but verification failed at the receiver: %s' % (label, fails[:1])))
        elif oks:
            obs['verify_ok_seen'] += 1
            if payload is None:
                obs['accepted_but_not_delivered'] += 1
    elif crypto_fail:
        obs['mutants_expect_reject'] += 1
        if fails:
            obs['verify_fail_seen'] += 1
        if payload is not None:
            problems.append(('accepted-altered', '%s: delivered although the independent verifier rejects it (%s); receiver verify log %s' % (
                label, why[:60], log[:2])))
    else:
        # malformed for the independent decoder without touching covered content: structural handling is C12's subject
        obs['mutants_structural_no_obligation'] += 1
        if location is not None and location[0] == 'outside' and fails:
            problems.append(('false-reject', '%s (in %s): verification failed although only content outside the scope was altered: %s' % (
                label, location[1], fails[:1])))
    return problems


def _locate(pos, covered, outside):
    for (lo, hi, name) in covered:
        if lo <= pos < hi:
            return ('covered', name)
    for (lo, hi, name) in outside:
        if lo <= pos < hi:
            return ('outside', name)
    return ('structural', 'security block structure')


def bit_flips(data, rng, limit=None):
    positions = [(pos, bit) for pos in range(len(data)) for bit in range(8)]
    if limit is not None and len(positions) > limit:
        positions = rng.sample(positions, limit)
    for (pos, bit) in positions:
        mut = bytearray(data)
        mut[pos] ^= (1 << bit)
        yield bytes(mut), 'flip octet %d bit %d' % (pos, bit), pos


def field_mutants(data, rng, sec_type=11):
    ''' Field-level edits on the decoded bundle, re-encoded with correct CRCs. '''
    dec, _ = bpv7.decode(data)
    out = []

    def emit(label, edit):
        work = dict(primary=dict(dec['primary']), blocks=[dict(blk) for blk in dec['blocks']])
        try:
            edit(work)
            out.append((bpv7.encode(work), label))
        except Exception:  # pylint: disable=broad-except
            pass

    emit('destination demux', lambda w: w['primary'].update(dest='dtn://dst-node/app2'))
    emit('source', lambda w: w['primary'].update(src='dtn://src-node/other'))
    emit('report-to', lambda w: w['primary'].update(report_to='dtn://dst-node/rep'))
    emit('creation time', lambda w: w['primary'].update(create_time=w['primary']['create_time'] + 1))
    emit('sequence number', lambda w: w['primary'].update(seqno=w['primary']['seqno'] + 1))
    emit('lifetime', lambda w: w['primary'].update(lifetime=w['primary']['lifetime'] + 1))
    emit('bundle flags', lambda w: w['primary'].update(flags=w['primary']['flags'] ^ bpv7.FLAG_USER_APP_ACK))
    emit('primary CRC type (covered: the primary block is re-encoded)', lambda w: w['primary'].update(crc_type=(w['primary']['crc_type'] + 1) % 3))

    def target(w):
        return next(blk for blk in w['blocks'] if blk['type'] == 1)

    def bib(w):
        return next(blk for blk in w['blocks'] if blk['type'] == sec_type)

    emit('target data first octet', lambda w: target(w).update(data=bytes([target(w)['data'][0] ^ 1]) + target(w)['data'][1:]) if target(w)['data'] else target(w).update(data=b'\x00'))
    emit('target data appended octet', lambda w: target(w).update(data=target(w)['data'] + b'\x00'))
    emit('target block flags', lambda w: target(w).update(flags=target(w)['flags'] ^ 1))
    try:
        tnums = cb.parse_asb(bib(dec)['data'])['targets']
    except Exception:  # pylint: disable=broad-except
        tnums = []
    for tnum in tnums:
        if tnum != 1:
            emit('data of target block %d (one of %d targets)' % (tnum, len(tnums)),
                 lambda w, tnum=tnum: [b.update(data=b['data'] + b'\x01') for b in w['blocks'] if b['num'] == tnum])
            emit('flags of target block %d (one of %d targets)' % (tnum, len(tnums)),
                 lambda w, tnum=tnum: [b.update(flags=b['flags'] ^ 2) for b in w['blocks'] if b['num'] == tnum])
    emit('target CRC type (not covered)', lambda w: target(w).update(crc_type=(target(w)['crc_type'] + 1) % 3))

    def edit_asb(w, func):
        blk = bib(w)
        asb = cb.parse_asb(blk['data'])
        func(asb)
        blk['data'] = cb.encode_asb(asb)

    emit('security source', lambda w: edit_asb(w, lambda a: a.update(source='dtn://src-node/x')))
    emit('scope map flags', lambda w: edit_asb(w, lambda a: a.update(params=[(pid, ({0: 1, -1: 3} if pid == 5 else val)) for (pid, val) in a['params']])))
    emit('scope map extra key', lambda w: edit_asb(w, lambda a: a.update(params=[(pid, (dict(val, **{-2: 1}) if pid == 5 else val)) for (pid, val) in a['params']])))

    def flip_in_result(asb, index, label_unused=None):
        (rid, rval) = asb['results'][0][0]
        msg = cw.parse_all(rval).to_python()
        if index == 0:
            # protected header: add a parameter
            phdr = cw.parse_all(msg[0]).to_python() if msg[0] else {}
            phdr[99] = 1
            msg[0] = cw.enc(phdr)
        else:
            item = bytearray(msg[index])
            item[len(item) // 2] ^= 0x04
            msg[index] = bytes(item)
        asb['results'][0][0] = (rid, cw.enc(msg))

    if len(tnums) >= 2:
        # the result of one target is taken away and that target altered: the block no longer vouches for it
        def drop_and_alter(w, which):
            edit_asb(w, lambda a: a.update(results=(a['results'][:-1] if which == 'last' else [])))
            victim = tnums[-1] if which == 'last' else tnums[0]
            for blk in w['blocks']:
                if blk['num'] == victim:
                    blk['data'] = blk['data'] + b'\x07'
        emit('covered: result of the last target removed and that target altered', lambda w: drop_and_alter(w, 'last'))
        emit('covered: every result removed and the first target altered', lambda w: drop_and_alter(w, 'all'))
    emit('protected header', lambda w: edit_asb(w, lambda a: flip_in_result(a, 0)))
    emit('tag / signature', lambda w: edit_asb(w, lambda a: flip_in_result(a, 3)))

    def attach_attack(w):
        # no key needed: the target's data is replaced and the original octets are put into the (detached, nil) payload slot of the
        # COSE message, which no AAD covers; a verifier that trusts an attached payload still finds the tag right
        orig = target(w)['data']

        def move(asb):
            (rid, rval) = asb['results'][0][0]
            msg = cw.parse_all(rval).to_python()
            if msg[2] is not None:
                raise ValueError('payload already attached')
            msg[2] = orig
            asb['results'][0][0] = (rid, cw.enc(msg))
        edit_asb(w, move)
        target(w).update(data=(bytes([orig[0] ^ 1]) + orig[1:]) if orig else b'\x00')
    if tnums and tnums[0] == 1:
        emit('covered: target data altered and the original data moved into the payload slot of the COSE message', attach_attack)

    def add_empty_map_param(asb):
        if any(pid == 3 for (pid, _val) in asb['params']):
            raise ValueError('already has additional protected parameters')
        asb['params'] = list(asb['params']) + [(3, b'\xa0')]
    # (an added zero-length string would leave the AAD as it was; the encoded empty map h'a0' is another AAD)
    emit('covered: additional protected parameter added in transit (the encoded empty map)', lambda w: edit_asb(w, add_empty_map_param))
    emit('security block flags (not in default scope)', lambda w: bib(w).update(flags=bib(w)['flags'] ^ 1))
    for blk in dec['blocks']:
        if blk['type'] not in (1, sec_type) and blk['num'] not in tnums:
            num = blk['num']
            emit('out-of-scope block %d data' % num, lambda w, num=num: [b.update(data=b['data'] + b'\x01') for b in w['blocks'] if b['num'] == num])
            emit('out-of-scope block %d flags' % num, lambda w, num=num: [b.update(flags=b['flags'] ^ 2) for b in w['blocks'] if b['num'] == num])
    emit('added unknown block', lambda w: w['blocks'].insert(0, dict(type=201, num=77, flags=0, crc_type=0, data=b'new', crc=None)))
    return out


def oracle_bib_bundle(rng, scope, addl_protected=None, crc=0, seq=5, targets='payload'):
    ''' A bundle whose BIB (COSE_Mac0, HMAC-256) is built entirely by the oracle with the given AAD scope.
    targets: 'payload' | 'payload-first' | 'payload-last' (two targets: the payload and the second extension block) '''
    from vf import sec_harness as sh
    bundle = base_bundle(rng, rng.choice([1, 30, 200]), next_=2, crc=crc, seq=seq)
    nums = [blk['num'] for blk in bundle['blocks'] if blk['type'] != 1]
    scope = dict(scope)
    for key in list(scope):
        if key == 'other':
            scope[nums[0]] = scope.pop('other')
    params = [(5, scope)]
    addl = b''
    if addl_protected:
        addl = cw.enc(addl_protected)
        params.append((3, addl))
    sec = dict(type=11, num=3, flags=0, crc_type=crc, data=b'', crc=None)
    bundle['blocks'].insert(0, sec)
    tnums = {'payload': [1], 'payload-first': [1, nums[1]], 'payload-last': [nums[1], 1]}[targets]
    by_num = {blk['num']: blk for blk in bundle['blocks']}
    source_item = bpv7.eid_to_item(sh.SRC_NODE)
    results = []
    for tnum in tnums:
        tgt = by_num[tnum]
        ext_aad = cb.external_aad(bundle, sec, tgt, scope, addl, source_item)
        results.append([cb.make_mac0_result(5, b'mk', sh.MAC_KEY, ext_aad, tgt['data'])])
    sec['data'] = cb.encode_asb(dict(targets=tnums, context_id=3, flags=1, source=sh.SRC_NODE, params=params, results=results))
    return bpv7.encode(bundle), nums


def cases(tier, seed):
    out = []
    thorough = tier == 'thorough'
    idx = 0
    for kind in KINDS:
        reps = (90 if thorough else 2) if kind.startswith('mac0') else (36 if thorough else 1)
        for rep in range(reps):
            out.append(dict(id='flips-%s-%d' % (kind, rep), kind='flips', cose=kind, seed=seed * 101 + idx,
                            limit=None if kind.startswith('mac0') else (1500 if thorough else 260)))
            out.append(dict(id='fields-%s-%d' % (kind, rep), kind='fields', cose=kind, seed=seed * 103 + idx))
            idx += 1
    for kind in ('mac0-256', 'sign1'):
        for rep in range(6 if thorough else 1):
            out.append(dict(id='multi-flips-%s-%d' % (kind, rep), kind='flips', cose=kind, seed=seed * 109 + idx, multi=True,
                            limit=(None if thorough else 2500) if kind.startswith('mac0') else (1500 if thorough else 260)))
            out.append(dict(id='multi-fields-%s-%d' % (kind, rep), kind='fields', cose=kind, seed=seed * 113 + idx, multi=True))
            idx += 1
    scopes = [{0: 1, -1: 1}, {0: 1, -1: 1, -2: 1}, {-1: 1}, {0: 1, -1: 1, 'other': 1}, {0: 1, -1: 1, 'other': 3}, {0: 1, -1: 1, 'other': 2, -2: 1}]
    for sidx, scope in enumerate(scopes):
        for rep in range(4 if thorough else 1):
            out.append(dict(id='scope-%d-%d' % (sidx, rep), kind='scope', scope=[[k, v] for k, v in scope.items()], seed=seed * 107 + sidx * 10 + rep,
                            addl=(rep % 2 == 1), targets='payload'))
        for targets in ('payload-first', 'payload-last'):
            out.append(dict(id='scope-%d-%s' % (sidx, targets), kind='scope', scope=[[k, v] for k, v in scope.items()], seed=seed * 127 + sidx,
                            addl=False, targets=targets))
    out.append(dict(id='keys', kind='keys', seed=seed))
    out.append(dict(id='certs', kind='certs', seed=seed, reps=6 if thorough else 2))
    return out


def run_case(case):
    from vf import sec_harness as sh
    obs = dict(agent_bibs_confirmed=0, mutants_expect_reject=0, mutants_expect_accept=0, verify_fail_seen=0, verify_ok_seen=0,
               sign1_bundles=0, oracle_scope_bibs=0, wrong_key_runs=0, multi_target_bibs=0, certificate_variant_runs=0, accepting_receiver_runs=0, mutants_no_security_block=0, accepted_but_not_delivered=0, mutants_structural_no_obligation=0)
    rng = random.Random(case['seed'])
    violations = []
    classes = set()
    sample = None
    evaluations = 0

    def note(problems, mutant, desc):
        nonlocal sample, evaluations
        evaluations += 1
        classes.add(hash(mutant) & 0xFFFFFFFFFFFF)
        if sample is None:
            sample = dict(case=case['id'], what=desc, bundle=mutant.hex()[:240])
        for (kind, text) in problems:
            violations.append(dict(key=None, what='[%s] %s' % (kind, text), detail=dict(mutant=mutant.hex(), case=desc)))

    try:
        kind = case['kind']
        if kind in ('flips', 'fields'):
            cose = case['cose']
            multi = bool(case.get('multi'))
            bundle = base_bundle(rng, rng.choice([0, 1, 24, 60]) if kind == 'flips' else rng.choice([5, 100, 300]),
                                 next_=rng.choice([1, 2]) if multi else rng.choice([0, 1, 2]), crc=0 if kind == 'flips' else rng.choice([0, 1, 2]),
                                 seq=rng.randrange(1, 1000), force_types=(192,) if multi else ())
            data = produce(cose, bundle, target_types=(1, 192) if multi else (1,))
            if data is None:
                return dict(verdict='inconclusive', nontrivial=False, cls='x', obs=obs, violations=[],
                            inconclusive_reason='source agent produced no single output for %s' % cose)
            if cose.startswith('sign1'):
                obs['sign1_bundles'] += 1
            # (i) the agent's BIB is right by an independent construction, and the unmodified bundle is accepted
            verdict, why = cb.verify_bundle(data, sh.oracle_keys('all'))
            payload, log, err, _loop = receive(data, cose)
            if verdict != 'ok':
                note([('bad-bib', 'the BIB produced by the agent (%s) does not verify independently: %s %s' % (cose, verdict, why))], data, 'produced')
            elif payload != bpv7.payload_of(bundle)['data'] or not [item for item in log if item[2] == 'ok']:
                note([('unmodified-rejected', 'the unmodified %s bundle was not verified and delivered at a receiver with the key: log %s, exception %s' % (
                    cose, log, err))], data, 'unmodified')
            else:
                obs['agent_bibs_confirmed'] += 1
                if multi:
                    dec0, _p = bpv7.decode(data)
                    if len(cb.parse_asb(next(blk for blk in dec0['blocks'] if blk['type'] == 11)['data'])['targets']) >= 2:
                        obs['multi_target_bibs'] += 1
                note([], data, 'unmodified %s' % cose)
                if kind == 'flips':
                    covered, outside = covered_spans(data)
                    for mutant, label, pos in bit_flips(data, rng, case.get('limit')):
                        note(judge(mutant, cose, obs, label, location=_locate(pos, covered, outside)), mutant, label)
                else:
                    for mutant, label in field_mutants(data, rng):
                        note(judge(mutant, cose, obs, label, location=('covered', label[9:]) if label.startswith('covered: ') else None), mutant, label)
                        if multi:
                            # the same at a receiver that accepts (removes) verified targets one by one
                            obs['accepting_receiver_runs'] += 1
                            note(judge(mutant, cose, obs, label + ' [accepting receiver]', accept=True,
                                       location=('covered', label[9:]) if label.startswith('covered: ') else None), mutant + b'A', label)
        elif kind == 'scope':
            scope = {(key if key == 'other' else int(key)): val for key, val in case['scope']}
            addl = {99: 7} if case['addl'] else None
            data, nums = oracle_bib_bundle(rng, scope, addl_protected=None if not addl else {5: b'\x01' * 12}, crc=rng.choice([0, 2]), seq=case['seed'] % 900 + 1,
                                            targets=case.get('targets', 'payload'))
            if case.get('targets', 'payload') != 'payload':
                obs['multi_target_bibs'] += 1
            obs['oracle_scope_bibs'] += 1
            verdict, why = cb.verify_bundle(data, sh.oracle_keys('all'))
            assert verdict == 'ok', (verdict, why)
            payload, log, err, _loop = receive(data, 'mac0-256')
            if payload is None or not [item for item in log if item[2] == 'ok']:
                note([('unmodified-rejected', 'a valid BIB with AAD scope %s built by the independent encoder was not accepted: log %s, exception %s' % (
                    scope, log, err))], data, 'scope %s' % scope)
            else:
                note([], data, 'scope %s' % scope)
                for mutant, label in field_mutants(data, rng):
                    note(judge(mutant, 'mac0-256', obs, label + ' (scope %s)' % scope,
                               location=('covered', label[9:]) if label.startswith('covered: ') else None), mutant, label)
                    if case.get('targets', 'payload') != 'payload':
                        obs['accepting_receiver_runs'] += 1
                        note(judge(mutant, 'mac0-256', obs, label + ' (scope %s) [accepting receiver]' % scope, accept=True,
                                   location=('covered', label[9:]) if label.startswith('covered: ') else None), mutant + b'A', label)
                covered, outside = covered_spans(data)
                for mutant, label, pos in bit_flips(data, rng, 300):
                    note(judge(mutant, 'mac0-256', obs, label + ' (scope %s)' % scope, location=_locate(pos, covered, outside)), mutant, label)
        elif kind == 'certs':
            # COSE_Sign1 integrity blocks built by the oracle and signed under different certificates: only one issued by the trusted
            # CA that names the security source is the right key
            for rep in range(case['reps']):
                for vname in sh.CERT_VARIANTS:
                    data = sh.sign1_variant_bundle(vname, rng, seq=rep * 7 + 1, plen=rng.choice([0, 20, 200]), crc=rng.choice([0, 2]))
                    verdict, why = cb.verify_bundle(data, sh.oracle_keys('all'))
                    assert (verdict == 'ok') == (vname == 'good'), (vname, verdict, why)
                    obs['certificate_variant_runs'] += 1
                    note(judge(data, 'sign1', obs, 'Sign1 BIB under certificate variant "%s"' % vname), data, vname)
            # several signed bundles through one receiver (x5t look-up of remembered chains, validity at each bundle's creation time)
            from vf.props import c12
            obs12 = dict(bundles=0, expect_deliver=0, expect_fail=0)
            for (kind2, text, detail) in c12.x5t_history('all', False, obs12):
                violations.append(dict(key=None, what='[%s] %s' % (kind2, text), detail=detail))
            obs['certificate_variant_runs'] += obs12['bundles']
            # a source with two integrity policies (signature over the payload, MAC over a Bundle Age block), in both orders: the
            # block it produces verifies independently and at a receiver holding the keys
            import re as _re
            from vf.world.sim import Sim
            from vf.gen import bundles as gen
            from bp.util import BundleContainer
            from bp.app import bpsec
            for order in ('sign-first', 'mac-first'):
                sim = Sim(0, 'eager')
                src = sh.source_node(sim, 'sign1', include_chain=True, target_types=(1,))
                ctx = src.bpsec_ctx()
                ctx.sym_key_store[b'mk'] = sh.sym_key(b'mk', sh.MAC_KEY, 'HMAC256', 'mac')
                mac_assoc = bpsec.SecAssociation(src_pat=_re.compile('.*'), dst_pat=_re.compile('.*'), tgt_blk_types=[7],
                                                 templates=[bpsec.SecOperation(sec_type='bib', role='source', priv_key_id=b'mk')])
                if order == 'sign-first':
                    ctx.sec_assoc.append(mac_assoc)
                else:
                    ctx.sec_assoc.insert(0, mac_assoc)
                bundle = base_bundle(rng, 30, next_=1, crc=rng.choice([0, 2]), seq=77, force_types=(7,))
                bundle['primary']['flags'] = 0
                src.send(BundleContainer(gen.to_real(bundle)))
                sim.settle(5000)
                outs = src.cl.datas()
                obs['two_policy_sources'] = obs.get('two_policy_sources', 0) + 1
                label = 'source with two integrity policies (%s)' % order
                if len(outs) != 1:
                    note([('bad-bib', '%s: %d outputs' % (label, len(outs)))], order.encode(), label)
                    continue
                verdict, why = cb.verify_bundle(outs[0], sh.oracle_keys('all'))
                problems = []
                if verdict != 'ok':
                    problems.append(('bad-bib', '%s: the integrity block(s) produced by the agent do not verify independently: %s %s' % (label, verdict, why[:80])))
                else:
                    delivered, log, err, loop_errs = receive(outs[0], 'sign1')
                    if delivered is None or err is not None:
                        problems.append(('rejected-unmodified', '%s: an unmodified bundle was not delivered at a receiver holding the keys (log %s)' % (label, log[:3])))
                note(problems, outs[0], label)
        elif kind == 'keys':
            for cose in ('mac0-256', 'sign1'):
                bundle = base_bundle(rng, 40, next_=1, crc=2, seq=7)
                data = produce(cose, bundle)
                for keys in ('wrong', 'none'):
                    obs['wrong_key_runs'] += 1
                    note(judge(data, cose, obs, 'unmodified %s bundle, receiver key store "%s"' % (cose, keys), keys=keys), data + keys.encode(), keys)
    finally:
        sh.cleanup_pki()
        sh._PKI.clear()
    uniq = {}
    for viol in violations:
        uniq.setdefault(viol['what'][:100], viol)
    violations = list(uniq.values())[:14]
    return dict(verdict='violated' if violations else 'held', nontrivial=bool(classes), cls=classes, obs=obs,
                violations=violations, sample=sample, evaluations=evaluations)
