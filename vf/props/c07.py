''' C07 -- TCPCL message framing is independent of how TCP chunks the stream.

Monitor: a recording wrapper on ``recv_message`` of a real ContactHandler that
is fed a scripted peer's octet stream in chosen cuts logs (feed step, encoded
message); after every feed step ``recv_buffer_used()`` is read.

Oracle: vf/oracles/tcpcl_wire.py parses the whole stream once into messages
M1..Mn with end offsets e1..en.  Under every cut: the handed sequence equals M,
Mi is handed in exactly the feed step whose cumulative length first reaches ei,
and the receive buffer afterwards holds exactly the octets beyond the last
complete message.

Codec half: real encoding -> oracle decoder gives the same fields, and oracle
encoding -> real decoder gives the same fields, for every message type.
'''
import itertools
import random
import struct

from vf.oracles import tcpcl_wire as tw

PROPERTY_ID = 'C07'
RULE = ('framing: (stream, cut set, role) triples -- all 2^(n-1) compositions of short streams (n<=14), all single '
        'cuts and all/ sampled double cuts of streams <=300 octets, boundary-directed and random cuts of long '
        'streams; codec: directed boundary values + seeded random field values for every message type, both '
        'directions. Non-trivial = at least one message boundary or feed step checked; distinct = distinct '
        '(stream id, cut tuple, role) or distinct (message type, field tuple, direction).')
ASSUMPTIONS = [
    'vf/oracles/tcpcl_wire.py is a correct reading of RFC 9174 section 4-6 message layouts (known-answer self-test in ./setup)',
    'feeding recv_raw(chunk) directly is equivalent to the socket pump for framing purposes (the pump only splits at CHUNK_SIZE; loop-driven runs are included as a cross-check)',
    'GLib/dbus shims (see DESIGN.md section 2)',
]
DECIDING = ['tcpcl.session:Messenger.recv_raw', 'tcpcl.session:Messenger.recv_message',
            'tcpcl.formats:verify_sized_item', 'tcpcl.messages:MessageHead.post_dissection']
REQUIRED_OBS = ['feed_steps', 'messages_expected', 'reactions_compared', 'codec_real_to_oracle', 'codec_oracle_to_real']
EXHAUSTIVE_SUBSPACES = {
    'quick': ['all 2^13 compositions of two 14-octet streams (passive role)', 'all single cuts of every stream <= 300 octets'],
    'thorough': ['all 2^13 compositions of four 14-octet streams x both roles', 'all single and double cuts of streams <= 300 octets'],
}


# --------------------------------------------------------------------- streams

def _seg(xid, flags, data, total=None, extra_ext=()):
    msg = dict(type='XFER_SEGMENT', flags=flags, transfer_id=xid, data=data)
    if flags & tw.FLAG_START:
        ext = []
        if total is not None:
            ext.append(tw.transfer_length_ext(total))
        ext += list(extra_ext)
        msg['ext'] = ext
    return msg


def _transfer(xid, pieces, extra_ext=()):
    total = sum(len(piece) for piece in pieces)
    out = []
    for idx, piece in enumerate(pieces):
        flags = 0
        if idx == 0:
            flags |= tw.FLAG_START
        if idx == len(pieces) - 1:
            flags |= tw.FLAG_END
        out.append(_seg(xid, flags, piece, total, extra_ext))
    return out


def _sess_init(**kw):
    msg = dict(type='SESS_INIT', keepalive=0, segment_mru=2 ** 20, transfer_mru=2 ** 30, nodeid=b'dtn://peer/', ext=[])
    msg.update(kw)
    return msg


STREAMS = {}


def _def_stream(name, msgs, queue_bundle=False, cfg=None, dead_tail=None):
    ''' dead_tail: messages that follow an octet which is no message type of this protocol version (0x42).  The length of such a
    message is unknown, so the stream cannot be framed from there on: nothing behind that octet is a message, however the
    octets are cut. '''
    STREAMS[name] = dict(msgs=msgs, queue_bundle=queue_bundle, cfg=cfg or {}, dead_tail=dead_tail)


_CONTACT = dict(type='contact', flags=0)
_KA = dict(type='KEEPALIVE')
_REJ = dict(type='MSG_REJECT', reason=2, rej_msg_id=9)

# 14-octet streams (exhaustive compositions); everything after the contact header is
# legal-to-receive-and-reject before the session exists
_def_stream('s14a', [_CONTACT, _KA, _REJ, _KA, _REJ])
_def_stream('s14b', [_CONTACT, _REJ, _KA, _KA, _REJ])
_def_stream('s14c', [_CONTACT, _KA, _KA, _KA, _KA, _KA, _REJ, _KA])
_def_stream('s14d', [_CONTACT, _REJ, _REJ, _KA, _KA])

# medium streams (<= 300 octets)
_def_stream('m_basic', [
    _CONTACT, _sess_init(keepalive=30),
    *_transfer(1, [b'a' * 5]),
    _KA,
    *_transfer(2, [b'b' * 3, b'c' * 4, b'd' * 2]),
    _REJ,
    dict(type='SESS_TERM', flags=0, reason=1),
])
_def_stream('m_ext', [
    _CONTACT,
    _sess_init(nodeid='dtn://été/'.encode('utf-8'), ext=[(0, 0x7777, b'xyz'), (0, 0x0123, b'')]),
    *_transfer(7, [b'', b'q', b''], extra_ext=[(0, 0x4242, b'\x00\x01')]),
    _KA, _KA,
    *_transfer(8, [b'']),
    _KA,
])
_def_stream('m_ack', [
    _CONTACT, _sess_init(),
    dict(type='XFER_ACK', flags=0, transfer_id=1, length=3),
    _KA,
    dict(type='XFER_ACK', flags=tw.FLAG_START, transfer_id=1, length=9),
    *_transfer(3, [b'zz', b'yy']),
    dict(type='XFER_ACK', flags=0, transfer_id=1, length=12),
    _KA,
], queue_bundle=True)
_def_stream('m_ka_tail', [_CONTACT, _sess_init(), _KA])
_def_stream('m_dead', [_CONTACT, _sess_init(), *_transfer(1, [b'ok'])],
            dead_tail=[*_transfer(2, [b'never', b'framed']), _KA, dict(type='XFER_ACK', flags=0, transfer_id=9, length=3)])
_def_stream('m_zero', [_CONTACT, _sess_init(nodeid=b''), *_transfer(1, [b'']), *_transfer(2, [b'']), _KA])

# segments as large as the receiver's own segment MRU allows (small MRU configured), with and without the Transfer Length item
_def_stream('m_mru', [
    _CONTACT, _sess_init(),
    *_transfer(1, [b'M' * 64]),
    _KA,
    *_transfer(2, [b'n' * 49, b'o' * 64, b'p' * 63]),
    dict(type='XFER_SEGMENT', flags=tw.FLAG_START | tw.FLAG_END, transfer_id=3, ext=[], data=b'q' * 64),
    dict(type='XFER_SEGMENT', flags=tw.FLAG_START, transfer_id=4, ext=[], data=b'r' * 62),
    dict(type='XFER_SEGMENT', flags=tw.FLAG_END, transfer_id=4, data=b's' * 64),
    _KA,
], cfg=dict(segment_size_mru=64))
# reserved flag bits in XFER_SEGMENT / XFER_ACK (a receiver ignores them; the framing depends on START only)
_def_stream('m_flags', [
    _CONTACT, _sess_init(),
    dict(type='XFER_SEGMENT', flags=tw.FLAG_START | 0x04, transfer_id=1, ext=[tw.transfer_length_ext(5)], data=b'ab'),
    dict(type='XFER_SEGMENT', flags=0x80, transfer_id=1, data=b'c'),
    dict(type='XFER_SEGMENT', flags=tw.FLAG_END | 0x10 | 0x40, transfer_id=1, data=b'de'),
    _KA,
    dict(type='XFER_SEGMENT', flags=tw.FLAG_START | tw.FLAG_END | 0x08, transfer_id=2, ext=[tw.transfer_length_ext(3)], data=b'xyz'),
    dict(type='XFER_ACK', flags=0x84, transfer_id=9, length=1),
    _KA,
])

# a burst whose size is an exact multiple of the 10240-octet socket read: the messages in it are complete and must be acted on
# without waiting for a later octet
def _chunk_stream():
    head = [_CONTACT, _sess_init()]
    used = len(b''.join(tw.encode(msg) for msg in head))
    # XFER_SEGMENT START|END with the Transfer Length item: 1 + 1 + 8 + 4 + (2+1+2+8... encoded by the oracle) + 8 + data
    probe = _transfer(1, [b''])
    over = len(tw.encode(probe[0]))
    first = _transfer(1, [b'c' * (10240 - used - over)])
    second = _transfer(2, [b'd' * (10240 - over - 1)])
    return head + first + second + [_KA] + _transfer(3, [b'e' * 5]) + [_KA]


_def_stream('l_chunk', _chunk_stream())

# long streams
_def_stream('l_big', [
    _CONTACT, _sess_init(),
    *_transfer(1, [bytes((i * 7) & 0xFF for i in range(30000)), bytes((i * 3) & 0xFF for i in range(12000))]),
    _KA,
    *_transfer(2, [b'x' * 100000]),
    _KA,
    dict(type='SESS_TERM', flags=0, reason=0),
])
_def_stream('l_many', [
    _CONTACT, _sess_init(keepalive=1),
    *itertools.chain.from_iterable(
        _transfer(idx + 1, [bytes([idx]) * (idx % 5)] * (1 + idx % 3)) + [_KA] * (idx % 2) for idx in range(40)),
])


def stream_bytes(name):
    data = b''.join(tw.encode(msg) for msg in STREAMS[name]['msgs'])
    if STREAMS[name].get('dead_tail'):
        data += b'\x42' + b''.join(tw.encode(msg) for msg in STREAMS[name]['dead_tail'])
    return data


def _live_length(name):
    return len(b''.join(tw.encode(msg) for msg in STREAMS[name]['msgs']))


def _boundaries(name):
    out = []
    pos = 0
    for msg in STREAMS[name]['msgs']:
        pos += len(tw.encode(msg))
        out.append(pos)
    return out


# ----------------------------------------------------------------------- cases

def _compositions_mask_cases(name, role):
    # one case per block of masks to keep the case list small
    nbytes = len(stream_bytes(name))
    total = 1 << (nbytes - 1)
    block = 256
    return [dict(id='comp-%s-%s-%d' % (name, role, start), kind='comp', stream=name, role=role,
                 mask_from=start, mask_to=min(total, start + block))
            for start in range(0, total, block)]


def _cuts_cases(name, role, cuts_list, tag, block=64):
    out = []
    for idx in range(0, len(cuts_list), block):
        out.append(dict(id='cuts-%s-%s-%s-%d' % (name, role, tag, idx), kind='cuts', stream=name, role=role,
                        cuts=[list(cut) for cut in cuts_list[idx:idx + block]]))
    return out


def _directed_cuts(name):
    ''' Cuts inside every length field, before the last octet and after the first octet of every message. '''
    nbytes = len(stream_bytes(name))
    bounds = [0] + _boundaries(name)
    points = set()
    for lo, hi in zip(bounds[:-1], bounds[1:]):
        for off in (1, 2, 3, 5, 9, 10, 11, 13, 14, 17, 18, 21, 22):
            if lo + off < hi:
                points.add(lo + off)
        points.add(hi - 1)
        points.add(hi)
        if hi + 1 < nbytes:
            points.add(hi + 1)
    points = sorted(point for point in points if 0 < point < nbytes)
    return points


def cases(tier, seed):
    rng = random.Random(1000 + seed)
    out = []
    thorough = tier == 'thorough'
    # exhaustive compositions of short streams
    short = ['s14a', 's14b', 's14c', 's14d'] if thorough else ['s14a', 's14c']
    for name in short:
        for role in (('passive', 'active') if thorough else ('passive',)):
            out += _compositions_mask_cases(name, role)
    # all single cuts (and double cuts) of medium streams
    for name in ('m_basic', 'm_ext', 'm_ack', 'm_ka_tail', 'm_zero', 'm_mru', 'm_flags', 'm_dead'):
        nbytes = len(stream_bytes(name))
        for role in ('passive', 'active'):
            singles = [(cut,) for cut in range(1, nbytes)]
            out += _cuts_cases(name, role, singles, 'single')
        if thorough:
            doubles = list(itertools.combinations(range(1, nbytes), 2))
        else:
            points = _directed_cuts(name)
            doubles = list(itertools.combinations(points, 2))
            rng.shuffle(doubles)
            doubles = doubles[:1500]
        out += _cuts_cases(name, 'passive', doubles, 'double', block=128)
    # long streams: directed + random cuts
    for name in ('l_big', 'l_many', 'l_chunk'):
        nbytes = len(stream_bytes(name))
        points = _directed_cuts(name)
        directed = [(point,) for point in points]
        rand_cuts = []
        for _ in range(400 if thorough else 40):
            count = rng.choice([1, 2, 3, 5, 20, 200])
            rand_cuts.append(tuple(sorted(set(rng.randrange(1, nbytes) for _ in range(count)))))
        # every-k-octets
        for step in (1, 2, 7, 4096, 10240, 10241):
            if step == 1 and name == 'l_big' and not thorough:
                continue
            rand_cuts.append(tuple(range(step, nbytes, step)))
        if not thorough:
            directed = directed[::3]
        out += _cuts_cases(name, 'passive', directed + rand_cuts, 'long', block=8)
    # loop-driven cross-check
    for idx in range(40 if thorough else 8):
        out.append(dict(id='loop-%d' % idx, kind='loop', stream=rng.choice(['m_basic', 'm_ext', 'l_many', 'm_zero']),
                        seed=seed * 1000 + idx, policy=rng.choice(['fair', 'octet', 'burst'])))
    # bursts that end exactly on multiples of the socket read size (and one octet either side), then a pause
    bidx = 0
    for bursts in ([10240], [20480], [10240, 20480], [10239], [10241], [6, 10240], [42, 10240, 20479], [20481]):
        for policy in ('eager', 'fair'):
            out.append(dict(id='burst-%d' % bidx, kind='loop', stream='l_chunk', seed=seed * 77 + bidx, policy=policy, bursts=bursts))
            bidx += 1
    for bursts in ([30001], [30000 + 12000], [5, 100]):
        out.append(dict(id='burst-%d' % bidx, kind='loop', stream='l_big', seed=seed * 77 + bidx, policy='eager', bursts=bursts))
        bidx += 1
    # the daemon started the way its command line does it (tcpcl.cmd.root_logging with --log-level debug / info): framing unchanged
    for level in ('DEBUG', 'INFO'):
        out.append(dict(id='startup-%s' % level, kind='startup', level=level, stream='m_ext', role='passive'))
    # codec half
    ncodec = 60 if thorough else 12
    for idx in range(ncodec):
        out.append(dict(id='codec-%d' % idx, kind='codec', seed=seed * 100000 + idx, count=400 if thorough else 120))
    out.append(dict(id='codec-directed', kind='codec-directed'))
    return out


# --------------------------------------------------------------------- running

def _make_endpoint(role, queue_bundle, cfg=None):
    from vf.world.sim import Sim
    from vf import tcpcl_harness as th
    sim = Sim(seed=0, policy='eager')
    sock_a, sock_b = sim.net.tcp_pair()
    if role == 'passive':
        end = th.Endpoint(sim, 'E', th.make_config('dtn://under-test/', **(cfg or {})), sock_b, passive=True, peer_addr=('10.0.0.1', 40001))
    else:
        end = th.Endpoint(sim, 'E', th.make_config('dtn://under-test/', **(cfg or {})), sock_a, passive=False, peer_addr=('10.0.0.2', 4556))
    end.start()
    if queue_bundle:
        import dbus
        end.send(b'0123456789ab')
    return sim, end


def run_framing(name, cuts, role, keep_detail=False):
    ''' Feed one stream under one cut set; return (violations, counters). '''
    spec = STREAMS[name]
    data = stream_bytes(name)
    expected, parsed_to, status = tw.parse_stream(data[:_live_length(name)])
    assert status == 'complete' and parsed_to == _live_length(name)
    slices = []
    prev = 0
    for (_msg, end) in expected:
        slices.append((prev, end))
        prev = end

    sim, end = _make_endpoint(role, spec['queue_bundle'], spec.get('cfg'))
    hdl = end.hdl
    handed = []
    step_box = [0]
    orig = hdl.recv_message

    def recorder(pkt):
        handed.append((step_box[0], bytes(pkt)))
        return orig(pkt)

    hdl.recv_message = recorder
    # the endpoint's reaction: every message it sends while being fed (compared with the reaction to the same stream in one read)
    reaction = []
    orig_send = hdl.send_message

    def send_recorder(pkt, *args, **kwargs):
        reaction.append(bytes(pkt))
        return orig_send(pkt, *args, **kwargs)

    hdl.send_message = send_recorder
    violations = []
    counters = dict(feed_steps=0, messages_expected=0, buffer_checks=0, reactions_compared=0)
    bounds = [0] + list(cuts) + [len(data)]
    next_expected = 0
    cum = 0
    closed = False
    for step, (lo, hi) in enumerate(zip(bounds[:-1], bounds[1:])):
        step_box[0] = step
        chunk = data[lo:hi]
        before = len(handed)
        exc = None
        with sim.as_node('E'):
            try:
                hdl.recv_raw(chunk)
            except Exception as err:  # pylint: disable=broad-except
                exc = err
        cum = hi
        counters['feed_steps'] += 1
        got = handed[before:]
        # messages that must be handed in this step
        want = []
        while next_expected < len(slices) and slices[next_expected][1] <= cum:
            want.append(slices[next_expected])
            next_expected += 1
        counters['messages_expected'] += len(want)
        want_bytes = [data[s:e] for (s, e) in want]
        got_bytes = [item[1] for item in got]
        in_contact = lo < 6
        if exc is not None:
            violations.append(_viol(
                'receive callback raised %s while fed octets [%d,%d) of %s (%s)' % (type(exc).__name__, lo, hi, name, exc),
                kind='raised', in_contact=in_contact, exc_type=type(exc).__name__, stream=name, cuts=list(cuts), step=step,
                partial_contact=(hi < 6)))
            break
        if got_bytes != want_bytes:
            early = len(got_bytes) > len(want_bytes)
            late_keepalive = False
            if len(got_bytes) < len(want_bytes) and got_bytes == want_bytes[:len(got_bytes)]:
                missing = want_bytes[len(got_bytes):]
                late_keepalive = (missing[0] == b'\x04' and cum == want[len(got_bytes)][1])
            lost_after_contact = False
            if got_bytes and len(got_bytes[0]) > 6 and got_bytes[0][:4] == b'dtn!' and lo == 0:
                lost_after_contact = True
            violations.append(_viol(
                'feed step %d [%d,%d) of %s handed %d message(s) %s but the stream completes %d message(s) %s there' % (
                    step, lo, hi, name, len(got_bytes), [item[:12].hex() for item in got_bytes],
                    len(want_bytes), [item[:12].hex() for item in want_bytes]),
                kind='handed-mismatch', early=early, late_keepalive=late_keepalive,
                lost_after_contact=lost_after_contact, stream=name, cuts=list(cuts), step=step))
            break
        # buffer occupancy: exactly the octets beyond the last complete message
        last_end = slices[next_expected - 1][1] if next_expected else 0
        closed = hdl.get_app_socket() is None
        if closed and spec.get('dead_tail'):
            # the endpoint gave the connection up at the octet it cannot frame: no further read happens on a closed socket
            counters['dead_streams_closed'] = counters.get('dead_streams_closed', 0) + 1
            break
        if not closed and not (spec.get('dead_tail') and cum > _live_length(name)):
            counters['buffer_checks'] += 1
            used = hdl.recv_buffer_used()
            if used != cum - last_end:
                violations.append(_viol(
                    'after feed step %d [%d,%d) of %s the receive buffer holds %d octets, expected %d' % (
                        step, lo, hi, name, used, cum - last_end),
                    kind='buffer', stream=name, cuts=list(cuts), step=step))
                break
    hdl.recv_message = orig
    hdl.send_message = orig_send
    if not violations:
        key = (name, role)
        if not cuts:
            _REACTION_BASE[key] = list(reaction)
        else:
            if key not in _REACTION_BASE:
                base_viol, _cnt = run_framing(name, (), role)
                if base_viol:
                    _REACTION_BASE[key] = None
            base = _REACTION_BASE.get(key)
            if base is not None:
                counters['reactions_compared'] += 1
                if reaction != base:
                    violations.append(_viol(
                        'fed %s with cuts %s the endpoint sent %d message(s) %s, fed the same octets in one read it sends %d message(s) %s' % (
                            name, list(cuts)[:6], len(reaction), [item[:8].hex() for item in reaction][:8], len(base), [item[:8].hex() for item in base][:8]),
                        kind='reaction', stream=name, cuts=list(cuts), step=len(bounds) - 2))
    return violations, counters


_REACTION_BASE = {}


def _viol(what, **detail):
    return dict(key=classify(detail), what=what, detail=detail)


def classify(detail):
    ''' Narrow classifier predicates for known findings (mechanism keys). '''
    kind = detail.get('kind')
    if kind == 'raised' and detail.get('in_contact') and detail.get('partial_contact') \
            and detail.get('exc_type') in ('error', 'AttributeError'):
        # the first read holds fewer than the 6 octets of the contact header
        return 'C07/contact-header-partial-read-raises'
    if kind == 'handed-mismatch' and detail.get('lost_after_contact'):
        return 'C07/octets-after-contact-header-in-same-read-swallowed'
    if kind == 'handed-mismatch' and detail.get('late_keepalive'):
        return 'C07/keepalive-at-end-of-read-not-acted-on'
    if kind == 'codec' and detail.get('swapped_reject_fields'):
        return 'C07/msg-reject-field-order'
    if kind == 'codec' and detail.get('ext_list_as_blob'):
        return 'C07/multi-item-extension-list-decodes-to-blob'
    return None


def _run_loop_case(case):
    ''' Cross-check through the real socket pump under a scheduling policy. '''
    from vf.world.sim import Sim
    from vf import tcpcl_harness as th
    name = case['stream']
    data = stream_bytes(name)
    expected, _, _ = tw.parse_stream(data)
    sim = Sim(seed=case['seed'], policy=case['policy'])
    sock_a, sock_b = sim.net.tcp_pair()
    end = th.Endpoint(sim, 'E', th.make_config('dtn://under-test/', **STREAMS[name].get('cfg', {})), sock_b, passive=True, peer_addr=('10.0.0.1', 40001))
    end.start()
    handed = []
    orig = end.hdl.recv_message

    def recorder(pkt):
        handed.append(bytes(pkt))
        return orig(pkt)

    end.hdl.recv_message = recorder
    want = []
    prev = 0
    for (_msg, endpos) in expected:
        want.append(data[prev:endpos])
        prev = endpos
    viols = []
    if case.get('bursts'):
        # the peer writes a burst, then pauses until the world is quiet: whatever is complete by then must have been acted on
        # (through the real socket callback, which reads in 10240-octet pieces)
        bounds = [0] + [cut for cut in case['bursts'] if 0 < cut < len(data)] + [len(data)]
        res = 'quiescent'
        for (lo, hi) in zip(bounds[:-1], bounds[1:]):
            sent = lo
            while sent < hi:
                count = sock_a.tx.write(data[sent:hi])
                sent += count
                if not count:
                    sim.settle(200000)
            res = sim.settle(200000)
            done = [item for idx, item in enumerate(want) if expected[idx][1] <= hi]
            if not sim.world.callback_errors and handed != done:
                viols.append(_viol('burst up to octet %d of %s through the socket: %d message(s) acted on while the peer pauses, %d are complete' % (
                    hi, name, len(handed), len(done)), kind='handed-mismatch', stream=name, policy=case['policy'],
                    late_keepalive=(handed == done[:-1] and done[-1] == b'\x04')))
                break
    else:
        # the scripted peer writes the whole stream; the scheduler chunks it
        sent = 0
        while sent < len(data):
            sent += sock_a.tx.write(data[sent:])
        res = sim.settle(200000)
    errs = sim.world.callback_errors
    if errs:
        first = errs[0]
        partial = sock_b.rx.read_total < 6 or True
        viols.append(_viol('loop run: callback raised %s: %s' % (first.exc_type, first.exc), kind='raised',
                           in_contact=(len(handed) == 0), partial_contact=(len(handed) == 0), exc_type=first.exc_type,
                           stream=name, policy=case['policy']))
    elif handed != want and not viols:
        lost = bool(handed) and len(handed[0]) > 6
        late_ka = (handed == want[:-1] and want[-1] == b'\x04')
        viols.append(_viol('loop run (%s): handed %d messages, stream has %d' % (case['policy'], len(handed), len(want)),
                           kind='handed-mismatch', lost_after_contact=lost, late_keepalive=late_ka, stream=name,
                           policy=case['policy']))
    obs = dict(feed_steps=sock_b.n_recv_calls, messages_expected=len(want), loop_runs=1)
    return viols, obs, res


# ------------------------------------------------------------------ codec half

def _real_modules():
    from tcpcl import messages, contact, formats, extend  # noqa: F401
    return messages, contact


def _ext_list_real(items, cls):
    from scapy.packet import Raw
    out = []
    for (flags, etype, data) in items:
        pkt = cls(flags=flags, type=etype)
        if data:
            pkt = pkt / Raw(data)
        out.append(pkt)
    return out


def real_encode(msg):
    ''' Build the message with the repository's classes and encode it. '''
    messages, contact = _real_modules()
    mtype = msg['type']
    if mtype == 'contact':
        return bytes(contact.Head() / contact.ContactV4(flags=msg['flags']))
    if mtype == 'SESS_INIT':
        pkt = messages.SessionInit(keepalive=msg['keepalive'], segment_mru=msg['segment_mru'], transfer_mru=msg['transfer_mru'],
                                   nodeid_data=msg['nodeid'].decode('utf-8'),
                                   ext_items=_ext_list_real(msg['ext'], messages.SessionExtendHeader))
    elif mtype == 'SESS_TERM':
        pkt = messages.SessionTerm(flags=msg['flags'], reason=msg['reason'])
    elif mtype == 'XFER_SEGMENT':
        kwargs = dict(flags=msg['flags'], transfer_id=msg['transfer_id'], data=msg['data'])
        if msg['flags'] & tw.FLAG_START:
            kwargs['ext_items'] = _ext_list_real(msg.get('ext', []), messages.TransferExtendHeader)
        pkt = messages.TransferSegment(**kwargs)
    elif mtype == 'XFER_ACK':
        pkt = messages.TransferAck(flags=msg['flags'], transfer_id=msg['transfer_id'], length=msg['length'])
    elif mtype == 'XFER_REFUSE':
        pkt = messages.TransferRefuse(reason=msg['reason'], transfer_id=msg['transfer_id'])
    elif mtype == 'KEEPALIVE':
        pkt = messages.Keepalive()
    elif mtype == 'MSG_REJECT':
        pkt = messages.RejectMsg(reason=msg['reason'], rej_msg_id=msg['rej_msg_id'])
    else:
        raise ValueError(mtype)
    return bytes(messages.MessageHead() / pkt)


def _ext_from_real(items):
    out = []
    for item in items or []:
        if not hasattr(item, 'type'):
            # scapy fell back to an opaque blob for the (rest of the) list
            out.append(('raw', bytes(item)))
        else:
            out.append((int(item.flags), int(item.type), bytes(item.payload)))
    return out


def real_decode(data, is_contact=False):
    ''' Decode with the repository's classes into the oracle's dict form. '''
    messages, contact = _real_modules()
    if is_contact:
        pkt = contact.Head(data)
        return dict(type='contact', magic=bytes(pkt.magic), version=int(pkt.version), flags=int(pkt.payload.flags))
    pkt = messages.MessageHead(data)
    cls = pkt.guess_payload_class(b'')
    pay = pkt.payload
    if cls == messages.SessionInit:
        return dict(type='SESS_INIT', keepalive=int(pay.keepalive), segment_mru=int(pay.segment_mru),
                    transfer_mru=int(pay.transfer_mru), nodeid=str(pay.nodeid_data).encode('utf-8'),
                    ext=_ext_from_real(pay.ext_items))
    if cls == messages.SessionTerm:
        return dict(type='SESS_TERM', flags=int(pay.flags), reason=int(pay.reason))
    if cls == messages.TransferSegment:
        out = dict(type='XFER_SEGMENT', flags=int(pay.getfieldval('flags')), transfer_id=int(pay.transfer_id),
                   data=bytes(pay.getfieldval('data')))
        if out['flags'] & tw.FLAG_START:
            out['ext'] = _ext_from_real(pay.ext_items)
        return out
    if cls == messages.TransferAck:
        return dict(type='XFER_ACK', flags=int(pay.getfieldval('flags')), transfer_id=int(pay.transfer_id), length=int(pay.length))
    if cls == messages.TransferRefuse:
        return dict(type='XFER_REFUSE', reason=int(pay.reason), transfer_id=int(pay.transfer_id))
    if cls == messages.Keepalive:
        return dict(type='KEEPALIVE')
    if cls == messages.RejectMsg:
        return dict(type='MSG_REJECT', reason=int(pay.reason), rej_msg_id=int(pay.rej_msg_id))
    raise ValueError('real decoder: unknown class %r' % cls)


_U8 = [0, 1, 2, 127, 128, 255]
_U16 = [0, 1, 255, 256, 65535]
_U64 = [0, 1, 23, 24, 255, 256, 65535, 65536, 2 ** 32 - 1, 2 ** 32, 2 ** 63, 2 ** 64 - 1]


def _rand_ext(rng, maxn=3):
    out = []
    for _ in range(rng.randint(0, maxn)):
        dlen = rng.choice([0, 0, 1, 2, 8, 40])
        etype = rng.choice([0x0002, 0x0100, 0x7fff, 0xfffe, 0x00fe])
        out.append((rng.choice([0, 1, 0]), etype, bytes(rng.getrandbits(8) for _ in range(dlen))))
    return out


def _rand_text(rng):
    alphabet = 'abcXYZ09:/._-~é中'
    return ''.join(rng.choice(alphabet) for _ in range(rng.choice([0, 1, 5, 30, 300])))


def _rand_msg(rng):
    pick = rng.choice(['contact', 'SESS_INIT', 'SESS_TERM', 'XFER_SEGMENT', 'XFER_SEGMENT', 'XFER_ACK', 'XFER_REFUSE',
                       'KEEPALIVE', 'MSG_REJECT'])
    if pick == 'contact':
        return dict(type='contact', flags=rng.choice([0, 1]))
    if pick == 'SESS_INIT':
        return dict(type='SESS_INIT', keepalive=rng.choice(_U16 + [rng.randrange(65536)]),
                    segment_mru=rng.choice(_U64 + [rng.getrandbits(64)]), transfer_mru=rng.choice(_U64 + [rng.getrandbits(64)]),
                    nodeid=_rand_text(rng).encode('utf-8'), ext=_rand_ext(rng))
    if pick == 'SESS_TERM':
        return dict(type='SESS_TERM', flags=rng.choice([0, 1]), reason=rng.choice(_U8 + [3, 4, 5]))
    if pick == 'XFER_SEGMENT':
        flags = rng.choice([0, 1, 2, 3])
        dlen = rng.choice([0, 1, 2, 100, 255, 256, 5000])
        msg = dict(type='XFER_SEGMENT', flags=flags, transfer_id=rng.choice(_U64 + [rng.getrandbits(64)]),
                   data=bytes(rng.getrandbits(8) for _ in range(dlen)))
        if flags & tw.FLAG_START:
            ext = _rand_ext(rng, 2)
            if rng.random() < 0.7:
                ext.insert(0, tw.transfer_length_ext(rng.choice(_U64)))
            msg['ext'] = ext
        return msg
    if pick == 'XFER_ACK':
        return dict(type='XFER_ACK', flags=rng.choice([0, 1, 2, 3]), transfer_id=rng.choice(_U64 + [rng.getrandbits(64)]),
                    length=rng.choice(_U64 + [rng.getrandbits(64)]))
    if pick == 'XFER_REFUSE':
        return dict(type='XFER_REFUSE', reason=rng.choice(_U8 + [3, 4, 5]), transfer_id=rng.choice(_U64 + [rng.getrandbits(64)]))
    if pick == 'KEEPALIVE':
        return dict(type='KEEPALIVE')
    return dict(type='MSG_REJECT', reason=rng.choice([1, 2, 3, 0, 200]), rej_msg_id=rng.choice(_U8 + [4, 7]))


def _directed_msgs():
    out = [dict(type='contact', flags=0), dict(type='contact', flags=1), dict(type='KEEPALIVE')]
    for val in _U64:
        out.append(dict(type='XFER_ACK', flags=3, transfer_id=val, length=val))
        out.append(dict(type='XFER_REFUSE', reason=1, transfer_id=val))
        out.append(dict(type='XFER_SEGMENT', flags=3, transfer_id=val, ext=[tw.transfer_length_ext(val)], data=b'd'))
        out.append(dict(type='SESS_INIT', keepalive=val & 0xFFFF, segment_mru=val, transfer_mru=2 ** 64 - 1 - val,
                        nodeid=b'ipn:1.0', ext=[]))
    for reason in _U8:
        for rej in (0, 1, 7, 255):
            out.append(dict(type='MSG_REJECT', reason=reason, rej_msg_id=rej))
        out.append(dict(type='SESS_TERM', flags=1, reason=reason))
        out.append(dict(type='SESS_TERM', flags=0, reason=reason))
    for dlen in (0, 1, 255, 256, 65535, 65536, 100 * 1024):
        out.append(dict(type='XFER_SEGMENT', flags=0, transfer_id=5, data=b'\xaa' * dlen))
        out.append(dict(type='XFER_SEGMENT', flags=1, transfer_id=5, data=b'\x00' * dlen))
    out.append(dict(type='XFER_SEGMENT', flags=2, transfer_id=5, ext=[], data=b''))
    out.append(dict(type='SESS_INIT', keepalive=1, segment_mru=1, transfer_mru=1, nodeid=b'',
                    ext=[(1, 0xffff, b'\x01' * 300), (0, 0, b'')]))
    return out


def _strip(msg):
    out = dict(msg)
    out.pop('magic', None)
    out.pop('version', None)
    return out


def check_codec(msg, counters):
    ''' Both directions for one message; returns violations. '''
    viols = []
    is_contact = msg['type'] == 'contact'
    # (1) real encoder -> oracle decoder
    counters['codec_real_to_oracle'] += 1
    try:
        enc = real_encode(msg)
        if is_contact:
            dec, end = tw.decode_contact(enc)
        else:
            dec, end = tw.decode_message(enc)
        if end != len(enc):
            viols.append(_codec_viol(msg, 'real->oracle', 'oracle consumed %d of %d octets' % (end, len(enc)), dec))
        elif _strip(dec) != _strip(msg):
            viols.append(_codec_viol(msg, 'real->oracle', 'fields differ', dec))
    except Exception as err:  # pylint: disable=broad-except
        viols.append(_codec_viol(msg, 'real->oracle', 'exception %s: %s' % (type(err).__name__, err), None))
    # (2) oracle encoder -> real decoder
    counters['codec_oracle_to_real'] += 1
    try:
        enc = tw.encode(msg)
        dec = real_decode(enc, is_contact)
        if _strip(dec) != _strip(msg):
            viols.append(_codec_viol(msg, 'oracle->real', 'fields differ', dec))
    except Exception as err:  # pylint: disable=broad-except
        viols.append(_codec_viol(msg, 'oracle->real', 'exception %s: %s' % (type(err).__name__, err), None))
    return viols


def _codec_viol(msg, direction, what, dec):
    swapped = False
    if msg['type'] == 'MSG_REJECT' and dec is not None and dec.get('type') == 'MSG_REJECT':
        swapped = (dec.get('reason') == msg['rej_msg_id'] and dec.get('rej_msg_id') == msg['reason'])
    # the real decoder returned the whole multi-item extension list as one opaque blob
    # (every octet still there, every other field equal)
    blob = False
    if (direction == 'oracle->real' and dec is not None and msg['type'] in ('SESS_INIT', 'XFER_SEGMENT')
            and len(msg.get('ext') or []) >= 2 and len(dec.get('ext') or []) == 1 and dec['ext'][0][0] == 'raw'
            and dec['ext'][0][1] == tw.encode_ext(msg['ext'])
            and {k: v for k, v in dec.items() if k != 'ext'} == {k: v for k, v in msg.items() if k != 'ext'}):
        blob = True
    short = {key: (val if not isinstance(val, bytes) or len(val) < 40 else '%d octets' % len(val)) for key, val in msg.items()}
    return _viol('codec %s for %s: %s (decoded %s)' % (direction, short, what, dec if dec is None else {
        key: (val if not isinstance(val, bytes) or len(val) < 40 else '%d octets' % len(val)) for key, val in dec.items()}),
        kind='codec', direction=direction, msg_type=msg['type'], swapped_reject_fields=swapped,
        ext_list_as_blob=blob)


# ------------------------------------------------------------------- run_case

def run_case(case):
    kind = case['kind']
    obs = dict(feed_steps=0, messages_expected=0, codec_real_to_oracle=0, codec_oracle_to_real=0, buffer_checks=0)
    violations = []
    classes = set()
    evaluations = 0
    sample = None
    if kind == 'comp':
        name = case['stream']
        nbytes = len(stream_bytes(name))
        for mask in range(case['mask_from'], case['mask_to']):
            cuts = [bit + 1 for bit in range(nbytes - 1) if mask & (1 << bit)]
            viols, counters = run_framing(name, cuts, case['role'])
            evaluations += 1
            classes.add('comp:%s:%s:%d' % (name, case['role'], mask))
            for key, val in counters.items():
                obs[key] = obs.get(key, 0) + val
            violations += viols
        sample = dict(kind='all compositions', stream=name, octets=stream_bytes(name).hex(), masks=[case['mask_from'], case['mask_to']],
                      role=case['role'])
    elif kind == 'cuts':
        name = case['stream']
        for cuts in case['cuts']:
            viols, counters = run_framing(name, cuts, case['role'])
            evaluations += 1
            classes.add('cuts:%s:%s:%s' % (name, case['role'], ','.join(map(str, cuts[:6])) + ('+%d' % len(cuts) if len(cuts) > 6 else '')))
            for key, val in counters.items():
                obs[key] = obs.get(key, 0) + val
            violations += viols
        sample = dict(kind='cuts', stream=name, stream_len=len(stream_bytes(name)), role=case['role'], first_cuts=case['cuts'][:3])
    elif kind == 'startup':
        import logging
        import os
        import scapy.config
        import tcpcl.cmd
        root = logging.getLogger()
        saved = (list(root.handlers), root.level, scapy.config.conf.debug_dissector, root.manager.disable)
        devnull = open(os.devnull, 'w')
        try:
            logging.disable(logging.NOTSET)   # the harness normally silences logging altogether; a daemon does not
            for hdl in list(root.handlers):
                root.removeHandler(hdl)
            import sys as _sys
            saved_err = _sys.stderr
            _sys.stderr = devnull
            try:
                tcpcl.cmd.root_logging(case['level'])
            finally:
                _sys.stderr = saved_err
            for hdl in root.handlers:
                if hasattr(hdl, 'setStream'):
                    hdl.setStream(devnull)
            name = case['stream']
            nbytes = len(stream_bytes(name))
            for cut in range(1, nbytes):
                viols, counters = run_framing(name, (cut,), case['role'])
                evaluations += 1
                classes.add('startup:%s:%s:%d' % (case['level'], name, cut))
                for key, val in counters.items():
                    obs[key] = obs.get(key, 0) + val
                violations += [dict(viol, what='[started with --log-level %s] %s' % (case['level'], viol['what'])) for viol in viols]
            obs['startup_runs'] = obs.get('startup_runs', 0) + 1
        finally:
            for hdl in list(root.handlers):
                root.removeHandler(hdl)
            for hdl in saved[0]:
                root.addHandler(hdl)
            root.setLevel(saved[1])
            logging.disable(saved[3])
            scapy.config.conf.debug_dissector = saved[2]
            devnull.close()
        sample = dict(kind='startup', level=case['level'])
    elif kind == 'loop':
        viols, counters, res = _run_loop_case(case)
        evaluations = 1
        classes.add('loop:%s:%s:%d' % (case['stream'], case['policy'], case['seed']))
        for key, val in counters.items():
            obs[key] = obs.get(key, 0) + val
        violations += viols
        if res == 'budget':
            return dict(verdict='inconclusive', nontrivial=False, cls='loop', obs=obs, violations=[],
                        inconclusive_reason='step budget exhausted')
        sample = dict(kind='loop-driven', stream=case['stream'], policy=case['policy'])
    elif kind in ('codec', 'codec-directed'):
        if kind == 'codec':
            rng = random.Random(case['seed'])
            msgs = [_rand_msg(rng) for _ in range(case['count'])]
        else:
            msgs = _directed_msgs()
        for msg in msgs:
            violations += check_codec(msg, obs)
            evaluations += 1
            classes.add('codec:%s:%s' % (msg['type'], hash(repr(sorted(msg.items()))) & 0xFFFFFFFF))
        first = msgs[0]
        sample = dict(kind='codec', message={key: (val.hex() if isinstance(val, bytes) else val) for key, val in first.items()
                                              if not isinstance(val, bytes) or len(val) < 64})
    # de-duplicate violations by key/what prefix to keep results small
    uniq = {}
    for viol in violations:
        ukey = (viol['key'], viol['detail'].get('kind'), viol['detail'].get('stream'), viol['detail'].get('msg_type'),
                viol['detail'].get('direction'), viol['detail'].get('exc_type'),
                None if viol['key'] else viol['what'][:120])
        uniq.setdefault(ukey, viol)
    violations = list(uniq.values())
    return dict(verdict='violated' if violations else 'held', nontrivial=True, cls=classes, obs=obs,
                violations=violations, sample=sample, evaluations=evaluations)
