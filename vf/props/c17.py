''' C17 -- TCPCL answers out-of-place peer messages without corrupting state.

Monitor: one real ContactHandler driven by a scripted peer that writes octets
produced by the independent RFC 9174 encoder; recorded: exceptions escaping
event-loop callbacks, the endpoint's wire output (decoded independently), its
receive queue, and completion of its own transfers once the scripted peer
cooperates again.

Oracle: a peer model (what is out of place for the endpoint's current state),
the reaction rule (MSG_REJECT, SESS_TERM or closure for every out-of-place
message), single-transfer provenance of every delivered payload, and progress
of the endpoint's own queued transfers.
'''
import itertools
import random

import dbus

from vf.oracles import tcpcl_wire as tw

PROPERTY_ID = 'C17'
RULE = ('six endpoint states (awaiting contact header, awaiting SESS_INIT, established idle, own transfer awaiting ACK, '
        'receiving a transfer, terminating) x an alphabet of ~24 syntactically valid messages chosen relative to the state; all '
        'sequences of length <= 2 (thorough: <= 3 for a reduced alphabet) in each state, then seeded random sequences up to '
        'length 12; after the burst the scripted peer behaves honestly (acknowledges segments, answers SESS_TERM). Non-trivial '
        '= a sequence with at least one out-of-place message; distinct = distinct (state, role, sequence).')
ASSUMPTIONS = [
    'vf/oracles/tcpcl_wire.py encodes the injected messages and decodes the endpoint\'s output',
    '"out of place" is judged by the peer model in this module, written from the statement\'s list',
    'an endpoint that legally reacted by terminating or closing is not required to finish its own transfers',
]
DECIDING = ['tcpcl.session:Messenger.recv_message', 'tcpcl.session:ContactHandler.recv_xfer_data', 'tcpcl.session:ContactHandler.recv_xfer_ack',
            'tcpcl.session:ContactHandler.recv_xfer_refuse', 'tcpcl.session:Messenger.send_reject']
REQUIRED_OBS = ['sequences', 'split_sequences', 'reused_done_id_histories', 'out_of_place_injected', 'reactions_seen', 'own_transfers_completed', 'deliveries_checked']

STATES = ['pre-contact', 'pre-init', 'idle', 'own-unacked', 'receiving', 'terminating']
OWN_LEN = 25
OWN_SEG = 10


class Peer(object):
    ''' Scripted peer + the endpoint under test. '''

    def __init__(self, role, state, modulate=False, capacity=None):
        from vf.world.sim import Sim
        from vf import tcpcl_harness as th
        self.sim = Sim(seed=0, policy='eager')
        self.role = role
        self.drain = True
        sock_a, sock_b = self.sim.net.tcp_pair(capacity=capacity) if capacity else self.sim.net.tcp_pair()
        extra = dict(modulate_target_ack_time=2) if modulate else {}
        self.modulate = modulate
        cfg = th.make_config('dtn://under-test/', segment_size_tx_initial=OWN_SEG, **extra)
        if role == 'passive':
            self.end = th.Endpoint(self.sim, 'E', cfg, sock_b, passive=True, peer_addr=('10.0.0.1', 40001))
            self.peer_sock, self.end_sock = sock_a, sock_b
        else:
            self.end = th.Endpoint(self.sim, 'E', cfg, sock_a, passive=False, peer_addr=('10.0.0.2', 4556))
            self.peer_sock, self.end_sock = sock_b, sock_a
        self.read_pos = 0
        self.seen = []          # decoded messages written by the endpoint
        self.injected = []      # (msg, out_of_place, n_reactions_before)
        self.acked = {}         # endpoint transfer id -> octets acknowledged by the honest peer
        self.own_tids = []
        self.refused_own = set()
        self.peer_next_id = 100
        self.open_rx = None     # transfer the peer has open towards the endpoint: dict(id, data)
        self.completed_rx = []  # payloads of complete START..END runs of a single id
        self.sent_sess_init = False
        self.sent_contact = False
        self.end.start()
        self.sim.settle(20000)
        self._enter(state)

    # -- plumbing
    def write(self, data):
        if self.modulate:
            # the adaptive controller divides by the acknowledgement delay: let (virtual) time pass as on a real network
            self.sim.advance(1000000)
        sent = 0
        while sent < len(data):
            count = self.peer_sock.tx.write(data[sent:])
            if count == 0:
                break
            sent += count

    def settle(self):
        res = self.sim.settle(50000)
        self._read()
        return res

    def _read(self):
        pipe = self.end_sock.tx
        if self.drain and pipe.rxbuf:
            # (the peer reads what has arrived; with a bounded socket buffer this is what lets the endpoint go on writing)
            pipe.read_total += len(pipe.rxbuf)
            del pipe.rxbuf[:]
        raw = self.end_sock.tx.all_bytes()
        msgs, pos, status = tw.parse_stream(raw)
        self.seen = [m for (m, _e) in msgs]
        self.wire_status = status
        return self.seen

    def reactions(self):
        return sum(1 for m in self.seen if m['type'] in ('MSG_REJECT', 'SESS_TERM'))

    def closed(self):
        return self.end_sock.closed

    def terminating(self):
        return self.end.hdl._in_term

    # -- reaching a state honestly
    def _enter(self, state):
        self.state = state
        if state == 'pre-contact':
            return
        self.write(tw.encode(dict(type='contact', flags=0)))
        self.sent_contact = True
        self.settle()
        if state == 'pre-init':
            return
        self.write(tw.encode(dict(type='SESS_INIT', keepalive=0, segment_mru=2 ** 20, transfer_mru=2 ** 30, nodeid=b'dtn://peer/', ext=[])))
        self.sent_sess_init = True
        self.settle()
        if state == 'own-unacked':
            self.queue_own()
            self.settle()
        elif state == 'receiving':
            self.open_rx = dict(id=self.peer_next_id, data=b'')
            self.peer_next_id += 1
            self.write(tw.encode(dict(type='XFER_SEGMENT', flags=tw.FLAG_START, transfer_id=self.open_rx['id'],
                                      ext=[tw.transfer_length_ext(12)], data=b'first-')))
            self.open_rx['data'] += b'first-'
            self.settle()
        elif state == 'terminating':
            self.end.call('terminate', dbus.Byte(0))
            self.settle()

    def queue_own(self, length=OWN_LEN):
        payload = bytes((i * 7 + 3) & 0xFF for i in range(length))
        tid = str(self.end.call('send_bundle_data', dbus.ByteArray(payload)))
        self.own_tids.append(tid)
        return tid

    # -- alphabet
    def alphabet(self):
        ''' Message makers for the current state: name -> (callable returning (msg, out_of_place)). '''
        in_sess = self.sent_sess_init
        own_id = int(self.own_tids[0]) if self.own_tids else None
        alpha = {}

        def seg(flags, xid, data, tag):
            def make():
                established = self.sent_sess_init
                msg = dict(type='XFER_SEGMENT', flags=flags, transfer_id=xid() if callable(xid) else xid, data=data)
                if flags & tw.FLAG_START:
                    msg['ext'] = [tw.transfer_length_ext(len(data) if flags & tw.FLAG_END else len(data) + 6)]
                opened = self.open_rx
                if not established:
                    oop = True
                elif flags & tw.FLAG_START:
                    oop = False
                else:
                    oop = opened is None or opened['id'] != msg['transfer_id']
                return msg, oop
            alpha[tag] = make

        seg(tw.FLAG_START | tw.FLAG_END, lambda: self._fresh_id(), b'whole', 'seg-whole')
        seg(tw.FLAG_START, lambda: self._fresh_id(), b'first-', 'seg-start')
        seg(0, lambda: self.open_rx['id'] if self.open_rx else 7777, b'mid', 'seg-mid-current')
        seg(tw.FLAG_END, lambda: self.open_rx['id'] if self.open_rx else 7777, b'last', 'seg-end-current')
        seg(0, 0, b'mid', 'seg-mid-zero')
        seg(tw.FLAG_END, 0, b'end', 'seg-end-zero')
        seg(0, 8888, b'mid', 'seg-mid-other')
        seg(tw.FLAG_END, 8889, b'end', 'seg-end-other')

        def ack(xid, flags, length, tag, unknown):
            def make():
                return dict(type='XFER_ACK', flags=flags, transfer_id=xid, length=length), (not self.sent_sess_init) or unknown
            alpha[tag] = make

        ack(4242, 0, 5, 'ack-unknown', True)
        ack(4243, tw.FLAG_END, 5, 'ack-unknown-end', True)
        if own_id is not None:
            ack(own_id, tw.FLAG_START, OWN_SEG, 'ack-own-first', False)

        def refuse(xid, tag, unknown):
            def make():
                return dict(type='XFER_REFUSE', reason=2, transfer_id=xid), (not self.sent_sess_init) or unknown
            alpha[tag] = make

        refuse(5151, 'refuse-unknown', True)
        # names the first id the endpoint hands out: unknown unless that transfer exists and the session is established
        refuse(1, 'refuse-id1', not (self.sent_sess_init and '1' in self.own_tids and 1 not in self.refused_own))
        if own_id is not None:
            # (once refused, the transfer is over: its id is unknown from then on)
            refuse(own_id, 'refuse-own', own_id in self.refused_own)
        alpha['sess-term'] = lambda: (dict(type='SESS_TERM', flags=0, reason=0), not self.sent_sess_init)
        # a SESS_TERM marked as reply although this endpoint has not asked for termination: a reply to nothing
        alpha['sess-term-reply'] = lambda: (dict(type='SESS_TERM', flags=tw.TERM_REPLY, reason=0),
                                            (not self.sent_sess_init) or not (self.terminating() or self.closed()))
        # a further SESS_INIT on a connection that has had one (other node id, other sizes): never negotiated again
        alpha['sess-init-again'] = lambda: (dict(type='SESS_INIT', keepalive=5, segment_mru=100, transfer_mru=5000, nodeid=b'dtn://someone-else/', ext=[]),
                                            self.sent_sess_init)
        alpha['keepalive'] = lambda: (dict(type='KEEPALIVE'), False)
        alpha['msg-reject'] = lambda: (dict(type='MSG_REJECT', reason=2, rej_msg_id=4), False)
        alpha['unknown-type'] = lambda: (dict(type='UNKNOWN', msg_id=0x0f, raw=b''), True)
        alpha['unknown-type-ff'] = lambda: (dict(type='UNKNOWN', msg_id=0xff, raw=b'\x01\x02'), True)
        alpha['unknown-type-00'] = lambda: (dict(type='UNKNOWN', msg_id=0x00, raw=b''), True)
        alpha['unknown-type-08'] = lambda: (dict(type='UNKNOWN', msg_id=0x08, raw=b'\x00'), True)
        if not self.sent_contact:
            alpha = {
                'contact-bad-magic': lambda: (dict(type='contact', magic=b'dtn?', flags=0), True),
                'contact-bad-version': lambda: (dict(type='contact', version=3, flags=0), True),
                'contact-bad-version-7': lambda: (dict(type='contact', version=7, flags=0), True),
                # a bad header and a good one arriving in the same read: nothing after the bad one may be acted on
                'contact-bad-magic+good': lambda: (dict(type='RAW', raw=tw.encode(dict(type='contact', magic=b'DTN!', flags=0))
                                                        + tw.encode(dict(type='contact', flags=0))), True),
                # (a complete TCPCLv3 contact header: flags, keepalive 0, empty node id)
                'contact-v3+good': lambda: (dict(type='RAW', raw=b'dtn!\x03\x00\x00\x00\x00' + tw.encode(dict(type='contact', flags=0))), True),
                'contact-bad-magic+good+init': lambda: (dict(type='RAW', raw=tw.encode(dict(type='contact', magic=b'dtn?', flags=0))
                                                             + tw.encode(dict(type='contact', flags=0))
                                                             + tw.encode(dict(type='SESS_INIT', keepalive=0, segment_mru=2 ** 20, transfer_mru=2 ** 30,
                                                                              nodeid=b'dtn://peer/', ext=[]))), True),
            }
        return alpha

    def _fresh_id(self):
        self.peer_next_id += 1
        return self.peer_next_id

    def inject(self, name):
        ''' Inject one alphabet message; track the honest-transfer provenance model. '''
        make = self.alphabet().get(name)
        if make is None:
            return None
        msg, oop = make()
        before = self.reactions()
        was_closed = self.closed()
        was_term = self.terminating()
        octets = msg['raw'] if msg['type'] == 'RAW' else tw.encode(msg)
        if getattr(self, 'split', False) and len(octets) > 1 and msg['type'] not in ('RAW', 'contact'):
            self.write(octets[:1])
            self.sim.settle(50000)
            self.write(octets[1:])
        else:
            self.write(octets)
        # provenance model: only START..END runs of one id are deliverable
        if msg['type'] == 'XFER_SEGMENT' and self.sent_sess_init and not was_closed:
            if msg['flags'] & tw.FLAG_START:
                self.open_rx = dict(id=msg['transfer_id'], data=msg['data'])
                if msg['flags'] & tw.FLAG_END:
                    self.completed_rx.append(self.open_rx['data'])
                    self.open_rx = None
            elif self.open_rx is not None and self.open_rx['id'] == msg['transfer_id']:
                self.open_rx['data'] += msg['data']
                if msg['flags'] & tw.FLAG_END:
                    self.completed_rx.append(self.open_rx['data'])
                    self.open_rx = None
        if msg['type'] == 'XFER_REFUSE' and not oop and self.sent_sess_init and not was_closed:
            self.refused_own.add(msg['transfer_id'])
        if msg['type'] in ('contact', 'RAW'):
            self.sent_contact = True
        if msg['type'] == 'SESS_INIT' and self.sent_contact and not was_closed:
            self.sent_sess_init = True      # (in the pre-init state this one is the peer's first and proper SESS_INIT)
        res = self.settle()
        self.injected.append(dict(name=name, msg=msg, out_of_place=oop, reactions_before=before, reactions_after=self.reactions(),
                                  closed_before=was_closed, closed_after=self.closed(), term_before=was_term, settle=res))
        return self.injected[-1]

    # -- honest continuation
    def cooperate(self):
        ''' Behave as an honest peer until nothing moves: acknowledge the endpoint's segments, answer its SESS_TERM. '''
        answered_term = False
        ack_count = 0
        for _round in range(60):
            self.settle()
            segs = [m for m in self.seen if m['type'] == 'XFER_SEGMENT']
            progress = False
            for seg in segs[ack_count:]:
                ack_count += 1
                xid = seg['transfer_id']
                self.acked[xid] = self.acked.get(xid, 0) + len(seg['data'])
                if not self.closed():
                    self.write(tw.encode(dict(type='XFER_ACK', flags=seg['flags'], transfer_id=xid, length=self.acked[xid])))
                progress = True
            terms = [m for m in self.seen if m['type'] == 'SESS_TERM']
            if terms and not answered_term and not self.closed():
                answered_term = True
                if not (terms[0]['flags'] & tw.TERM_REPLY):
                    self.write(tw.encode(dict(type='SESS_TERM', flags=tw.TERM_REPLY, reason=terms[0]['reason'])))
                progress = True
            if not progress:
                break
        self.settle()


def run_reused_done_id(role, with_open, obs):
    ''' The peer completes transfer 7 (not popped yet), optionally begins transfer 8, then sends segments naming 7 again (a START,
    then a non-START END), then finishes 8.  Out of place both; what is delivered must be exactly the honest runs. '''
    peer = Peer(role, 'idle')
    problems = []

    def seg(flags, xid, data, total=None):
        msg = dict(type='XFER_SEGMENT', flags=flags, transfer_id=xid, data=data)
        if flags & tw.FLAG_START:
            msg['ext'] = [tw.transfer_length_ext(total)]
        peer.write(tw.encode(msg))
        peer.settle()

    seg(tw.FLAG_START, 7, b'AAAA', 8)
    seg(tw.FLAG_END, 7, b'BBBB')
    want = {'7': b'AAAABBBB'}
    if with_open:
        seg(tw.FLAG_START, 8, b'CCCC', 8)
    before = peer.reactions()
    seg(tw.FLAG_START, 7, b'XXXX', 8)
    seg(tw.FLAG_END, 7, b'YYYY')
    obs['out_of_place_injected'] += 2
    if peer.reactions() > before or peer.closed():
        obs['reactions_seen'] += 1
    if with_open and not (peer.closed() or peer.terminating()):
        seg(tw.FLAG_END, 8, b'DDDD')
        want['8'] = b'CCCCDDDD'
    what = 'segments naming the completed, not yet popped transfer 7 again%s (%s endpoint)' % (' while transfer 8 is open' if with_open else '', role)
    errs = peer.sim.world.callback_errors
    if errs:
        return [('raised', 'after %s: callback %s raised %s: %s' % (what, errs[0].source, errs[0].exc_type, str(errs[0].exc)[:60]),
                 dict(msg='reused-done-id', exc_type=errs[0].exc_type))], True
    got = {}
    announced = [str(ev['args'][0]) for ev in peer.sim.hist.signals('recv_bundle_finished')]
    try:
        if not peer.closed():
            for tid in [str(x) for x in peer.end.call('recv_bundle_get_queue')]:
                got[tid] = bytes(peer.end.call('recv_bundle_pop_data', tid))
        else:
            for tid, item in list(peer.end.hdl._rx_map.items()):
                item.file.seek(0)
                got[str(tid)] = bytes(item.file.read())
    except Exception as err:  # pylint: disable=broad-except
        problems.append(('raised', 'draining the receive queue after %s failed: %s: %s' % (what, type(err).__name__, err), {}))
    obs['deliveries_checked'] += len(got)
    closed_early = (peer.closed() or peer.terminating()) and '8' not in want
    for tid, data in got.items():
        if want.get(tid) != data:
            problems.append(('mixed-data', 'after %s the receive queue holds %r for transfer %s, the honest run carried %r' % (what, data[:12], tid, want.get(tid)), {}))
    if '7' not in got:
        problems.append(('mixed-data', 'after %s the completed transfer 7 is no longer in the receive queue' % what, {}))
    if '8' in want and '8' not in got and not (peer.closed() or peer.terminating()):
        problems.append(('mixed-data', 'after %s the honest transfer 8 was not delivered although the session went on' % what, {}))
    if announced.count('7') > 1:
        problems.append(('mixed-data', 'after %s transfer 7 was announced as received %d times' % (what, announced.count('7')), {}))
    obs['reused_done_id_histories'] = obs.get('reused_done_id_histories', 0) + 1
    return problems, True


def run_sequence(role, state, names, obs, modulate=False, split=False):
    peer = Peer(role, state, modulate=modulate)
    peer.split = split
    problems = []
    # already out of place things must not have happened while reaching the state
    if peer.sim.world.callback_errors:
        return [('setup', 'callback raised while reaching state %s: %s' % (state, peer.sim.world.callback_errors[0].exc_type))], False
    own_before = None
    if state not in ('pre-contact', 'pre-init', 'terminating') and not peer.own_tids and 'own' in names:
        pass
    any_oop = False
    for name in names:
        if name == 'queue-own':
            if not peer.closed():
                try:
                    peer.queue_own()
                except Exception:  # pylint: disable=broad-except
                    pass    # refused at the boundary
                peer.settle()
            continue
        rec = peer.inject(name)
        if rec is None:
            continue
        if rec['out_of_place']:
            any_oop = True
            obs['out_of_place_injected'] += 1
        # (1) no exception escapes
        errs = peer.sim.world.callback_errors
        if errs:
            err = errs[0]
            problems.append(('raised', 'after %s in state %s (%s endpoint): callback %s raised %s: %s' % (
                name, state, role, err.source, err.exc_type, str(err.exc)[:80]), dict(msg=name, exc_type=err.exc_type)))
            break
        # (2) reaction to an out-of-place message
        if rec['out_of_place'] and not rec['closed_before']:
            reacted = rec['reactions_after'] > rec['reactions_before'] or rec['closed_after']
            if reacted:
                obs['reactions_seen'] += 1
            else:
                problems.append(('no-reaction', 'out-of-place %s in state %s (%s endpoint) got no MSG_REJECT, SESS_TERM or closure' % (
                    name, state, role), dict(msg=name)))
        if rec['settle'] != 'quiescent':
            problems.append(('budget', 'loop not quiescent after %s' % name, {}))
            break
    if not problems:
        # (3) delivered data == complete single-id runs, in order
        delivered = []
        if not peer.sim.world.callback_errors:
            try:
                if peer.end.hdl._locations:
                    for tid in list(peer.end.call('recv_bundle_get_queue')):
                        delivered.append(bytes(peer.end.call('recv_bundle_pop_data', str(tid))))
                else:
                    # the contact has closed and left the bus; what it had announced as received is read from the object
                    for item in list(peer.end.hdl._rx_map.values()):
                        item.file.seek(0)
                        delivered.append(bytes(item.file.read()))
            except Exception as err:  # pylint: disable=broad-except
                problems.append(('raised', 'draining the receive queue failed: %s: %s' % (type(err).__name__, err), {}))
        obs['deliveries_checked'] += len(delivered)
        if delivered != peer.completed_rx[:len(delivered)] or len(delivered) > len(peer.completed_rx):
            problems.append(('mixed-data', 'receive queue holds %s, complete single-transfer runs injected were %s' % (
                [item[:12] for item in delivered], [item[:12] for item in peer.completed_rx]), {}))
        # (4) own transfers unaffected
        legal_end = peer.closed() or peer.terminating()
        if not legal_end and not peer.sent_sess_init:
            # the peer now behaves: it completes the negotiation
            if not peer.sent_contact:
                peer.write(tw.encode(dict(type='contact', flags=0)))
                peer.sent_contact = True
                peer.settle()
            peer.write(tw.encode(dict(type='SESS_INIT', keepalive=0, segment_mru=2 ** 20, transfer_mru=2 ** 30, nodeid=b'dtn://peer/', ext=[])))
            peer.sent_sess_init = True
            peer.settle()
            legal_end = peer.closed() or peer.terminating()
        if not legal_end and peer.sent_sess_init:
            if not peer.own_tids:
                peer.queue_own()
            peer.cooperate()
            errs = peer.sim.world.callback_errors
            if errs:
                problems.append(('raised', 'while the peer cooperated: callback %s raised %s: %s' % (errs[0].source, errs[0].exc_type, str(errs[0].exc)[:80]),
                                 dict(exc_type=errs[0].exc_type)))
            else:
                fins = {}
                for ev in peer.sim.hist.signals('send_bundle_finished'):
                    fins.setdefault(str(ev['args'][0]), []).append(ev['args'][2])
                refused = set(str(rec['msg']['transfer_id']) for rec in peer.injected if rec['msg']['type'] == 'XFER_REFUSE' and not rec['out_of_place'])
                for tid in peer.own_tids:
                    res = fins.get(tid)
                    if res is not None and len(res) > 1:
                        problems.append(('own-transfer', 'own transfer %s was reported finished %d times (%s)' % (tid, len(res), res), {}))
                    if tid in refused:
                        continue
                    if not (peer.closed() or peer.terminating()) and res != ['success']:
                        problems.append(('own-transfer', 'own transfer %s did not complete after the burst (result %s) although the peer '
                                         'acknowledged every segment; endpoint state %s' % (tid, res, peer.end.state()), {}))
                    elif res == ['success']:
                        obs['own_transfers_completed'] += 1
    return problems, any_oop


def run_givenup(role, how, extra, probe, obs):
    ''' Own bundles given up because termination began before they were started: their ids are no transfers of the
    session any more, so an ACK or refusal naming one is about an unknown transfer. '''
    peer = Peer(role, 'idle')
    problems = []
    first = peer.queue_own()
    peer.settle()
    others = []
    for _ in range(extra):
        others.append(peer.queue_own())     # the loop does not run in between: they wait behind the first
    if how == 'peer':
        peer.write(tw.encode(dict(type='SESS_TERM', flags=0, reason=0)))
    else:
        peer.end.call('terminate', dbus.Byte(0))
    peer.settle()
    if peer.sim.world.callback_errors:
        err = peer.sim.world.callback_errors[0]
        return [('raised', 'callback %s raised %s while termination began' % (err.source, err.exc_type), dict(exc_type=err.exc_type))], False
    started = set(str(m['transfer_id']) for m in peer.seen if m['type'] == 'XFER_SEGMENT' and m['flags'] & tw.FLAG_START)
    fins = {}
    for ev in peer.sim.hist.signals('send_bundle_finished'):
        fins.setdefault(str(ev['args'][0]), []).append(str(ev['args'][2]))
    given_up = [tid for tid in others if tid not in started and fins.get(tid)]
    any_oop = False
    for tid in given_up + ['4242']:
        for kind in probe:
            if peer.closed():
                break
            if kind == 'refuse':
                msg = dict(type='XFER_REFUSE', reason=2, transfer_id=int(tid))
            else:
                flags = dict(ack=0, ackstart=tw.FLAG_START, ackend=tw.FLAG_START | tw.FLAG_END)[kind]
                msg = dict(type='XFER_ACK', flags=flags, transfer_id=int(tid), length=5)
            before = peer.reactions()
            rejects_before = sum(1 for m in peer.seen if m['type'] == 'MSG_REJECT')
            peer.write(tw.encode(msg))
            peer.settle()
            any_oop = True
            obs['out_of_place_injected'] += 1
            what = '%s naming %s in a terminating session (%s endpoint, termination begun by %s, %d bundle(s) given up behind the one in flight)' % (
                msg['type'], 'given-up transfer ' + tid if tid in given_up else 'an id never used', role, how, len(given_up))
            errs = peer.sim.world.callback_errors
            if errs:
                problems.append(('raised', 'after %s: callback %s raised %s: %s' % (what, errs[0].source, errs[0].exc_type, str(errs[0].exc)[:60]),
                                 dict(msg=kind, exc_type=errs[0].exc_type)))
                return problems, any_oop
            if peer.reactions() > before or peer.closed():
                obs['reactions_seen'] += 1
            else:
                problems.append(('no-reaction', '%s got no MSG_REJECT, SESS_TERM or closure' % what, dict(msg=kind)))
    # the transfer in flight is unaffected: the honest peer acknowledges it and the session closes
    peer.cooperate()
    errs = peer.sim.world.callback_errors
    if errs:
        problems.append(('raised', 'while the peer cooperated: callback %s raised %s' % (errs[0].source, errs[0].exc_type), dict(exc_type=errs[0].exc_type)))
    else:
        fins = {}
        for ev in peer.sim.hist.signals('send_bundle_finished'):
            fins.setdefault(str(ev['args'][0]), []).append(str(ev['args'][2]))
        if fins.get(first) == ['success']:
            obs['own_transfers_completed'] += 1
        elif first in started:
            problems.append(('own-transfer', 'the transfer in flight (%s) ended with %s although the peer acknowledged every segment' % (first, fins.get(first)), {}))
        obs['deliveries_checked'] += 1
    return problems, any_oop


def run_early_ack(role, extra, flags, obs):
    ''' An XFER_ACK that acknowledges (to its end) an own bundle of which nothing has been sent yet: it waits in the queue behind
    one that is in flight.  Out of place; the queued transfers must be unaffected (sent and finished once, later, as usual). '''
    peer = Peer(role, 'idle')
    problems = []
    first = peer.queue_own()
    peer.settle()
    others = [peer.queue_own() for _ in range(extra)]     # the loop does not run in between
    victim = others[-1]
    before = peer.reactions()
    peer.write(tw.encode(dict(type='XFER_ACK', flags=flags, transfer_id=int(victim), length=OWN_LEN)))
    peer.settle()
    obs['out_of_place_injected'] += 1
    what = 'XFER_ACK (flags %d) for own transfer %s of which nothing had been sent (%s endpoint, %d queued behind the one in flight)' % (
        flags, victim, role, extra)
    errs = peer.sim.world.callback_errors
    if errs:
        return [('raised', 'after %s: callback %s raised %s: %s' % (what, errs[0].source, errs[0].exc_type, str(errs[0].exc)[:60]),
                 dict(msg='early-ack', exc_type=errs[0].exc_type))], True
    # (the id is known, so the statement's "unknown transfer" reaction is not demanded: only no exception and unaffected transfers)
    if peer.reactions() > before or peer.closed():
        obs['reactions_seen'] += 1
    if not (peer.closed() or peer.terminating()):
        peer.cooperate()
        errs = peer.sim.world.callback_errors
        if errs:
            problems.append(('raised', 'while the peer cooperated after %s: callback %s raised %s' % (what, errs[0].source, errs[0].exc_type),
                             dict(exc_type=errs[0].exc_type)))
        else:
            fins = {}
            for ev in peer.sim.hist.signals('send_bundle_finished'):
                fins.setdefault(str(ev['args'][0]), []).append(str(ev['args'][2]))
            # "success" means sent: the signal cannot come before the transfer's last segment was written
            raw = peer.end_sock.tx.all_bytes()
            end_written = {}
            for (msg, end) in tw.parse_stream(raw)[0]:
                if msg['type'] == 'XFER_SEGMENT' and msg['flags'] & tw.FLAG_END:
                    for (event_no, _vt, offset, chunk) in peer.end_sock.tx.log:
                        if offset + len(chunk) >= end:
                            end_written[str(msg['transfer_id'])] = event_no
                            break
            for ev in peer.sim.hist.signals('send_bundle_finished'):
                tid = str(ev['args'][0])
                if str(ev['args'][2]) == 'success' and ev['no'] < end_written.get(tid, 1 << 62):
                    problems.append(('own-transfer', 'after %s: own transfer %s was reported finished with success before its last segment had been written' % (what, tid), {}))
            for tid in [first] + others:
                if fins.get(tid) == ['success']:
                    obs['own_transfers_completed'] += 1
                elif not (peer.closed() or peer.terminating()):
                    problems.append(('own-transfer', 'after %s: own transfer %s finished with %s although the peer then acknowledged every segment' % (
                        what, tid, fins.get(tid)), {}))
            obs['deliveries_checked'] += 1
    return problems, True


def run_partial_ack(role, flags, obs, steps=4):
    ''' The endpoint's own bundle is partly on the wire (the peer has stopped reading, the rest waits) when the peer acknowledges it
    to its end, with the total length it learned from the START segment.  The transfer is not over: no success before its last
    segment is written; once the peer reads and acknowledges honestly it completes exactly once. '''
    peer = Peer(role, 'idle')
    total = 400
    tid = peer.queue_own(total)
    # the event loop gets a few turns only: some segments have been produced, the transfer is still in progress
    prev = peer.sim.allow_time
    peer.sim.allow_time = False
    try:
        peer.sim.run(steps)
    finally:
        peer.sim.allow_time = prev
    peer._read()
    segs = [m for m in peer.seen if m['type'] == 'XFER_SEGMENT']
    if peer.end.hdl._tx_tmp is None or any(m['flags'] & tw.FLAG_END for m in segs):
        return [], False      # (already produced to its end, or not started: not the history this is about)
    peer.write(tw.encode(dict(type='XFER_ACK', flags=flags, transfer_id=int(tid), length=total)))
    peer.settle()
    obs['out_of_place_injected'] += 1
    what = 'XFER_ACK (flags %d, length = the announced total) for own transfer %s of which %d of %d octets were on the wire (%s endpoint)' % (
        flags, tid, sum(len(m['data']) for m in segs), total, role)
    problems = []
    errs = peer.sim.world.callback_errors
    if errs:
        return [('raised', 'after %s: callback %s raised %s' % (what, errs[0].source, errs[0].exc_type), dict(exc_type=errs[0].exc_type))], True
    early = [ev for ev in peer.sim.hist.signals('send_bundle_finished') if str(ev['args'][0]) == tid and str(ev['args'][2]) == 'success']
    if early:
        problems.append(('own-transfer', 'after %s: the transfer was reported finished with success although its last segment had not been written' % what, {}))
        return problems, True
    obs['reactions_seen'] += 1
    if not (peer.closed() or peer.terminating()):
        peer.cooperate()
        fins = [str(ev['args'][2]) for ev in peer.sim.hist.signals('send_bundle_finished') if str(ev['args'][0]) == tid]
        if peer.sim.world.callback_errors:
            problems.append(('raised', 'while the peer cooperated after %s: callback raised %s' % (what, peer.sim.world.callback_errors[0].exc_type), {}))
        elif not (peer.closed() or peer.terminating()) and fins != ['success']:
            problems.append(('own-transfer', 'after %s the peer read and acknowledged every segment, but the transfer finished with %s' % (what, fins), {}))
        else:
            obs['own_transfers_completed'] += 1
            obs['deliveries_checked'] += 1
    return problems, True


def _state_alphabet(state):
    base = ['seg-whole', 'seg-start', 'seg-mid-current', 'seg-end-current', 'seg-mid-other', 'seg-end-other', 'ack-unknown', 'ack-unknown-end',
            'refuse-unknown', 'refuse-id1', 'seg-mid-zero', 'seg-end-zero', 'sess-term', 'sess-term-reply', 'sess-init-again', 'keepalive', 'msg-reject', 'unknown-type', 'unknown-type-ff', 'unknown-type-00', 'unknown-type-08']
    if state == 'pre-contact':
        return ['contact-bad-magic', 'contact-bad-version', 'contact-bad-version-7', 'contact-bad-magic+good', 'contact-v3+good', 'contact-bad-magic+good+init']
    if state == 'own-unacked':
        return base + ['ack-own-first', 'refuse-own']
    return base


def cases(tier, seed):
    out = []
    thorough = tier == 'thorough'
    for role in ('passive', 'active'):
        for state in STATES:
            alpha = _state_alphabet(state)
            seqs = [(name,) for name in alpha] + list(itertools.product(alpha, repeat=2))
            if thorough and state != 'pre-contact':
                reduced = [name for name in alpha if name not in ('seg-end-other', 'seg-end-zero', 'ack-unknown-end', 'unknown-type-ff', 'unknown-type-08', 'msg-reject')]
                seqs += list(itertools.product(reduced, repeat=3))
            block = 40
            for idx in range(0, len(seqs), block):
                out.append(dict(id='seq-%s-%s-%d' % (role, state, idx), kind='seqs', role=role, state=state,
                                seqs=[list(item) for item in seqs[idx:idx + block]]))
    # bundles handed over while the session is still negotiating, then an early message about them
    for role in ('passive', 'active'):
        seqs = [['queue-own', name] for name in ('refuse-id1', 'ack-unknown', 'seg-whole', 'sess-term', 'keepalive')] + \
               [['queue-own', 'queue-own', 'refuse-id1', 'refuse-id1']]
        for state in ('pre-contact', 'pre-init'):
            out.append(dict(id='early-%s-%s' % (role, state), kind='seqs', role=role, state=state, seqs=seqs))
    # the same alphabet with the adaptive segment size switched on (another path through the ACK handler)
    for role in ('passive', 'active'):
        for state in ('idle', 'own-unacked', 'receiving'):
            alpha = _state_alphabet(state)
            seqs = [(name,) for name in alpha] + ([(one, two) for one in alpha for two in ('ack-unknown', 'ack-unknown-end', 'seg-whole')] if thorough else [])
            for idx in range(0, len(seqs), 40):
                out.append(dict(id='mod-%s-%s-%d' % (role, state, idx), kind='seqs', role=role, state=state, modulate=True,
                                seqs=[list(item) for item in seqs[idx:idx + 40]]))
    for role in ('passive', 'active'):
        for how in ('peer', 'own'):
            out.append(dict(id='givenup-%s-%s' % (role, how), kind='givenup', role=role, how=how))
    # the one state that only a secured session can reach: the peer's SESS_INIT was refused (contact failure), the endpoint waits for
    # the SESS_TERM reply; segments sent then are before-the-session messages (the C15 harness with its TLS layer is reused)
    out.append(dict(id='after-refusal', kind='refused'))
    for idx in range(9000 if thorough else 24):
        out.append(dict(id='rand-%d' % idx, kind='rand', seed=seed * 7477 + idx, count=25))
    return out


def classify(kind, text, extra):
    return None


def run_case(case):
    obs = dict(sequences=0, out_of_place_injected=0, reactions_seen=0, own_transfers_completed=0, deliveries_checked=0)
    violations = []
    classes = set()
    sample = None
    items = []
    modulate = bool(case.get('modulate'))
    if case['kind'] == 'seqs':
        items = [(case['role'], case['state'], seq) for seq in case['seqs']]
    elif case['kind'] == 'rand':
        rng = random.Random(case['seed'])
        for _ in range(case['count']):
            state = rng.choice(STATES[1:])
            alpha = _state_alphabet(state) + ['queue-own']
            items.append((rng.choice(['passive', 'active']), state, [rng.choice(alpha) for _ in range(rng.randint(3, 12))]))
    if case['kind'] == 'refused':
        from vf.props import c15
        import collections
        obs15 = collections.defaultdict(int)
        for naming in ('passive', 'active-addr'):
            for (ip, dns, uri, req_node) in (('match', 'absent', 'mismatch', False), ('match', 'absent', 'absent', True), ('mismatch', 'absent', 'match', False)):
                row = dict(local_can=True, peer_can=True, require=None, hs_ok=True, naming=naming, ip=ip, dns=dns, uri=uri, req_host=False, req_node=req_node)
                problems15, _want = c15.run_row(row, obs15)
                obs['sequences'] += 1
                obs['out_of_place_injected'] += 1
                classes.add('refused|%s|%s|%s|%s' % (naming, ip, uri, req_node))
                for (kind, text, _detail) in problems15:
                    if kind in ('leak', 'raised'):
                        violations.append(dict(key=None, what='[%s] after a refused SESS_INIT (%s): %s' % (kind, c15._short(row), text), detail=dict(row=c15._short(row))))
        obs['reactions_seen'] += obs15.get('contact_failures', 0)
    if case['kind'] == 'givenup' and case['how'] == 'own':
        for flags in (tw.FLAG_END, tw.FLAG_START | tw.FLAG_END):
            for steps in (1, 2, 3, 5, 8, 13):
                items.append((case['role'], 'partialack:%d:%d' % (flags, steps), []))
    if case['kind'] == 'givenup' and case['how'] == 'peer':
        for extra in (1, 2, 3):
            for flags in (tw.FLAG_END, tw.FLAG_START | tw.FLAG_END, 0, tw.FLAG_START):
                items.append((case['role'], 'earlyack:%d:%d' % (extra, flags), []))
        for with_open in (0, 1):
            items.append((case['role'], 'reuseddone:%d' % with_open, []))
    if case['kind'] == 'givenup':
        for extra in (0, 1, 2, 3):
            for probe in (['refuse'], ['ack'], ['ackstart'], ['ackend'], ['ack', 'refuse', 'refuse']):
                items.append((case['role'], 'givenup:%s:%d' % (case['how'], extra), probe))
    for (role, state, seq) in items:
        if state.startswith('partialack:'):
            problems, any_oop = run_partial_ack(role, int(state.split(':')[1]), obs, steps=int(state.split(':')[2]))
            obs['partial_ack_histories'] = obs.get('partial_ack_histories', 0) + (1 if any_oop else 0)
        elif state.startswith('reuseddone:'):
            problems, any_oop = run_reused_done_id(role, bool(int(state.split(':')[1])), obs)
        elif state.startswith('earlyack:'):
            problems, any_oop = run_early_ack(role, int(state.split(':')[1]), int(state.split(':')[2]), obs)
        elif state.startswith('givenup:'):
            problems, any_oop = run_givenup(role, state.split(':')[1], int(state.split(':')[2]), seq, obs)
        else:
            problems, any_oop = run_sequence(role, state, seq, obs, modulate=modulate)
            import zlib
            if not problems and zlib.crc32(repr((role, state, seq)).encode()) % 4 == 0:
                # the same sequence with every message written in two pieces (type octet, then the rest): the reaction obligations are the same
                problems, _oop = run_sequence(role, state, seq, obs, modulate=modulate, split=True)
                problems = [(kind, '[each message written as type octet + rest] ' + text, extra) for (kind, text, extra) in problems]
                obs['split_sequences'] = obs.get('split_sequences', 0) + 1
        obs['sequences'] += 1
        if any_oop:
            classes.add('%s|%s|%s|%s' % (role, state, ','.join(seq), modulate))
        if sample is None and any_oop:
            sample = dict(role=role, state=state, sequence=seq)
        for (kind, text, extra) in problems:
            violations.append(dict(key=classify(kind, text, extra), what='[%s] %s' % (kind, text),
                                   detail=dict(role=role, state=state, sequence=seq)))
    uniq = {}
    for viol in violations:
        uniq.setdefault((viol['key'], viol['what'][:70]), viol)
    violations = list(uniq.values())[:16]
    return dict(verdict='violated' if violations else 'held', nontrivial=bool(classes), cls=classes, obs=obs,
                violations=violations, sample=sample, evaluations=len(items))
