''' C19 -- status reports are sent exactly when requested and say what happened.

Monitor: administrative-record bundles at the CL observer of a real
``bp.agent.Agent`` after each processed bundle (loop quiescent).

Oracle: reference expectation model -- report iff report-to != dtn:none and
(requested AND occurred) is non-empty; addressed to report-to; subject = source
+ creation timestamp; asserted set = requested AND occurred; times iff
requested; administrative flag, valid CRCs, no report-request flags; never
"deleted" for a bundle that was forwarded whole or as fragments.
'''
import itertools
import random

from vf.oracles import bpv7
from vf.oracles import cbor_walk as cw

PROPERTY_ID = 'C19'
RULE = ('the full product of 2^5 request-flag subsets (reception, forwarding, delivery, deletion, status-time) x report-to in '
        '{dtn:none, this node, another node} x outcome in {deliver by route, deliver to administrative endpoint, forward, '
        'forward with fragmentation, delete route, no route, security failure, duplicate} x CRC types, each on a fresh real '
        'agent; thorough adds seeded variation of identities, payloads and block sets. Non-trivial = a combination in which '
        'a report was expected or one was observed; distinct = distinct (flags, report-to, outcome, crc, variant).')
ASSUMPTIONS = [
    'vf/oracles/bpv7.py decodes reports handed to the CL',
    'for the outcomes "no route" and "duplicate" the agent performs no action beyond reception bookkeeping; there only the "only if" direction and report content are enforced (see DESIGN.md C19)',
]
DECIDING = ['bp.util:BundleContainer.create_report', 'bp.agent:Agent._finish_bundle', 'bp.agent:Agent._do_fwd',
            'bp.agent:Agent.recv_bundle', 'bp.app.fragment:Fragment._create']
REQUIRED_OBS = ['stack_report_obligations', 'combinations', 'reports_expected', 'reports_checked', 'no_report_expected', 'forwards_sent_as_fragments']
RULE = RULE + " Whole-stack runs (vf.stack): three hosts X-Y-Z, each a real BP agent bound through bp/cla.py and the in-process bus to real UDPCL/TCPCL agents over the simulated network (datagrams reordered and duplicated, BP and UDPCL MTUs, 2-14 bundles with report requests per scenario); judged per node, conditional on what the node's adaptor popped and what the agent handed to the adaptor's sender; the stack_* counters say what was compared."

NODE = 'dtn://me/'
OUTCOMES = ['deliver', 'deliver-admin', 'forward', 'forward-frag', 'delete', 'no-route', 'security', 'duplicate', 'forward-fail', 'forward-frag-fail', 'security-bcb',
            'forward-cl-missing', 'forward-cl-raises']
REQ_BITS = [('received', bpv7.FLAG_REQ_RECEPTION), ('forwarded', bpv7.FLAG_REQ_FORWARDING),
            ('delivered', bpv7.FLAG_REQ_DELIVERY), ('deleted', bpv7.FLAG_REQ_DELETION)]
OCCURRED = {
    'deliver': {'received', 'delivered'},
    'deliver-admin': {'received', 'delivered'},
    'forward': {'received', 'forwarded'},
    'forward-frag': {'received', 'forwarded'},
    'delete': {'received', 'deleted'},
    'security': {'received', 'deleted'},
    'security-bcb': {'received', 'deleted'},   # a confidentiality block that cannot be processed
    'no-route': {'received'},
    'forward-fail': {'received', 'deleted'},   # routed for forwarding, but no transmit route: nothing was forwarded
    'forward-frag-fail': {'received', 'deleted'},   # the route's MTU cannot even hold the blocks without payload: nothing leaves
    'duplicate': set(),
    # a transmit route exists, but the convergence layer it names is not attached / its sender fails: nothing was forwarded
    'forward-cl-missing': {'received', 'deleted'},
    'forward-cl-raises': {'received', 'deleted'},
}
DEST = {
    'deliver': 'dtn://me/app', 'deliver-admin': NODE, 'forward': 'dtn://fwd/app', 'forward-frag': 'dtn://frag/app',
    'delete': 'dtn://del/app', 'no-route': 'dtn://nowhere/app', 'forward-fail': 'dtn://lost/app', 'forward-frag-fail': 'dtn://tiny/app', 'security': 'dtn://me/app', 'security-bcb': 'dtn://me/app', 'duplicate': 'dtn://me/app',
    'forward-cl-missing': 'dtn://nocl/app', 'forward-cl-raises': 'dtn://badcl/app',
}


def _all_combos():
    out = []
    for mask in range(32):
        for report_to in ('dtn:none', NODE, 'dtn://rep/r'):
            for outcome in OUTCOMES:
                for crc in (0, 1, 2):
                    out.append(dict(mask=mask, report_to=report_to, outcome=outcome, crc=crc))
    # the same with a route towards the report-to endpoint whose MTU is smaller than a status report (the report is fragmented)
    for mask in (1, 4, 8, 15, 31):
        for outcome in OUTCOMES:
            out.append(dict(mask=mask, report_to='dtn://rep/r', outcome=outcome, crc=(mask % 3), report_mtu=True))
    # endpoint ids whose demux holds '?' and '#' (the report must name exactly that subject and go to exactly that endpoint)
    for mask in (1, 2, 4, 8, 15, 31):
        for outcome in OUTCOMES:
            for crc in (0, 1):
                out.append(dict(mask=mask, report_to='dtn://rep/mon?chan=2', outcome=outcome, crc=crc, odd_src='dtn://src/app?inst=7#a'))
    return out


def cases(tier, seed):
    combos = _all_combos()
    out = []
    block = 48
    for idx in range(0, len(combos), block):
        out.append(dict(id='combo-%d' % idx, start=idx, stop=idx + block, variants=(160 if tier == 'thorough' else 1), seed=seed))
    out.append(dict(id='frag-history', kind='frag-history', start=0, stop=0, variants=1, seed=seed))
    from vf import stackcases  # pylint: disable=import-outside-toplevel
    stackcases.add_cases(out, tier, seed)
    return out


def _bad_bib():
    ''' A Block Integrity Block naming an unknown security context (so verification must fail). '''
    return cw.enc([1]) + cw.enc(9999) + cw.enc(0) + cw.enc([1, '//sec-src/']) + cw.enc([[[1, b'\x00']]])


def build(combo, rng, variant):
    flags = 0
    for idx, (_name, bit) in enumerate(REQ_BITS):
        if combo['mask'] & (1 << idx):
            flags |= bit
    if combo['mask'] & 16:
        flags |= bpv7.FLAG_REQ_STATUS_TIME
    crc = combo['crc']
    plen = 40 if variant == 0 else rng.choice([0, 1, 40, 300])
    blocks = []
    if combo['outcome'] == 'security':
        blocks.append(dict(type=11, num=3, flags=0, crc_type=crc, data=_bad_bib(), crc=None))
    if combo['outcome'] == 'security-bcb':
        blocks.append(dict(type=12, num=3, flags=0, crc_type=crc, data=_bad_bib() if (combo['mask'] + crc) % 2 else b'\x9f\xff\x00', crc=None))
    if variant and rng.random() < 0.5:
        blocks.append(dict(type=10, num=7, flags=0, crc_type=crc, data=cw.enc([30, 1]), crc=None))
    elif not variant and (combo['mask'] + crc) % 4 == 1:
        # a hop count already at its limit (this implementation does not enforce the limit: the bundle goes where its route says,
        # and the report must say what happened to it)
        blocks.append(dict(type=10, num=7, flags=0, crc_type=crc, data=cw.enc([[4, 4], [0, 0], [4, 9]][combo['mask'] % 3]), crc=None))
    if (combo['mask'] + crc) % 3 == 2 and combo['outcome'] in ('deliver', 'forward', 'deliver-admin'):
        # an extension block of a type this node does not implement, with processing-control flags set (delete the bundle / report /
        # discard the block if it cannot be processed): whatever the node does about it, the report says what happened to the bundle
        blocks.append(dict(type=201, num=12, flags=[0x04, 0x02, 0x10, 0x06][(combo['mask'] // 3) % 4], crc_type=crc, data=b'\x01\x02', crc=None))
    if combo['outcome'] == 'forward-frag':
        plen = max(plen, 300)
    blocks.append(dict(type=1, num=1, flags=0, crc_type=crc, data=bytes((i * 13 + 5) & 0xFF for i in range(plen)), crc=None))
    src = 'dtn://src/app' if variant == 0 else rng.choice(['dtn://src/app', 'ipn:77.3', 'dtn://src/'])
    src = combo.get('odd_src', src)
    clockless = (combo['mask'] + combo['crc'] + variant) % 5 == 0
    if clockless:
        # the subject comes from a source without a clock: creation time 0, its age in a Bundle Age block
        blocks.insert(0, dict(type=7, num=9, flags=0, crc_type=crc, data=cw.enc(1000), crc=None))
    pri = dict(version=7, flags=flags, crc_type=crc, dest=DEST[combo['outcome']], src=src, report_to=combo['report_to'],
               create_time=0 if clockless else 820540000000 + (variant * 17), seqno=(variant + 3) if variant == 0 else rng.choice([0, 5, 2 ** 32]),
               lifetime=3600000, frag_offset=None, total_adu_len=None, crc=None)
    return dict(primary=pri, blocks=blocks)


def expected(combo):
    requested = {name for idx, (name, _bit) in enumerate(REQ_BITS) if combo['mask'] & (1 << idx)}
    asserted = requested & OCCURRED[combo['outcome']]
    want = bool(asserted) and combo['report_to'] != 'dtn:none'
    return want, asserted, bool(combo['mask'] & 16)


def check_combo(combo, bundle, obs):
    from vf.world.sim import Sim
    from vf import bp_harness as bh
    sim = Sim(0, 'eager')
    enc = bpv7.encode(bundle)
    node = bh.BpNode(sim, NODE, rx_routes=[(r'dtn://me/.*', 'deliver'), (r'dtn://fwd/.*', 'forward'), (r'dtn://frag/.*', 'forward'),
                                           (r'dtn://del/.*', 'delete'), (r'dtn://lost/.*', 'forward'), (r'dtn://tiny/.*', 'forward'),
                                           (r'dtn://nocl/.*', 'forward'), (r'dtn://badcl/.*', 'forward')],
                     tx_routes=([dict(pattern=r'dtn://rep/.*', mtu=80, raw={'r': 'rep-small'})] if combo.get('report_mtu') else []) +
                     [dict(pattern=r'dtn://frag/.*', mtu=max(120, len(enc) - 150), raw={'r': 'frag'}),
                                dict(pattern=r'dtn://tiny/.*', mtu=40, raw={'r': 'tiny'}),
                                dict(pattern=r'dtn://nocl/.*', cl='nosuch', raw={'r': 'nocl'}),
                                dict(pattern=r'(?!dtn://lost/).*', raw={'r': 'any'})])
    problems = []
    detail = dict(received=enc.hex()[:400], combo=combo)
    if combo['outcome'] == 'duplicate':
        node.recv(enc)
        sim.settle(5000)
        del node.cl.sent[:]
    if combo['outcome'] == 'forward-cl-raises':
        node.cl.fail_next = 1
    err = node.recv(enc)
    res = sim.settle(20000)
    if combo['outcome'] == 'forward-cl-raises' and node.cl.fail_next:
        problems.append(('harness', 'the simulated convergence-layer failure was not consumed by the forward'))
    if err is not None:
        problems.append(('raised', 'receive callback raised %s: %s' % (type(err).__name__, err)))
    if sim.world.callback_errors:
        problems.append(('raised', 'loop callback raised %s: %s' % (sim.world.callback_errors[0].exc_type, sim.world.callback_errors[0].exc)))
    reports, others = [], []
    for (_no, raw, data) in node.cl.sent:
        try:
            dec, probs = bpv7.decode(data)
        except bpv7.DecodeError as derr:
            others.append(('undecodable', str(derr)))
            continue
        if dec['primary']['flags'] & bpv7.FLAG_ADMIN:
            reports.append((dec, probs, data))
        else:
            others.append((dec, probs))
    # a report that itself had to be fragmented on its way out (small MTU towards the report-to endpoint): put it together again;
    # every octet of it must have left exactly once
    frag_reports = [item for item in reports if item[0]['primary']['flags'] & bpv7.FLAG_IS_FRAGMENT]
    if frag_reports:
        reports = [item for item in reports if not item[0]['primary']['flags'] & bpv7.FLAG_IS_FRAGMENT]
        groups = {}
        for (dec, probs, data) in frag_reports:
            groups.setdefault(bpv7.ident(dec)[:3], []).append((dec, probs, data))
        for ident, items in groups.items():
            total = items[0][0]['primary']['total_adu_len']
            buf = bytearray(total)
            covered = set()
            for (dec, probs, _data) in items:
                off = dec['primary']['frag_offset']
                pay = bpv7.payload_of(dec)['data']
                span = set(range(off, off + len(pay)))
                if span & covered:
                    problems.append(('count', 'octets [%d,%d) of a fragmented status report were transmitted more than once (%d fragment bundles for one report)' % (
                        off, off + len(pay), len(items))))
                    break
                covered |= span
                buf[off:off + len(pay)] = pay
            if covered == set(range(total)):
                obs['fragmented_reports_reassembled'] = obs.get('fragmented_reports_reassembled', 0) + 1
                whole = dict(primary=dict(items[0][0]['primary'], flags=items[0][0]['primary']['flags'] & ~bpv7.FLAG_IS_FRAGMENT, frag_offset=None, total_adu_len=None),
                             blocks=[dict(bpv7.payload_of(items[0][0]), data=bytes(buf))])
                reports.append((whole, [], b''))
            elif not any(kind == 'count' for (kind, _t) in problems):
                problems.append(('malformed', 'fragments of a status report cover %d of %d octets' % (len(covered), total)))
    want, asserted, want_time = expected(combo)
    obs['combinations'] += 1
    loose = combo['outcome'] in ('no-route', 'duplicate')
    if want and not loose:
        obs['reports_expected'] += 1
    if not want:
        obs['no_report_expected'] += 1
    if combo['outcome'] == 'forward-frag':
        frags = [item for item in others if item[0] != 'undecodable' and item[0]['primary']['flags'] & bpv7.FLAG_IS_FRAGMENT]
        detail['fragments_sent'] = len(frags)
        detail['non_fragment_outputs'] = len(others) - len(frags)
        if len(frags) >= 2 and len(others) == len(frags):
            obs['forwards_sent_as_fragments'] += 1
        else:
            problems.append(('frag', 'outcome forward-with-fragmentation produced %d fragments and %d other outputs' % (len(frags), len(others) - len(frags))))
    if len(reports) > 1:
        problems.append(('count', '%d status reports for one processed bundle' % len(reports)))
    if not want and reports:
        problems.append(('unrequested', 'a status report was emitted although %s' % (
            'report-to is dtn:none' if combo['report_to'] == 'dtn:none' else 'no requested action occurred')))
    if want and not reports and not loose:
        problems.append(('missing', 'no status report although %s was requested and occurred' % sorted(asserted)))
    for (dec, probs, data) in reports[:1]:
        obs['reports_checked'] += 1
        for item in probs:
            problems.append(('malformed', 'report bundle not well-formed: %s' % item))
        pri = dec['primary']
        if not pri['crc_type'] and not any(blk['type'] == 11 for blk in dec['blocks']):
            # RFC 9171 4.3.1: the primary block carries a CRC unless an integrity block covers it; a report without one has no
            # valid CRC to show
            problems.append(('crc', 'the report leaves without any CRC on its primary block (subject primary CRC type %d)' % combo['crc']))
        if pri['dest'] != combo['report_to']:
            problems.append(('dest', 'report addressed to %r, report-to is %r' % (pri['dest'], combo['report_to'])))
        req_bits = bpv7.FLAG_REQ_RECEPTION | bpv7.FLAG_REQ_FORWARDING | bpv7.FLAG_REQ_DELIVERY | bpv7.FLAG_REQ_DELETION
        if pri['flags'] & req_bits:
            problems.append(('recursive', 'the report itself requests status reports (flags 0x%x)' % pri['flags']))
        if pri['report_to'] not in ('dtn:none',) and pri['flags'] & req_bits:
            problems.append(('recursive', 'report has report-to %r with request flags' % pri['report_to']))
        try:
            rec = bpv7.decode_admin_record(bpv7.payload_of(dec)['data'])
        except (bpv7.DecodeError, TypeError) as derr:
            problems.append(('malformed', 'report payload is not a status report: %s' % derr))
            continue
        if rec['record_type'] != 1:
            problems.append(('malformed', 'administrative record type %r' % rec['record_type']))
            continue
        subj = (rec['subj_src'], rec['subj_time'], rec['subj_seqno'])
        want_subj = (bundle['primary']['src'], bundle['primary']['create_time'], bundle['primary']['seqno'])
        if subj != want_subj:
            problems.append(('subject', 'report subject %r, bundle is %r' % (subj, want_subj)))
        names = ['received', 'forwarded', 'delivered', 'deleted']
        got_asserted = {name for name, (flag, _when) in zip(names, rec['status']) if flag}
        if loose:
            requested = {name for idx, (name, _bit) in enumerate(REQ_BITS) if combo['mask'] & (1 << idx)}
            if not got_asserted <= (requested & {'received'}):
                problems.append(('asserted', 'report asserts %s for a bundle that was only received' % sorted(got_asserted)))
        elif got_asserted != asserted:
            problems.append(('asserted', 'report asserts %s, requested-and-occurred is %s' % (sorted(got_asserted), sorted(asserted))))
        if combo['outcome'] in ('forward', 'forward-frag') and 'deleted' in got_asserted:
            detail['forwarded_reported_deleted'] = True
        for name, (flag, when) in zip(names, rec['status']):
            if flag and want_time and when is None:
                problems.append(('time', 'status time requested but assertion %s has none' % name))
            if when is not None and not (flag and want_time):
                problems.append(('time', 'assertion %s carries a time although %s' % (name, 'not asserted' if not flag else 'not requested')))
    if res != 'quiescent':
        problems.append(('budget', 'loop not quiescent: %s' % res))
    return problems, detail, bool(want or reports)


def classify(kind, combo, detail):
    return None


def fragment_history(mask, obs):
    ''' Fragments of a bundle addressed here that never completes (the second fragment claims another total length): while
    nothing was delivered no report may say so.  :return: list of (kind, text) '''
    from vf.world.sim import Sim
    from vf import bp_harness as bh
    sim = Sim(0, 'eager')
    node = bh.BpNode(sim, NODE, rx_routes=[(r'dtn://me/.*', 'deliver')], tx_routes=[dict(pattern=r'.*')])
    flags = bpv7.FLAG_IS_FRAGMENT
    for idx, (_name, bit) in enumerate(REQ_BITS):
        if mask & (1 << idx):
            flags |= bit
    if mask & 16:
        flags |= bpv7.FLAG_REQ_STATUS_TIME
    problems = []
    for (offset, total, data) in ((0, 100, b'a' * 40), (50, 120, b'b' * 40), (40, 100, b'c' * 20)):
        pri = dict(version=7, flags=flags, crc_type=1, dest='dtn://me/app', src='dtn://src/app', report_to='dtn://rep/r', create_time=820540000123, seqno=4,
                   lifetime=3600000, frag_offset=offset, total_adu_len=total, crc=None)
        node.recv(bpv7.encode(dict(primary=pri, blocks=[dict(type=1, num=1, flags=0, crc_type=1, data=data, crc=None)])))
        sim.settle(5000)
    obs['combinations'] += 1
    obs['fragment_histories'] = obs.get('fragment_histories', 0) + 1
    if sim.world.callback_errors:
        problems.append(('raised', 'loop callback raised %s' % sim.world.callback_errors[0].exc_type))
    delivered = [rec for rec in node.observed if 'deliver' in rec['actions'] and not rec['is_fragment']]
    for (_no, _raw, data) in node.cl.sent:
        try:
            dec, _p = bpv7.decode(data)
            rec = bpv7.decode_admin_record(bpv7.payload_of(dec)['data'])
        except (bpv7.DecodeError, TypeError):
            continue
        if rec.get('record_type') == 1 and rec['status'][2][0] and not delivered:
            problems.append(('asserted', 'a status report asserts "delivered" although only fragments of an incomplete bundle arrived (subject offset %r)' % (rec.get('frag_offset'),)))
    return problems


def run_case(case):
    if case.get('kind') == 'stack':
        from vf import stackcases  # pylint: disable=import-outside-toplevel
        return stackcases.run_block(PROPERTY_ID, case)
    if case.get('kind') == 'frag-history':
        obs = dict(combinations=0, reports_expected=0, reports_checked=0, no_report_expected=0, forwards_sent_as_fragments=0)
        violations = []
        for mask in range(32):
            for (kind, what) in fragment_history(mask, obs):
                violations.append(dict(key=None, what='[%s] fragment history, flags mask %d: %s' % (kind, mask, what), detail=dict(mask=mask)))
        return dict(verdict='violated' if violations else 'held', nontrivial=True, cls={'frag-history'}, obs=obs, violations=violations[:6],
                    sample=dict(kind='frag-history'), evaluations=32)
    combos = _all_combos()[case['start']:case['stop']]
    rng = random.Random(case['seed'] * 31 + case['start'])
    obs = dict(combinations=0, reports_expected=0, reports_checked=0, no_report_expected=0, forwards_sent_as_fragments=0)
    violations = []
    classes = set()
    sample = None
    evaluations = 0
    for combo in combos:
        for variant in range(case['variants']):
            bundle = build(combo, rng, variant)
            problems, detail, nontrivial = check_combo(combo, bundle, obs)
            evaluations += 1
            if nontrivial:
                classes.add('%d|%s|%s|%d|%d' % (combo['mask'], combo['report_to'], combo['outcome'], combo['crc'], variant))
            if sample is None and nontrivial:
                sample = dict(combo=combo, received=detail['received'][:200])
            for (kind, what) in problems:
                violations.append(dict(key=classify(kind, combo, detail), what='[%s] outcome %s, flags mask %d, report-to %s: %s' % (
                    kind, combo['outcome'], combo['mask'], combo['report_to'], what), detail=detail))
    uniq = {}
    for viol in violations:
        uniq.setdefault((viol['key'], viol['what'].split(':', 1)[0].split(',')[0], viol['what'].split(': ', 1)[-1][:50]), viol)
    violations = list(uniq.values())[:16]
    return dict(verdict='violated' if violations else 'held', nontrivial=bool(classes), cls=classes, obs=obs,
                violations=violations, sample=sample, evaluations=evaluations)
