''' C04 -- TCPCL endpoints only emit RFC 9174-legal message sequences.

Monitor: online trace automaton (vf/monitors/tcpcl_seq.py) over both wire logs
of every two-endpoint run, decoded by the independent RFC 9174 decoder, with
cross-stream correlation (peer MRU, k-th ACK answers k-th segment).
'''
import random

import dbus

from vf.gen import tcpcl_scen as scen
from vf.monitors import tcpcl_seq
from vf.props import c09

PROPERTY_ID = 'C04'
RULE = ('the C01 workload (directed corpus + seeded random scenarios over bundle lengths, segment sizes, MRUs, policies, pipe '
        'capacities) with and without a termination request by A, B or both at a seeded random scheduler step (from the C09 '
        'generator), plus every cut-point of two base scenarios. The automaton enforces exactly what the statement lists. '
        'Non-trivial = a run with at least one transfer segment on the wire; distinct = distinct (scenario, termination '
        'point, dispatch-sequence hash).')
ASSUMPTIONS = [
    'vf/oracles/tcpcl_wire.py decodes the octets; reactions to hostile input are C17',
    'sim-world network and GLib shim',
]
DECIDING = ['tcpcl.session:Messenger.recv_message', 'tcpcl.session:Messenger.send_xfer_data', 'tcpcl.session:Messenger.send_xfer_ack',
            'tcpcl.session:Messenger.send_sess_term', 'tcpcl.session:ContactHandler._process_queue']
REQUIRED_OBS = ['runs', 'messages_checked', 'segments_checked', 'acks_checked', 'runs_with_sess_term', 'runs_with_mru_limited_segments']


def cases(tier, seed):
    out = []
    for scn in scen.directed(tier):
        out.append(dict(id=scn['id'], kind='scn', scn=scn, seed=seed))
    # a peer that announces a segment MRU of zero (nothing but empty segments would be legal): whatever the endpoint does about
    # it, what it writes stays a legal sequence
    for idx, (mru_a, mru_b, seg) in enumerate(((None, 0, 100), (0, None, 100), (0, 0, 7), (None, 0, 1))):
        cfg_a = dict(segment_size_tx_initial=seg)
        cfg_b = dict(segment_size_tx_initial=seg)
        if mru_a is not None:
            cfg_a['segment_size_mru'] = mru_a
        if mru_b is not None:
            cfg_b['segment_size_mru'] = mru_b
        scn = dict(id='mru0-%d' % idx, seed=idx, policy=['fair', 'rr', 'eager', 'burst'][idx], capacity=None, cfg_a=cfg_a, cfg_b=cfg_b,
                   sends=[dict(side='A', length=50, at=-1), dict(side='A', length=0, at=2), dict(side='A', length=5, at=4), dict(side='B', length=7, at=3)])
        out.append(dict(id=scn['id'], kind='scn', scn=scn, seed=seed))
    # a bundle source that fails to read in the middle of a multi-segment transfer (a file on a medium that goes away), with other
    # bundles queued behind it: whatever the endpoint does about it, what it writes stays a legal sequence
    for idx, (fail_read, permanent) in enumerate(((2, False), (2, True), (3, True), (3, False), (1, True))):
        scn = dict(id='readfault-%d' % idx, seed=idx, policy=['fair', 'eager', 'rr', 'burst', 'fair'][idx], capacity=None,
                   cfg_a=dict(segment_size_tx_initial=1000), cfg_b={},
                   sends=[dict(side='A', length=3500, at=-1), dict(side='A', length=200, at=-1), dict(side='B', length=50, at=5), dict(side='A', length=40, at=60)])
        out.append(dict(id=scn['id'], kind='readfault', scn=scn, fail_read=fail_read, permanent=permanent, seed=seed))
    nrand = 18000 if tier == 'thorough' else 240
    block = 20
    for idx in range(0, nrand, block):
        out.append(dict(id='rand-%d' % idx, kind='rand', seed=seed * 40009 + idx, count=block))
    for name in ('queue', 'pressure'):
        for who in ('A', 'both'):
            out.append(dict(id='cuts-%s-%s' % (name, who), kind='cuts', base=name, who=who, seed=seed,
                            stride=1 if tier == 'thorough' else 3))
    return out


def check_run(run, obs):
    problems = []
    wires = {side: run.wire(side) for side in ('A', 'B')}
    msgs = {side: [m for (m, _e, _n) in wires[side][0]] for side in ('A', 'B')}
    nontrivial = False
    for side, other in (('A', 'B'), ('B', 'A')):
        probs, counters = tcpcl_seq.check_direction(msgs[side], wires[side][1], msgs[other], side)
        if wires[side][1] == 'partial' and not run.closed(side) and not getattr(run, 'ended_at_horizon', False):
            # the world is quiescent, the connection open, and what this side has written ends in the middle of a message
            probs = probs + ['%s: the octets written end inside a message although the endpoint has nothing more to write (the connection is open and '
                             'quiet): a length field does not match what follows' % side]
        obs['messages_checked'] += counters['messages']
        obs['segments_checked'] += counters['segments']
        obs['acks_checked'] += counters['acks']
        if counters['segments']:
            nontrivial = True
        if counters['sess_term']:
            obs['runs_with_sess_term'] += 1
        peer_mru = next((m['segment_mru'] for m in msgs[other] if m['type'] == 'SESS_INIT'), None)
        if peer_mru is not None and any(m['type'] == 'XFER_SEGMENT' and len(m['data']) == peer_mru for m in msgs[side]):
            obs['runs_with_mru_limited_segments'] += 1
        problems += probs
    return problems, nontrivial


def run_case(case):
    obs = dict(runs=0, messages_checked=0, segments_checked=0, acks_checked=0, runs_with_sess_term=0, runs_with_mru_limited_segments=0,
               budget_exhausted=0)
    violations = []
    classes = set()
    sample = None
    evaluations = 0

    def one(scn, cut=None, who=None):
        nonlocal sample, evaluations
        if cut is None:
            run, result = scen.execute(scn)
        else:
            run, result, _record = c09.run_with_cut(scn, cut, who, 'terminate', max_steps=400000)
        obs['runs'] += 1
        evaluations += 1
        if result != 'quiescent':
            obs['budget_exhausted'] += 1
            return
        problems, nontrivial = check_run(run, obs)
        if nontrivial:
            classes.add('%s|%s|%s|%s' % (hash(repr(scn)) & 0xFFFFFFFF, cut, who, run.sim.world.sched_hash))
            if sample is None:
                sample = dict(scenario=scn, terminate_at=cut, by=who, a_wrote=[m['type'] for (m, _e, _n) in run.wire('A')[0]][:12])
        for text in problems:
            violations.append(dict(key=None, what='%s%s' % (text, '' if cut is None else ' (terminate by %s at step %s)' % (who, cut)),
                                   detail=dict(scenario=scn, cut=cut, who=who)))

    if case['kind'] == 'readfault':
        import errno

        class Flaky(object):
            def __init__(self, inner, fail_read, permanent):
                self._inner, self._fail, self._permanent, self._count = inner, fail_read, permanent, 0

            def read(self, *args):
                self._count += 1
                if self._count == self._fail or (self._permanent and self._count > self._fail):
                    raise OSError(errno.EIO, 'Input/output error')
                return self._inner.read(*args)

            def __getattr__(self, name):
                return getattr(self._inner, name)

        def spoil(run):
            hdl = run.ends['A'].hdl
            for _tid, item in sorted(hdl._tx_map.items())[:1]:
                item.file = Flaky(item.file, case['fail_read'], case['permanent'])
                obs['read_faults_armed'] = obs.get('read_faults_armed', 0) + 1
        run, result = scen.execute(case['scn'], max_steps=100000, actions=[dict(at=-1, fn=spoil)])
        obs['runs'] += 1
        evaluations += 1
        if result == 'quiescent':
            problems, nontrivial = check_run(run, obs)
            if nontrivial:
                classes.add('readfault|%s|%s' % (case['fail_read'], case['permanent']))
            for text in problems:
                violations.append(dict(key=None, what='%s (the source of the first bundle fails on read %d%s)' % (
                    text, case['fail_read'], ' and from then on' if case['permanent'] else ''), detail=dict(scenario=case['scn'])))
        else:
            obs['budget_exhausted'] += 1
    elif case['kind'] == 'scn':
        one(case['scn'])
        rng = random.Random(case['seed'] * 31 + hash(case['id']) % 1000)
        one(case['scn'], rng.choice([5, 20, 60, 150]), rng.choice(['A', 'B', 'both']))
    elif case['kind'] == 'rand':
        rng = random.Random(case['seed'])
        for idx in range(case['count']):
            scn = scen.random_scenario(rng, idx)
            if rng.random() < 0.5:
                one(scn)
            else:
                one(scn, rng.choice([0, 3, 8, 13, 21, 34, 55, 89, 144, 233, 377]), rng.choice(['A', 'B', 'both']))
    else:
        scn = dict(c09.BASES[case['base']], id=case['base'], seed=case['seed'])
        base_run, base_res = scen.execute(scn, max_steps=60000)
        nsteps = base_run.steps_used + 2 if base_res == 'quiescent' else 200
        for cut in range(0, nsteps, case['stride']):
            one(scn, cut, case['who'])
    uniq = {}
    for viol in violations:
        uniq.setdefault(viol['what'].split(' (terminate')[0][:70], viol)
    violations = list(uniq.values())[:12]
    return dict(verdict='violated' if violations else 'held', nontrivial=bool(classes), cls=classes, obs=obs,
                violations=violations, sample=sample, evaluations=evaluations)
