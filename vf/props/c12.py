''' C12 -- a bundle with an unverifiable security block is never delivered.

Monitor: application observer (chain step ahead of the built-in applications),
exceptions escaping the receive callback, and -- with a deletion report
requested -- the reason code of the status report at the CL observer of a real
receiver agent.

Oracle: vf/oracles/cose_bpsec.py decides per bundle whether every security
block verifies for every target.  If not: no delivery, deleted with a security
reason.  If all verify or none is present: delivered; payload unchanged, and
with accept-after-verify the accepted security blocks are gone and BCB targets
hold the plaintext.
'''
import random

from vf.oracles import bpv7
from vf.oracles import cbor_walk as cw
from vf.oracles import cose_bpsec as cb

PROPERTY_ID = 'C12'
RULE = ('malformation classes built by the independent encoder with valid CRCs: wrong key, unknown key id, altered target, altered '
        'AAD content, unknown context id, missing target block, duplicate parameter ids, duplicate result ids, result/target '
        'count mismatch, result list length != 1, undecodable COSE (garbage, wrong message type, truncated), block data that is '
        'not an abstract security block, scope naming a missing block; BIB and BCB variants; two security '
        'blocks of which one fails (either order); one block with two targets of which the first / the last / none fails; the genuine target content moved into the COSE payload slot with the target replaced; valid and absent security blocks as controls; x receiver key stores {all, '
        'wrong, none} x accept-after-verify on/off x deletion report requested or not. Non-trivial = a bundle carrying at least '
        'one security block; distinct = distinct (class, variant, key store, accept, report) tuple.')
ASSUMPTIONS = [
    'vf/oracles/cose_bpsec.py decides verify-all; which security reason is reported is not constrained beyond being one (12..16)',
    'delivery is observed at chain order 29.5 with action "deliver"',
]
DECIDING = ['bp.app.bpsec:Bpsec._verify_bib', 'bp.app.bpsec:Bpsec._verify_bcb', 'bp.app.bpsec:CoseContext.verify_bib',
            'bp.app.bpsec:CoseContext.verify_bcb', 'bp.app.bpsec:CoseSecOpCtx.check_secblk', 'bp.agent:Agent.recv_bundle']
REQUIRED_OBS = ['bundles', 'expect_fail', 'expect_deliver', 'reports_with_security_reason', 'accepted_blocks_removed', 'bcb_plaintext_released', 'fragmented_signed']

SEC_REASONS = {12, 13, 14, 15, 16}
CLASSES = ['valid', 'valid-scope', 'dup-params-apart', 'none', 'wrong-tag', 'unknown-kid', 'altered-target', 'altered-primary', 'altered-flag-bits', 'unknown-context', 'missing-target',
           'dup-params', 'dup-results', 'count-mismatch', 'two-results', 'zero-results', 'layers-empty', 'garbage-cose', 'wrong-msg-type', 'truncated-cose',
           'not-an-asb', 'asb-bad-source', 'scope-missing-block', 'two-blocks-first-bad', 'two-blocks-second-bad',
           'two-blocks-both-good', 'multi-target-first-bad', 'multi-target-last-bad', 'multi-target-good', 'attached-original-altered-target',
           'decoy-shares-number', 'two-adjacent-good', 'two-adjacent-second-bad', 'bib-bad-under-good-bcb']
# classes whose bundles are also structurally malformed for RFC 9171 (two blocks with one number): only "not delivered" is demanded,
# a drop at decoding (even by an exception out of the receive callback) is as good as a deletion
MALFORMED = ('decoy-shares-number',)


def build(cls, variant, rng, report):
    ''' :return: (encoded bundle, plaintext payload, description) '''
    from vf import sec_harness as sh
    plain = bytes(((pos * 23) ^ 0x41) & 0xFF for pos in range(rng.choice([0, 1, 16, 40])))
    flags = bpv7.FLAG_REQ_DELETION if report else 0
    crc = rng.choice([0, 1, 2])
    pri = dict(version=7, flags=flags, crc_type=crc, dest='dtn://dst-node/app', src='dtn://src-node/app',
               report_to='dtn://rep/r' if report else 'dtn:none', create_time=820540000000 + rng.randrange(1000), seqno=rng.randrange(50),
               lifetime=3600000, frag_offset=None, total_adu_len=None, crc=None)
    extra = dict(type=192, num=9, flags=0, crc_type=crc, data=b'ext-data', crc=None)
    pay = dict(type=1, num=1, flags=0, crc_type=crc, data=plain, crc=None)
    bundle = dict(primary=pri, blocks=[extra, pay])
    if cls == 'none':
        return bpv7.encode(bundle), plain, 'no security block'
    source_item = bpv7.eid_to_item(sh.SRC_NODE)

    def add_block(kind, target, num, scope=None, key=None, kid=None, mutate=None):
        scope = scope or {0: 1, -1: 1}
        targets = target if isinstance(target, list) else [target]
        sec = dict(type=11 if kind == 'bib' else 12, num=num, flags=0, crc_type=crc, data=b'', crc=None)
        bundle['blocks'].insert(0, sec)
        params = [(5, scope)]
        asb = dict(targets=[tgt['num'] for tgt in targets], context_id=3, flags=1, source=sh.SRC_NODE, params=params, results=[])
        for tidx, tgt in enumerate(targets):
            try:
                ext_aad = cb.external_aad(bundle, sec, tgt, scope, b'', source_item)
            except cb.SecError:
                ext_aad = b'no-aad'
            if kind == 'bib':
                result = cb.make_mac0_result(5, kid or b'mk', key or sh.MAC_KEY, ext_aad, tgt['data'])
            else:
                result, ciphertext = cb.make_enc0_result(3, kid or b'ek', key or sh.ENC_KEY, bytes([tidx] * 12), ext_aad, tgt['data'])
                tgt['data'] = ciphertext
            asb['results'].append([result])
        target = targets[0]
        if mutate:
            mutate(asb, sec, target)
        if asb is not None and sec['data'] == b'':
            sec['data'] = cb.encode_asb(asb)
        return sec

    kind = variant  # 'bib' | 'bcb'
    if cls == 'valid':
        add_block(kind, pay, 2)
    elif cls == 'valid-scope':
        # AAD scopes that bind metadata AND data of the target / of another block (flags 3)
        add_block(kind, pay, 2, scope=rng.choice([{0: 1, -1: 3}, {0: 1, -1: 1, 9: 3}, {-1: 3, 9: 3}, {0: 1, -1: 1, 9: 2}]))
    elif cls == 'dup-params-apart':
        # the same parameter id twice with another parameter in between
        add_block(kind, pay, 2, mutate=lambda asb, sec, tgt: asb.update(params=asb['params'] + [(4, cw.enc({4: b'mk' if kind == 'bib' else b'ek'})), (5, {0: 1, -1: 1})]))
    elif cls == 'wrong-tag':
        def mut(asb, sec, tgt):
            if kind == 'bib':
                (rid, rval) = asb['results'][0][0]
                msg = cw.parse_all(rval).to_python()
                msg[3] = bytes([msg[3][0] ^ 1]) + msg[3][1:]
                asb['results'][0][0] = (rid, cw.enc(msg))
            else:
                tgt['data'] = tgt['data'][:-1] + bytes([tgt['data'][-1] ^ 1])
        add_block(kind, pay, 2, mutate=mut)
    elif cls == 'unknown-kid':
        add_block(kind, pay, 2, kid=b'nobody')
    elif cls == 'altered-target':
        def mut(asb, sec, tgt):
            tgt['data'] = (bytes([tgt['data'][0] ^ 0x80]) + tgt['data'][1:]) if tgt['data'] else b'\x00'
        add_block(kind, pay, 2, mutate=mut)
    elif cls == 'altered-primary':
        add_block(kind, pay, 2)
        pri['lifetime'] += 1
    elif cls == 'altered-flag-bits':
        # a flag bit (assigned or not) of the target block or of the bundle set after the source secured it: bound by the default scope
        add_block(kind, pay, 2)
        if rng.random() < 0.5:
            pay['flags'] |= rng.choice([0x08, 0x20, 0x40, 0x80, 0x100, 0x01])
        else:
            pri['flags'] |= rng.choice([0x08, 0x80, 0x200000, 0x400000, 0x100, 0x04])
    elif cls == 'unknown-context':
        def mut(asb, sec, tgt):
            asb.update(context_id=rng.choice([1, 2, 99, 65536, -7]))
            # whatever the block processing flags of the security block say (they are not authenticated)
            sec['flags'] = rng.choice([0, 0, 0x10, 0x11, 0x12, 0x04, 0x14])
        add_block(kind, pay, 2, mutate=mut)
    elif cls == 'missing-target':
        add_block(kind, pay, 2, mutate=lambda asb, sec, tgt: asb.update(targets=[77]))
    elif cls == 'dup-params':
        add_block(kind, pay, 2, mutate=lambda asb, sec, tgt: asb.update(params=asb['params'] + [(5, {0: 1, -1: 1})]))
    elif cls == 'dup-results':
        add_block(kind, pay, 2, mutate=lambda asb, sec, tgt: asb.update(results=[[asb['results'][0][0], asb['results'][0][0]]]))
    elif cls == 'count-mismatch':
        add_block(kind, pay, 2, mutate=lambda asb, sec, tgt: asb.update(targets=[1, 9]))
    elif cls == 'two-results':
        add_block(kind, pay, 2, mutate=lambda asb, sec, tgt: asb.update(results=[[asb['results'][0][0], (asb['results'][0][0][0] + 100, asb['results'][0][0][1])]]))
    elif cls == 'zero-results':
        add_block(kind, pay, 2, mutate=lambda asb, sec, tgt: asb.update(results=[[]]))
    elif cls == 'bib-bad-under-good-bcb':
        # the payload carries an integrity block that does not verify (tag altered, or made with a key nobody here has) and, on top,
        # a confidentiality block that does verify: the bundle has a security block that fails for its target
        def spoil_tag(asb, sec, tgt):
            (rid, rval) = asb['results'][0][0]
            msg = cw.parse_all(rval).to_python()
            msg[3] = bytes([msg[3][0] ^ 1]) + msg[3][1:]
            asb['results'][0][0] = (rid, cw.enc(msg))
        if rng.random() < 0.5:
            add_block('bib', pay, 2, mutate=spoil_tag)
        else:
            add_block('bib', pay, 2, key=bytes(range(32)), kid=b'stranger')
        add_block('bcb', pay, 3)
    elif cls == 'layers-empty':
        # a multi-layer COSE message (COSE_Sign / COSE_Mac / COSE_Encrypt) that carries no signature / recipient at all: anybody can
        # make one without a key, nothing in it verifies
        def mut(asb, sec, tgt):
            (_rid, rval) = asb['results'][0][0]
            msg = cw.parse_all(rval).to_python()
            if kind == 'bib':
                which = rng.randrange(2)
                asb['results'][0][0] = ((98, cw.enc([msg[0], {}, None, []])) if which == 0 else (97, cw.enc([msg[0], {}, None, b'\x00' * 32, []])))
            else:
                asb['results'][0][0] = (96, cw.enc([msg[0], msg[1] if isinstance(msg[1], dict) else {}, None, []]))
        add_block(kind, pay, 2, mutate=mut)
    elif cls == 'garbage-cose':
        add_block(kind, pay, 2, mutate=lambda asb, sec, tgt: asb.update(results=[[(asb['results'][0][0][0], bytes(rng.getrandbits(8) for _ in range(20)))]]))
    elif cls == 'wrong-msg-type':
        add_block(kind, pay, 2, mutate=lambda asb, sec, tgt: asb.update(results=[[(16 if kind == 'bib' else 17, asb['results'][0][0][1])]]))
    elif cls == 'truncated-cose':
        add_block(kind, pay, 2, mutate=lambda asb, sec, tgt: asb.update(results=[[(asb['results'][0][0][0], asb['results'][0][0][1][:-5])]]))
    elif cls == 'tagged-cose':
        add_block(kind, pay, 2, mutate=lambda asb, sec, tgt: asb.update(results=[[(asb['results'][0][0][0], bytes([0xd1 if kind == 'bib' else 0xd0]) + asb['results'][0][0][1])]]))
    elif cls == 'payload-attached':
        def mut(asb, sec, tgt):
            (rid, rval) = asb['results'][0][0]
            msg = cw.parse_all(rval).to_python()
            msg[2] = b'attached-payload'
            asb['results'][0][0] = (rid, cw.enc(msg))
        add_block(kind, pay, 2, mutate=mut)
    elif cls == 'not-an-asb':
        def mut(asb, sec, tgt):
            sec['data'] = rng.choice([b'\xff', b'', b'\x00', cw.enc('text'), cw.enc([1]) + cw.enc(3), bytes(rng.getrandbits(8) for _ in range(12))])
        add_block(kind, pay, 2, mutate=mut)
    elif cls == 'asb-bad-source':
        def mut(asb, sec, tgt):
            good = cb.encode_asb(asb)
            sec['data'] = good.replace(cw.enc(source_item), cw.enc([rng.choice([0, 3, 5, 9]), '//src-node/']), 1)
        add_block(kind, pay, 2, mutate=mut)
    elif cls == 'scope-missing-block':
        add_block(kind, pay, 2, scope={0: 1, -1: 1, 55: 1})
    elif cls == 'empty-targets':
        add_block(kind, pay, 2, mutate=lambda asb, sec, tgt: asb.update(targets=[], results=[]))
    elif cls.startswith('multi-target'):
        bad = {'multi-target-first-bad': 0, 'multi-target-last-bad': 1}.get(cls)
        order = rng.choice([[extra, pay], [pay, extra]])

        def mut(asb, sec, tgt):
            if bad is not None:
                victim = order[bad]
                victim['data'] = (bytes([victim['data'][0] ^ 0x40]) + victim['data'][1:]) if victim['data'] else b'\x01'
        add_block(kind, order, 2, mutate=mut)
    elif cls == 'attached-original-altered-target':
        # on-path edit without the key: the genuine target content is moved into the COSE payload slot and the target is replaced
        def mut(asb, sec, tgt):
            (rid, rval) = asb['results'][0][0]
            msg = cw.parse_all(rval).to_python()
            msg[2] = bytes(tgt['data'])
            asb['results'][0][0] = (rid, cw.enc(msg))
            tgt['data'] = bytes(tgt['data'][:-1]) + bytes([(tgt['data'][-1] if tgt['data'] else 0) ^ 0x55]) if tgt['data'] else b'forged'
        add_block(kind, pay, 2, mutate=mut)
    elif cls == 'decoy-shares-number':
        # the target is altered and a harmless-looking block with the security block's own number is put in front of it (or the
        # security block is renumbered to the number of a block that precedes it)
        def mut(asb, sec, tgt):
            tgt['data'] = (bytes([tgt['data'][0] ^ 0x80]) + tgt['data'][1:]) if tgt['data'] else b'\x00'
        sec = add_block(kind, pay, 2, mutate=mut)
        if rng.random() < 0.5:
            bundle['blocks'].insert(0, dict(type=rng.choice([192, 7, 10]), num=2, flags=0, crc_type=crc, data=cw.enc(rng.choice([0, 77])), crc=None))
        else:
            # renumber: [extra(9), sec(9), payload]
            bundle['blocks'].remove(sec)
            bundle['blocks'].insert(1, sec)
            sec['num'] = 9
    elif cls.startswith('two-adjacent'):
        # two security blocks of the same kind next to each other in the block array (two sources / two policies each added one),
        # over different targets; "second" is the one that comes second in the array
        second_bad = cls == 'two-adjacent-second-bad'
        order = rng.choice([[extra, pay], [pay, extra]])

        def spoil(asb, sec, tgt):
            if kind == 'bib':
                (rid, rval) = asb['results'][0][0]
                msg = cw.parse_all(rval).to_python()
                msg[3] = bytes([msg[3][0] ^ 1]) + msg[3][1:]
                asb['results'][0][0] = (rid, cw.enc(msg))
            else:
                tgt['data'] = tgt['data'][:-1] + bytes([tgt['data'][-1] ^ 1])
        add_block(kind, order[0], 3, mutate=spoil if second_bad else None)     # ends up second (blocks are inserted at the front)
        add_block(kind, order[1], 2)
    elif cls.startswith('two-blocks'):
        first_bad = cls == 'two-blocks-first-bad'
        second_bad = cls == 'two-blocks-second-bad'

        def breaker(asb, sec, tgt):
            (rid, rval) = asb['results'][0][0]
            msg = cw.parse_all(rval).to_python()
            if len(msg) > 3:
                msg[3] = bytes([msg[3][0] ^ 1]) + msg[3][1:]
            else:
                msg[0] = cw.enc({1: 3, 99: 1})
            asb['results'][0][0] = (rid, cw.enc(msg))
        # two integrity (or one integrity + one confidentiality) blocks over different targets
        add_block('bib', extra, 3, mutate=breaker if second_bad else None)
        add_block(kind, pay, 2, mutate=breaker if first_bad else None)
    else:
        raise ValueError(cls)
    return bpv7.encode(bundle), plain, '%s/%s' % (cls, variant)


def receive(data, keys, accept):
    from vf.world.sim import Sim
    from vf import sec_harness as sh
    sim = Sim(0, 'eager')
    dst = sh.receiver_node(sim, keys, accept=accept)
    err = dst.recv(data)
    res = sim.settle(5000)
    return dst, err, res, sim


def check(cls, variant, keys, accept, report, rng, obs):
    from vf import sec_harness as sh
    data, plain, desc = build(cls, variant, rng, report)
    verdict, why = cb.verify_bundle(data, sh.oracle_keys(keys))
    dst, err, res, sim = receive(data, keys, accept)
    obs['bundles'] += 1
    problems = []
    delivered = dst.delivered()
    errs = sim.world.callback_errors
    detail = dict(bundle=data.hex(), oracle=(verdict, why))
    dec, _ = bpv7.decode(data)
    wire_payload = bpv7.payload_of(dec)['data']
    if cls in MALFORMED:
        obs['expect_fail'] += 1
        if delivered:
            problems.append(('delivered', 'delivered although the security block (%s) does not verify: its number is shared with another block' % why[:60]))
        return problems, detail, desc
    if err is not None:
        problems.append(('raised', 'the receive callback raised %s: %s' % (type(err).__name__, str(err)[:80])))
    if errs:
        problems.append(('raised', 'loop callback %s raised %s: %s' % (errs[0].source, errs[0].exc_type, str(errs[0].exc)[:80])))
    if verdict in ('ok', 'none'):
        obs['expect_deliver'] += 1
        if len(delivered) != 1:
            problems.append(('not-delivered', 'every security block verifies (%s) but %d deliveries' % (verdict, len(delivered))))
        else:
            rec = delivered[0]
            sec_left = [blk for blk in rec['blocks'] if blk[0] in (11, 12)]
            has_bcb = any(blk['type'] == 12 for blk in dec['blocks'])
            if accept and verdict == 'ok':
                if sec_left:
                    problems.append(('accept', 'accept-after-verify is on but security blocks %s are still in the delivered bundle' % [(b[0], b[1]) for b in sec_left]))
                else:
                    obs['accepted_blocks_removed'] += 1
                want_payload = plain
                if has_bcb and rec['payload'] == plain:
                    obs['bcb_plaintext_released'] += 1
            else:
                want_payload = wire_payload
                if verdict == 'ok' and len(sec_left) != len([blk for blk in dec['blocks'] if blk['type'] in (11, 12)]):
                    problems.append(('accept', 'acceptance is off but security blocks were removed'))
            if rec['payload'] != want_payload:
                problems.append(('payload', 'delivered payload (%d octets) differs from the expected %s (%d octets)' % (
                    len(rec['payload'] or b''), 'plaintext' if want_payload == plain else 'wire data', len(want_payload))))
    else:
        obs['expect_fail'] += 1
        if delivered:
            problems.append(('delivered', 'delivered although a security block does not verify (%s: %s)' % (verdict, why[:70])))
        if dst.observed and not delivered:
            # reached the observer without the deliver action: fine (not delivered)
            pass
        if report and not problems:
            reports = []
            for out in dst.cl.datas():
                try:
                    rdec, _p = bpv7.decode(out)
                    if rdec['primary']['flags'] & bpv7.FLAG_ADMIN:
                        reports.append(bpv7.decode_admin_record(bpv7.payload_of(rdec)['data']))
                except bpv7.DecodeError:
                    pass
            if not reports:
                problems.append(('not-deleted', 'deletion report requested but none was sent: the bundle was not marked deleted (%s: %s)' % (verdict, why[:60])))
            else:
                rec = reports[0]
                deleted = rec['status'][3][0]
                if not deleted or rec['reason'] not in SEC_REASONS:
                    problems.append(('not-deleted', 'status report says deleted=%s with reason %r, expected a security reason' % (deleted, rec['reason'])))
                else:
                    obs['reports_with_security_reason'] += 1
    return problems, detail, desc


def check_fragmented(rng, accept, altered, obs):
    ''' A bundle with an integrity block (oracle-built) arrives as fragments, the one with offset 0 (which carries the security
    block) not first; the payload was altered before fragmentation, or not.  What is verified is the reassembled bundle. '''
    from vf.world.sim import Sim
    from vf import sec_harness as sh
    data, plain, desc = build('altered-target' if altered else 'valid', 'bib', rng, False)
    dec = bpv7.decode(data)[0]
    payload = bpv7.payload_of(dec)['data']
    if len(payload) < 3:
        return None
    exts = [dict(blk, crc=None) for blk in dec['blocks'] if blk['type'] != 1]
    cuts = sorted(set([0, len(payload)] + rng.sample(range(1, len(payload)), rng.choice([1, 2]))))
    frags = []
    for lo, hi in zip(cuts, cuts[1:]):
        pri = dict(dec['primary'], flags=dec['primary']['flags'] | bpv7.FLAG_IS_FRAGMENT, frag_offset=lo, total_adu_len=len(payload), crc=None)
        blocks = [dict(blk) for blk in exts if lo == 0] + [dict(type=1, num=1, flags=0, crc_type=dec['blocks'][-1]['crc_type'], data=payload[lo:hi], crc=None)]
        frags.append(bpv7.encode(dict(primary=pri, blocks=blocks)))
    order = list(range(len(frags)))
    while order[0] == 0:
        rng.shuffle(order)
    sim = Sim(0, 'eager')
    dst = sh.receiver_node(sim, 'all', accept=accept)
    for idx in order:
        err = dst.recv(frags[idx])
        sim.settle(5000)
        if err is not None or sim.world.callback_errors:
            return [('raised', 'fragment %d of a signed bundle: exception %s' % (idx, err or sim.world.callback_errors[0].exc_type))]
    obs['bundles'] += 1
    obs['fragmented_signed'] = obs.get('fragmented_signed', 0) + 1
    delivered = dst.delivered()
    what = 'signed bundle (payload %s) arriving as fragments in order %s, accept=%s' % ('altered before fragmentation' if altered else 'unmodified', order, accept)
    if altered:
        obs['expect_fail'] += 1
        if delivered:
            return [('delivered', '%s: delivered although the integrity block does not verify for the reassembled payload' % what)]
    else:
        obs['expect_deliver'] += 1
        if len(delivered) != 1:
            return [('not-delivered', '%s: %d deliveries' % (what, len(delivered)))]
    return []


def x5t_history(keys_mode, accept, obs, midday=False):
    ''' Several signed bundles through ONE receiver: certificate chains that validated once are remembered (x5t look-up), but each
    bundle is judged at its own creation time.  :return: list of (kind, text, detail) '''
    import datetime
    from cryptography.hazmat.primitives import serialization
    from vf.world.sim import Sim
    from vf import sec_harness as sh
    (cert, key) = sh.pki()['variants']['midday' if midday else 'good']
    der = cert.public_bytes(serialization.Encoding.DER)

    def dtn_ms(year, month=6, day=1, hour=0):
        return int((datetime.datetime(year, month, day, hour) - datetime.datetime(2000, 1, 1)).total_seconds()) * 1000

    def signed(ctime, seq, x5t_only, payload):
        pri = dict(version=7, flags=0, crc_type=1, dest='dtn://dst-node/app', src='dtn://src-node/app', report_to='dtn:none', create_time=ctime, seqno=seq,
                   lifetime=10 ** 12, frag_offset=None, total_adu_len=None, crc=None)
        pay = dict(type=1, num=1, flags=0, crc_type=1, data=payload, crc=None)
        sec = dict(type=11, num=2, flags=0, crc_type=1, data=b'', crc=None)
        bundle = dict(primary=pri, blocks=[sec, pay])
        scope = {0: 1, -1: 1}
        ext_aad = cb.external_aad(bundle, sec, pay, scope, b'', bpv7.eid_to_item(sh.SRC_NODE))
        result = cb.make_sign1_result(-7, key, [der], ext_aad, payload, x5t_only=x5t_only)
        sec['data'] = cb.encode_asb(dict(targets=[1], context_id=3, flags=1, source=sh.SRC_NODE, params=[(5, scope)], results=[[result]]))
        return bpv7.encode(bundle)

    steps = [('x5t before the chain was ever seen', dtn_ms(2030), True), ('x5chain, created within validity', dtn_ms(2025), False),
             ('x5t only, created within validity (chain known by now)', dtn_ms(2031), True),
             ('x5t only, created after the certificate expired', dtn_ms(2041), True), ('x5chain, created after the certificate expired', dtn_ms(2042), False),
             ('x5chain, created before the certificate was valid', dtn_ms(2019), False), ('x5t only, created within validity again', dtn_ms(2033), True),
             ('x5chain, creation time beyond the calendar (2^62 ms)', 2 ** 62, False), ('x5t only, creation time 2^64-1', 2 ** 64 - 1, True),
             ('x5chain, creation time in the year 12000', dtn_ms(9999) + 2001 * 365 * 86400000, False)]
    if midday:
        # validity 2021-03-10T12:00 .. 2035-06-15T12:00: bundles created on the first and on the last day, either side of noon
        steps = [('x5chain, created on the last day of validity before the expiry hour', dtn_ms(2035, 6, 15, 10), False),
                 ('x5chain, created on the same day after the expiry hour', dtn_ms(2035, 6, 15, 15), False),
                 ('x5t only, created on the same day after the expiry hour', dtn_ms(2035, 6, 15, 16), True),
                 ('x5t only, created on the same day before the expiry hour', dtn_ms(2035, 6, 15, 11), True),
                 ('x5chain, created on the first day of validity after the start hour', dtn_ms(2021, 3, 10, 13), False),
                 ('x5chain, created on the same day before the start hour', dtn_ms(2021, 3, 10, 9), False),
                 ('x5t only, created on the same day before the start hour', dtn_ms(2021, 3, 10, 8), True)]
    sim = Sim(0, 'eager')
    dst = sh.receiver_node(sim, keys_mode, accept=accept)
    oracle = sh.oracle_keys(keys_mode)
    problems = []
    for idx, (label, ctime, x5t_only) in enumerate(steps):
        payload = b'signed-%d' % idx
        data = signed(ctime, idx, x5t_only, payload)
        verdict, why = cb.verify_bundle(data, oracle)
        if verdict == 'ok' and not x5t_only:
            oracle.known_certs.append(der)
        before = len(dst.delivered())
        err = dst.recv(data)
        sim.settle(5000)
        obs['bundles'] += 1
        got = len(dst.delivered()) - before
        detail = dict(bundle=data.hex(), oracle=(verdict, why), step=label)
        if err is not None or sim.world.callback_errors:
            problems.append(('raised', 'x5t history step "%s": exception escaped the receive path' % label, detail))
            break
        if verdict == 'ok':
            obs['expect_deliver'] += 1
            if got != 1:
                problems.append(('not-delivered', 'x5t history step "%s": verifies independently but %d deliveries' % (label, got), detail))
        else:
            obs['expect_fail'] += 1
            if got:
                problems.append(('delivered', 'x5t history step "%s": delivered although the block does not verify (%s)' % (label, why[:70]), detail))
    obs['x5t_histories'] = obs.get('x5t_histories', 0) + 1
    return problems


def cases(tier, seed):
    out = []
    idx = 0
    for cls in CLASSES:
        variants = ['bib'] if cls == 'none' else ['bib', 'bcb']
        for variant in variants:
            out.append(dict(id='%s-%s' % (cls, variant), cls=cls, variant=variant, seed=seed * 37 + idx, reps=(150 if tier == 'thorough' else 1)))
            idx += 1
    out.append(dict(id='x5t-history', cls='x5t-history', variant='bib', seed=seed, reps=1))
    out.append(dict(id='cert-variants', cls='cert-variants', variant='bib', seed=seed, reps=1))
    out.append(dict(id='fragmented', cls='fragmented', variant='bib', seed=seed, reps=1, count=(1200 if tier == 'thorough' else 16)))
    return out


def run_case(case):
    from vf import sec_harness as sh
    obs = dict(bundles=0, expect_fail=0, expect_deliver=0, reports_with_security_reason=0, accepted_blocks_removed=0, bcb_plaintext_released=0)
    rng = random.Random(case['seed'])
    violations = []
    classes = set()
    sample = None
    evaluations = 0
    try:
        if case['cls'] == 'x5t-history':
            for keys in ('all', 'none'):
                for accept in (False, True):
                    for (kind, text, detail) in x5t_history(keys, accept, obs) + x5t_history(keys, accept, obs, midday=True):
                        violations.append(dict(key=None, what='[%s] keys=%s accept=%s: %s' % (kind, keys, accept, text), detail=detail))
                    classes.add('x5t-history|%s|%s' % (keys, accept))
                    evaluations += 1
            case = dict(case, reps=0)
        if case['cls'] == 'fragmented':
            for rep in range(case['count']):
                accept, altered = bool(rep % 2), bool((rep // 2) % 2)
                problems = check_fragmented(rng, accept, altered, obs)
                if problems is None:
                    continue
                evaluations += 1
                classes.add('fragmented|%d' % rep)
                for (kind, text) in problems:
                    violations.append(dict(key=None, what='[%s] %s' % (kind, text), detail=dict(rep=rep)))
            case = dict(case, reps=0)
        if case['cls'] == 'cert-variants':
            # signed under certificates that are not the security source's (wrong key by identity): never delivered
            from vf.world.sim import Sim
            for vname in sh.CERT_VARIANTS:
                for accept in (False, True):
                    data = sh.sign1_variant_bundle(vname, rng, seq=3, plen=12, crc=1)
                    verdict, why = cb.verify_bundle(data, sh.oracle_keys('all'))
                    dst, err, res, sim = receive(data, 'all', accept)
                    obs['bundles'] += 1
                    evaluations += 1
                    classes.add('cert-variants|%s|%s' % (vname, accept))
                    got = len(dst.delivered())
                    if verdict == 'ok':
                        obs['expect_deliver'] += 1
                        if got != 1:
                            violations.append(dict(key=None, what='[not-delivered] certificate variant %s verifies but %d deliveries' % (vname, got), detail=dict(bundle=data.hex())))
                    else:
                        obs['expect_fail'] += 1
                        if got or err is not None:
                            violations.append(dict(key=None, what='[delivered] Sign1 block under certificate variant "%s", accept=%s: %s (%s)' % (
                                vname, accept, 'delivered although it is not the key of the security source' if got else 'exception escaped', why[:60]), detail=dict(bundle=data.hex())))
            case = dict(case, reps=0)
        for rep in range(case['reps']):
            for keys in ('all', 'wrong', 'none'):
                for accept in (False, True):
                    for report in (False, True):
                        problems, detail, desc = check(case['cls'], case['variant'], keys, accept, report, rng, obs)
                        evaluations += 1
                        if case['cls'] != 'none':
                            classes.add('%s|%s|%s|%s|%d' % (desc, keys, accept, report, rep))
                        if sample is None:
                            sample = dict(case=desc, keys=keys, accept=accept, report=report, bundle=detail['bundle'][:200], oracle=detail['oracle'])
                        for (kind, text) in problems:
                            violations.append(dict(key=None, what='[%s] %s, keys=%s accept=%s report=%s: %s' % (kind, desc, keys, accept, report, text),
                                                   detail=detail))
    finally:
        sh.cleanup_pki()
        sh._PKI.clear()
    uniq = {}
    for viol in violations:
        uniq.setdefault((viol['what'].split(']')[0], viol['what'].split(': ', 1)[-1][:60]), viol)
    violations = list(uniq.values())[:10]
    return dict(verdict='violated' if violations else 'held', nontrivial=bool(classes), cls=classes, obs=obs,
                violations=violations, sample=sample, evaluations=evaluations)
