''' C01 -- TCPCL delivers every queued bundle exactly once, intact and in order.

Monitor: the D-Bus boundary history of two real ContactHandlers (send_bundle_data
calls and returns, send_bundle_finished / recv_bundle_finished signals, final
drain with recv_bundle_get_queue + recv_bundle_pop_data), every event stamped
with the global event number.

Oracle (offline, per direction), with unique position-coded payloads:
 (a) popped payloads == queued payloads as a sequence (no loss, duplicate, truncation, merge, reorder);
 (b) order of recv_bundle_finished == queue order;
 (c) a send_bundle_finished(..., 'success') never precedes the receiver's recv_bundle_finished for that transfer;
 (d) bounded progress: a quiescent world with an unfinished transfer is "stuck" (violation); an exhausted step budget is inconclusive.
The C04 wire automaton runs alongside as a second witness.
'''
import random

from vf.gen import tcpcl_scen as scen
from vf.monitors import tcpcl_seq

PROPERTY_ID = 'C01'
RULE = ('directed corpus (length classes 0, 1, 2, seg-1, seg, seg+1, k*seg+-1, above CHUNK_SIZE, 64 KiB, thorough 1 MiB; segment '
        'sizes x peer MRUs incl. 1; tiny pipes; one-octet delivery) x scheduling policies, then seeded random scenarios: 0-6 '
        'bundles per direction, send calls before start / during negotiation / between arbitrary callbacks, policies '
        'fair/rr/eager/starve/burst/lazy/octet, pipe capacities 1..20000 or unbounded. Non-trivial = a run that transferred at '
        'least one bundle; distinct = distinct (scenario parameters, dispatch-sequence hash).')
ASSUMPTIONS = [
    'honest peers only, no termination (C09), fixed segment size (C14)',
    'sim-world network: stream chunking, delay and back-pressure are schedule choices; kernel TCP is not under test',
    'logical clock (global event numbers) orders the success signal against the receiver\'s finish signal',
]
DECIDING = ['tcpcl.session:ContactHandler._process_queue', 'tcpcl.session:ContactHandler.recv_xfer_data',
            'tcpcl.session:ContactHandler.recv_xfer_ack', 'tcpcl.session:Connection._tx_proxy', 'tcpcl.session:Connection._rx_proxy',
            'tcpcl.session:Messenger.recv_raw', 'tcpcl.session:Messenger.send_raw']
REQUIRED_OBS = ['runs', 'bundles_queued', 'bundles_received', 'success_signals', 'backpressure_hits', 'multi_segment_transfers']


def cases(tier, seed):
    out = []
    for scn in scen.directed(tier):
        out.append(dict(id=scn['id'], kind='scn', scn=scn))
    nrand = 24000 if tier == 'thorough' else 260
    block = 20
    for idx in range(0, nrand, block):
        out.append(dict(id='rand-%d' % idx, kind='rand', seed=seed * 9176 + idx, count=block))
    return out


def judge(run, result, obs):
    ''' :return: (problems [(kind, text)], nontrivial) '''
    problems = []
    if run.callback_errors():
        err = run.callback_errors()[0]
        problems.append(('raised', 'event-loop callback %s of node %s raised %s: %s' % (err.source, err.node, err.exc_type, str(err.exc)[:120])))
    if run.user_errors:
        (side, member, err) = run.user_errors[0]
        problems.append(('user-error', 'D-Bus call %s on %s failed: %s: %s' % (member, side, type(err).__name__, str(err)[:120])))
    for side in ('A', 'B'):
        if run.closed(side):
            problems.append(('closed', 'endpoint %s closed its connection although nobody asked for termination (state %s)' % (
                side, run.ends[side].state())))
            break
    nontrivial = False
    wires = {}
    for side in ('A', 'B'):
        wires[side] = run.wire(side)
    for (src, dst) in (('A', 'B'), ('B', 'A')):
        queued = run.queued[src]
        obs['bundles_queued'] += len(queued)
        finished = run.signals(dst, 'recv_bundle_finished')
        sent_fin = run.signals(src, 'send_bundle_finished')
        drained = run.drain(dst)
        obs['bundles_received'] += len(drained)
        if drained:
            nontrivial = True
        want = [payload for (_tid, payload, _no) in queued]
        got = [data for (_tid, data) in drained]
        fin_by_tid = {}
        for ev in sent_fin:
            fin_by_tid.setdefault(str(ev['args'][0]), []).append(ev)
        # (d) bounded progress
        unfinished = [tid for (tid, _payload, _no) in queued if tid not in fin_by_tid]
        if result == 'quiescent' and unfinished and not run.closed(src):
            lens = {tid: len(payload) for (tid, payload, _no) in queued}
            first = unfinished[0]
            started = [ev for ev in run.signals(src, 'send_bundle_started') if str(ev['args'][0]) == first]
            problems.append(('stuck', '%s->%s: the world is quiescent but %d queued transfer(s) never finished; first is id %s of %d octets (%s)' % (
                src, dst, len(unfinished), first, lens[first], 'started' if started else 'never started'),
                dict(stuck_len=lens[first], started=bool(started), zero_before=any(lens[tid] == 0 for tid in lens if int(tid) <= int(first)))))
        # (a) sequence equality
        if got != want[:len(got)] or (result == 'quiescent' and not unfinished and len(got) != len(want)):
            kind = 'content'
            if sorted(got) == sorted(want):
                kind = 'reordered'
            elif len(got) > len(want):
                kind = 'extra'
            idx = next((i for i, (g, w) in enumerate(zip(got, want)) if g != w), min(len(got), len(want)))
            problems.append((kind, '%s->%s: receive queue holds %d bundle(s) %s, queued were %d %s; first difference at position %d' % (
                src, dst, len(got), [len(item) for item in got][:8], len(want), [len(item) for item in want][:8], idx)))
        # (b) order of finished signals
        fin_tids = [str(ev['args'][0]) for ev in finished]
        want_tids = [tid for (tid, _payload, _no) in queued]
        if fin_tids != want_tids[:len(fin_tids)]:
            problems.append(('reordered', '%s->%s: recv_bundle_finished order %s, queue order %s' % (src, dst, fin_tids[:8], want_tids[:8])))
        if len(set(fin_tids)) != len(fin_tids):
            problems.append(('extra', '%s->%s: a transfer was announced finished twice: %s' % (src, dst, fin_tids[:8])))
        for ev in finished:
            if ev['args'][2] != 'success':
                problems.append(('content', '%s->%s: recv_bundle_finished result %r' % (src, dst, ev['args'][2])))
        # (c) success only after the receiver holds the bundle
        recv_no = {str(ev['args'][0]): ev['no'] for ev in finished}
        for tid, evs in fin_by_tid.items():
            if len(evs) > 1:
                problems.append(('extra', '%s: %d send_bundle_finished signals for transfer %s' % (src, len(evs), tid)))
            for ev in evs:
                if ev['args'][2] == 'success':
                    obs['success_signals'] += 1
                    if tid not in recv_no or recv_no[tid] > ev['no']:
                        problems.append(('early-success', '%s: success for transfer %s reported at event %d, receiver finished at %s' % (
                            src, tid, ev['no'], recv_no.get(tid))))
                elif not run.closed(src):
                    problems.append(('content', '%s: transfer %s finished with %r' % (src, tid, ev['args'][2])))
    # second witness: wire automaton
    for side, other in (('A', 'B'), ('B', 'A')):
        msgs, status, _raw = wires[side]
        omsgs, _ostatus, _oraw = wires[other]
        probs, counters = tcpcl_seq.check_direction([m for (m, _e, _n) in msgs], status, [m for (m, _e, _n) in omsgs], side)
        obs['multi_segment_transfers'] += 1 if counters['segments'] > counters['transfers'] else 0
        for item in probs:
            problems.append(('wire', item))
    obs['backpressure_hits'] += sum(1 for pipe in run.sim.net.pipes if pipe.total and pipe.capacity < pipe.total)
    return problems, nontrivial


def classify(kind, text, extra):
    if kind == 'stuck' and extra and extra.get('zero_before') and not extra.get('started') or (
            kind == 'stuck' and extra and extra.get('stuck_len') == 0):
        return 'C01/zero-length-transfer-never-started'
    return None


def run_scenario(scn, obs):
    run, result = scen.execute(scn)
    obs['runs'] += 1
    if result == 'budget':
        return None, run, result
    problems, nontrivial = judge(run, result, obs)
    return problems, run, nontrivial


def run_case(case):
    obs = dict(runs=0, bundles_queued=0, bundles_received=0, success_signals=0, backpressure_hits=0, multi_segment_transfers=0,
               budget_exhausted=0)
    violations = []
    classes = set()
    states = set()
    sample = None
    scns = []
    if case['kind'] == 'scn':
        scns = [case['scn']]
    else:
        rng = random.Random(case['seed'])
        scns = [scen.random_scenario(rng, idx) for idx in range(case['count'])]
    inconclusive = []
    for scn in scns:
        problems, run, nontrivial = run_scenario(scn, obs)
        if problems is None:
            obs['budget_exhausted'] += 1
            inconclusive.append(scn['id'])
            continue
        states |= run.sim.states_seen
        if nontrivial:
            classes.add('%s|%s' % (hash(repr(sorted((k, repr(v)) for k, v in scn.items() if k != 'id'))) & 0xFFFFFFFF, run.sim.world.sched_hash))
        if sample is None and nontrivial:
            sample = dict(scenario={k: v for k, v in scn.items()}, steps=run.sim.steps, dispatch_hash=run.sim.world.sched_hash)
        for item in problems:
            kind, text = item[0], item[1]
            extra = item[2] if len(item) > 2 else None
            violations.append(dict(key=classify(kind, text, extra), what='[%s] %s' % (kind, text),
                                   detail=dict(scenario=scn, steps=run.sim.steps)))
    uniq = {}
    for viol in violations:
        uniq.setdefault((viol['key'], viol['what'].split(']')[0], viol['what'][:60]), viol)
    violations = list(uniq.values())[:12]
    obs['abstract_states'] = len(states)
    res = dict(verdict='violated' if violations else 'held', nontrivial=bool(classes), cls=classes, obs=obs,
               violations=violations, sample=sample, evaluations=len(scns))
    if inconclusive and not violations and len(inconclusive) == len(scns):
        res['verdict'] = 'inconclusive'
        res['inconclusive_reason'] = 'step budget exhausted in %s' % inconclusive[:3]
    return res
