''' C20 -- BTP-U messages round-trip and segmented transfers reassemble.

Monitor: Ethernet frames captured by the fake AF_PACKET socket for a send
request of the real BTP-U agent; recv_bundle_finished signals and popped data
after feeding frames to the real receive path.

Oracle: the independent BTP-U codec (vf/oracles/btpu_wire.py): every built
message set decodes to the same messages with declared = actual lengths; real
decode -> re-encode is the identity on valid frames; segments each <= MTU,
indices 0..n-1, only the last an END, concatenation by index equals the
bundle; each segment once in any order => exactly one queued copy.
'''
import itertools
import random

import dbus

from vf.oracles import btpu_wire as bw

PROPERTY_ID = 'C20'
RULE = ('seeded message sets (bundle PDU, transfer segment / end with 0-3 hints, definite padding, trailing zero padding) through '
        'both codecs in both directions; bundle lengths x MTUs around the segmentation threshold (mtu-4) and beyond; all '
        'permutations of <= 6 segments produced by the real sender (thorough; <= 5 quick), seeded permutations beyond; two '
        'transfers interleaved. Non-trivial = a message set with >= 2 messages or a segmented transfer; distinct = distinct frame '
        'bytes / arrival sequence.')
ASSUMPTIONS = [
    'vf/oracles/btpu_wire.py is written from the header layout in src/btpu/messages.py (there is no published specification to be independent from)',
    'fake AF_PACKET sockets and interface table; raw Ethernet behaviour is not under test',
]
DECIDING = ['btpu.agent:Agent._send_transfer', 'btpu.agent:Agent._recv_msg', 'btpu.messages:MessageHead.self_build',
            'btpu.messages:MessageHead.extract_padding', 'btpu.agent:Agent._process_tx_queue']
REQUIRED_OBS = ['codec_sets', 'sends', 'segmented_sends', 'segments_checked', 'receive_histories', 'interleaved_histories', 'number_reused_later_histories', 'fileobj_sends', 'multi_message_frames']

IF_NAME = 'veth0'
LOCAL_MAC = 'aa-bb-cc-00-00-01'
PEER_MAC = 'aa-bb-cc-00-00-02'


class BtpuNode(object):
    def __init__(self, mtu):
        import psutil
        import btpu.agent
        import btpu.config
        from vf.world.sim import Sim, install_clock
        from vf.world import net as vnet
        self.sim = Sim(seed=0, policy='eager')
        psutil.FAKE_IFS[IF_NAME] = LOCAL_MAC
        self._mod = btpu.agent
        self._orig = btpu.agent.socket
        btpu.agent.socket = vnet.FakeSocketModule(self.sim.net)
        install_clock()
        cfg = btpu.config.Config(node_id='dtn://btpu-a/', mtu_default=mtu)
        cfg._bus_conn = dbus.bus.BusConnection('vf-btpu')
        with self.sim.as_node('T'):
            self.agent = btpu.agent.Agent(cfg, bus_kwargs=dict(conn=cfg.bus_conn, object_path='/org/ietf/dtn/btpu/Agent'))
        self.path = '/org/ietf/dtn/btpu/Agent'

    def close(self):
        self._mod.socket = self._orig

    def call(self, member, *args):
        from vf import tcpcl_harness as th
        return th._bus_call(self.sim, 'T', self.agent, self.path, getattr(type(self.agent), member), member, args)

    def frames(self):
        out = []
        for sock in getattr(self.sim.net, 'raw_sockets', []):
            out += [item[2] for item in sock.sent]
        return out

    def recv(self, payload, peer=PEER_MAC):
        ''' Hand one received BTP-U payload to the real receive path. '''
        import macaddress
        from btpu.agent import EthernetChannel
        conv = EthernetChannel(local_if=IF_NAME, peer_address=macaddress.EUI48(peer), local_address=macaddress.EUI48(LOCAL_MAC))
        with self.sim.as_node('T'):
            self.agent._recv_msg(None, bytes(payload), conv)
        return self.sim.settle(5000)

    def queue(self):
        return [str(x) for x in self.call('recv_bundle_get_queue')]


def bundle_of(length, seed):
    return bytes(((pos * 41) ^ (seed * 13) ^ (pos >> 8) ^ 0x6b) & 0xFF for pos in range(length))


def check_send(length, mtu, obs, skip_ids=0, salt=0, file_pos=None):
    node = BtpuNode(mtu)
    problems = []
    try:
        node.agent._tx_id = skip_ids
        bundle = bundle_of(length, length + salt * 7919)
        if file_pos is None:
            node.call('send_bundle_data', dbus.ByteArray(bundle), dbus.Dictionary({'address': PEER_MAC, 'local_if': IF_NAME}, signature='sv'))
        else:
            # the in-process entry point (what a co-located BP agent uses): a file object that has just been written, or partly
            # read, is at some position other than its start; the bundle is the whole content
            import io
            fobj = io.BytesIO(bundle)
            fobj.seek(len(bundle) if file_pos < 0 else min(len(bundle), file_pos))
            with node.sim.as_node('T'):
                node.agent.send_bundle_fileobj(fobj, {'address': PEER_MAC, 'local_if': IF_NAME})
            obs['fileobj_sends'] = obs.get('fileobj_sends', 0) + 1
        res = node.sim.settle(50000)
        obs['sends'] += 1
        if node.sim.world.callback_errors:
            err = node.sim.world.callback_errors[0]
            problems.append('callback %s raised %s: %s' % (err.source, err.exc_type, str(err.exc)[:90]))
            return problems, [], bundle
        frames = node.frames()
        if not frames:
            problems.append('no frame was sent (%s)' % res)
            return problems, [], bundle
        payloads = []
        for frame in frames:
            if len(frame) < 14 or frame[12:14] != b'\x88\xb5':
                problems.append('frame without the BTP-U ethertype: %s' % frame[:16].hex())
                continue
            payloads.append(frame[14:])
        msgs = []
        for payload in payloads:
            if mtu is not None and len(payload) > mtu:
                problems.append('a frame payload of %d octets exceeds the MTU %d' % (len(payload), mtu))
            try:
                dec, _pad = bw.decode_set(payload)
            except bw.BtpuError as err:
                problems.append('a frame does not decode: %s' % err)
                continue
            for msg in dec:
                if msg['declared'] != msg['actual']:
                    problems.append('declared length %d, actual %d' % (msg['declared'], msg['actual']))
            msgs += dec
        if len(msgs) == 1 and msgs[0]['type'] == bw.T_BUNDLE:
            if msgs[0]['body'] != bundle:
                problems.append('bundle PDU body differs from the bundle')
            return problems, payloads, bundle
        obs['segmented_sends'] += 1
        parts = {}
        xfers = set()
        for pos, msg in enumerate(msgs):
            obs['segments_checked'] += 1
            if msg['type'] not in (bw.T_SEG, bw.T_END):
                problems.append('unexpected message type %d in a segmented transfer' % msg['type'])
                continue
            xnum, idx, data = bw.seg_fields(msg)
            xfers.add(xnum)
            if idx in parts:
                problems.append('segment index %d sent twice' % idx)
            parts[idx] = data
            is_last = pos == len(msgs) - 1
            if (msg['type'] == bw.T_END) != is_last:
                problems.append('segment %d of %d is a %s' % (idx, len(msgs), 'transfer-end' if msg['type'] == bw.T_END else 'plain segment'))
            hint = [val for (htype, val) in msg['hints'] if htype == 0]
            if hint and int.from_bytes(hint[0], 'big') != len(bundle):
                problems.append('length hint %d, bundle is %d octets' % (int.from_bytes(hint[0], 'big'), len(bundle)))
        if sorted(parts) != list(range(len(parts))):
            problems.append('segment indices %s are not 0..n-1' % sorted(parts))
        elif b''.join(parts[idx] for idx in range(len(parts))) != bundle:
            problems.append('segments concatenated by index differ from the bundle')
        if len(xfers) > 1:
            problems.append('segments of one transfer carry transfer numbers %s' % sorted(xfers))
        return problems, payloads, bundle
    finally:
        node.close()


def check_receive(arrivals, originals, obs):
    ''' arrivals: list of (key, idx, payload, peer mac); originals: key -> (bundle, nsegments) '''
    node = BtpuNode(None)
    problems = []
    try:
        got_idx = {key: set() for key in originals}
        copies = {key: 0 for key in originals}
        for step, (key, idx, payload, peer) in enumerate(arrivals):
            before = node.queue()
            try:
                res = node.recv(payload, peer)
            except Exception as err:  # pylint: disable=broad-except
                # (in the daemon this call is made from the socket watch: the exception would leave the event loop callback)
                problems.append('arrival %d: the receive path raised %s: %s' % (step, type(err).__name__, str(err)[:80]))
                break
            if node.sim.world.callback_errors:
                err = node.sim.world.callback_errors[0]
                problems.append('arrival %d: callback %s raised %s: %s' % (step, err.source, err.exc_type, str(err.exc)[:80]))
                break
            for (pkey, pidx) in (idx if key == 'multi' else [(key, idx)]):
                got_idx[pkey].add(pidx)
            new = [tid for tid in node.queue() if tid not in before]
            for tid in new:
                data = bytes(node.call('recv_bundle_pop_data', tid))
                owners = [okey for okey, (orig, _n) in originals.items() if orig == data]
                if not owners:
                    problems.append('arrival %d: queued item of %d octets equals no bundle that was sent' % (step, len(data)))
                    continue
                # (two transfers may carry equal octets: attribute the copy to a complete one that has none yet)
                complete = sorted((okey for okey in owners if got_idx[okey] == set(range(originals[okey][1]))), key=lambda okey: copies[okey])
                if not complete:
                    okey = owners[0]
                    problems.append('arrival %d: bundle queued while segments %s are missing' % (
                        step, sorted(set(range(originals[okey][1])) - got_idx[okey])))
                else:
                    okey = complete[0]
                copies[okey] += 1
            if problems:
                break
        if not problems:
            for key, (orig, nseg) in originals.items():
                done = got_idx[key] == set(range(nseg))
                if done and copies[key] != 1:
                    problems.append('transfer %s: every segment arrived once, %d copies queued' % (key, copies[key]))
        obs['receive_histories'] += 1
        return problems
    finally:
        node.close()


def check_number_reused_later(gap_ms, nseg, obs):
    ''' A transfer completes; a little later (within the receiver's reassembly time-out of the first one) the same peer uses the
    transfer number again, its segments arriving over a second or so.  Each segment of the second transfer arrives once: it is
    queued once.  (Timers armed for the first transfer must not reach into the second.) '''
    node = BtpuNode(None)
    try:
        first = bundle_of(20 * nseg, 3)
        second = bundle_of(20 * nseg, 4)
        sets = []
        for bundle in (first, second):
            sets.append([bw.encode_msg(dict(type=bw.T_END if idx == nseg - 1 else bw.T_SEG, hints=[], body=bw.seg_body(5, idx, bundle[idx * 20:(idx + 1) * 20])))
                         for idx in range(nseg)])
        for payload in sets[0]:
            node.recv(payload, PEER_MAC)
        popped = [bytes(node.call('recv_bundle_pop_data', tid)) for tid in node.queue()]
        if popped != [first]:
            return ['the first transfer was not queued once: %d item(s)' % len(popped)]
        for idx, payload in enumerate(sets[1]):
            node.sim.advance(gap_ms * 10 ** 6)
            try:
                node.recv(payload, PEER_MAC)
            except Exception as err:  # pylint: disable=broad-except
                return ['segment %d of the second transfer: the receive path raised %s' % (idx, type(err).__name__)]
        node.sim.advance(3 * 10 ** 9)
        obs['receive_histories'] += 1
        obs['number_reused_later_histories'] = obs.get('number_reused_later_histories', 0) + 1
        problems = []
        popped = [bytes(node.call('recv_bundle_pop_data', tid)) for tid in node.queue()]
        if popped != [second]:
            problems.append('transfer number 5 used again %d ms after the first transfer completed, segments %d ms apart: every segment of the second '
                            'transfer arrived once but %d bundle(s) were queued for it' % (gap_ms, gap_ms, len(popped)))
        errs = [err for err in node.sim.world.callback_errors]
        if errs:
            problems.append('a timer armed for an earlier segment raised: callback %s raised %s' % (errs[0].source, errs[0].exc_type))
        return problems
    finally:
        node.close()


def check_slow_segments(gap_ms, nseg, order_seed, obs):
    ''' The segments of one transfer arrive slowly: every gap is below the receiver's one-second reassembly time-out (which each
    new segment restarts), the whole transfer takes longer than that.  Each segment arrives once: the bundle is queued once. '''
    node = BtpuNode(None)
    try:
        bundle = bundle_of(20 * nseg, 9)
        payloads = [bw.encode_msg(dict(type=bw.T_END if idx == nseg - 1 else bw.T_SEG, hints=[], body=bw.seg_body(6, idx, bundle[idx * 20:(idx + 1) * 20])))
                    for idx in range(nseg)]
        order = list(range(nseg))
        random.Random(order_seed).shuffle(order)
        for pos, idx in enumerate(order):
            if pos:
                node.sim.advance(gap_ms * 10 ** 6)
            try:
                node.recv(payloads[idx], PEER_MAC)
            except Exception as err:  # pylint: disable=broad-except
                return ['segment %d: the receive path raised %s' % (idx, type(err).__name__)]
        node.sim.advance(3 * 10 ** 9)
        obs['receive_histories'] += 1
        obs['slow_segment_histories'] = obs.get('slow_segment_histories', 0) + 1
        popped = [bytes(node.call('recv_bundle_pop_data', tid)) for tid in node.queue()]
        problems = []
        if popped != [bundle]:
            problems.append('%d segments arriving %d ms apart in order %s (every gap below the reassembly time-out, %d ms in all): each arrived once but %d '
                            'bundle(s) were queued' % (nseg, gap_ms, order, gap_ms * (nseg - 1), len(popped)))
        if node.sim.world.callback_errors:
            problems.append('a receiver timer raised %s' % node.sim.world.callback_errors[0].exc_type)
        return problems
    finally:
        node.close()


def rand_msg(rng):
    mtype = rng.choice([bw.T_BUNDLE, bw.T_SEG, bw.T_END, bw.T_PADDING])
    hints = []
    if mtype in (bw.T_SEG, bw.T_END, bw.T_BUNDLE):
        for _ in range(rng.choice([0, 0, 1, 2, 3])):
            hints.append((rng.choice([0, 1, 5, 127]), bytes(rng.getrandbits(8) for _ in range(rng.choice([0, 1, 4, 40])))))
    if mtype == bw.T_BUNDLE:
        body = b'\x9f' + bytes(rng.getrandbits(8) for _ in range(rng.choice([0, 1, 30, 300]))) + b'\xff'
    elif mtype == bw.T_PADDING:
        body = b'\x00' * rng.choice([0, 1, 7])
    else:
        body = bw.seg_body(rng.choice([0, 1, 2 ** 32 - 1]), rng.choice([0, 1, 255, 2 ** 31]), bytes(rng.getrandbits(8) for _ in range(rng.choice([0, 1, 50]))))
    return dict(type=mtype, hints=hints, body=body)


def real_build(msgs):
    from btpu import messages as bm
    from scapy.packet import Raw
    out = []
    for msg in msgs:
        hints = [bm.HintHead(hint_type=htype) / Raw(val) if val else bm.HintHead(hint_type=htype) for (htype, val) in msg['hints']]
        head = bm.MessageHead(hints=hints)
        if msg['type'] == bw.T_BUNDLE:
            pkt = head / bm.BundlePdu(msg['body'])
        elif msg['type'] == bw.T_PADDING:
            pkt = head / bm.DefinitePadding(msg['body']) if msg['body'] else bm.MessageHead(msg_type=1, hints=hints)
        else:
            xnum, idx, data = bw.seg_fields(msg)
            cls = bm.TransferSeg if msg['type'] == bw.T_SEG else bm.TransferEnd
            pkt = head / cls(xfer_num=xnum, seg_idx=idx)
            if data:
                pkt = pkt / Raw(data)
        out.append(pkt)
    return out


def check_codec(msgs, trailing, obs):
    from btpu import messages as bm
    problems = []
    obs['codec_sets'] += 1
    want = [(m['type'], [(h, bytes(v)) for (h, v) in m['hints']], bytes(m['body'])) for m in msgs]
    # (1) real builder -> oracle decoder
    try:
        enc = b''.join(bytes(pkt) for pkt in real_build(msgs)) + trailing
        dec, pad = bw.decode_set(enc)
        got = [(m['type'], m['hints'], m['body']) for m in dec]
        if got != want:
            problems.append('real build decoded by the oracle as %s, built from %s' % (str(got)[:200], str(want)[:200]))
        for msg in dec:
            if msg['declared'] != msg['actual']:
                problems.append('real build: declared length %d, actual %d' % (msg['declared'], msg['actual']))
    except Exception as err:  # pylint: disable=broad-except
        problems.append('real build / oracle decode raised %s: %s' % (type(err).__name__, str(err)[:100]))
        return problems
    # (2) oracle encoder -> real decoder -> same messages -> re-encode identity
    try:
        enc2 = bw.encode_set(msgs, trailing)
        pset = bm.MessageSet(enc2)
        got = []
        for item in pset.msgs:
            hints = [(int(h.hint_type), bytes(h.payload)) for h in item.hints]
            body = bytes(item.payload) if item.payload else b''
            got.append((int(item.msg_type), hints, body))
        if got != want:
            problems.append('oracle encoding decoded by the real classes as %s, expected %s' % (str(got)[:200], str(want)[:200]))
        again = bytes(pset)
        if again != enc2:
            problems.append('decode then re-encode changed the frame at offset %d (%s -> %s)' % (
                next((i for i, (a, b) in enumerate(zip(again, enc2)) if a != b), min(len(again), len(enc2))), enc2.hex()[:80], again.hex()[:80]))
    except Exception as err:  # pylint: disable=broad-except
        problems.append('real decode raised %s: %s' % (type(err).__name__, str(err)[:100]))
    return problems


def check_unlisten_other(length, mtu, stop_after, order_seed, obs):
    ''' The agent listens on two interfaces; while a segmented transfer is arriving on one, the user stops listening on the
    OTHER one.  Every segment arrives exactly once: one copy is queued. '''
    import psutil
    problems, payloads, bundle = check_send(length, mtu, obs, salt=7)
    if problems or len(payloads) < 2:
        return []
    node = BtpuNode(None)
    psutil.FAKE_IFS['eth1'] = 'aa-bb-cc-00-00-09'
    try:
        for ifname in (IF_NAME, 'eth1'):
            node.call('listen', ifname, dbus.Dictionary({}, signature='sv'))
        order = list(range(len(payloads)))
        random.Random(order_seed).shuffle(order)
        copies = 0
        for step, idx in enumerate(order):
            if step == stop_after:
                try:
                    node.call('listen_stop', 'eth1')
                    obs['unlisten_calls_served'] = obs.get('unlisten_calls_served', 0) + 1
                except Exception:  # pylint: disable=broad-except
                    # (the call fails on its own in this tree; what matters is that the transfer on the other interface goes on)
                    obs['unlisten_calls_failed'] = obs.get('unlisten_calls_failed', 0) + 1
            before = node.queue()
            node.recv(payloads[idx])
            for tid in [tid for tid in node.queue() if tid not in before]:
                data = bytes(node.call('recv_bundle_pop_data', tid))
                if data != bundle:
                    return ['queued item of %d octets differs from the bundle' % len(data)]
                copies += 1
        obs['receive_histories'] += 1
        obs['unlisten_histories'] = obs.get('unlisten_histories', 0) + 1
        if copies != 1:
            return ['every segment arrived once on %s while listening on eth1 was stopped after %d of %d segments: %d copies queued' % (
                IF_NAME, stop_after, len(payloads), copies)]
        return []
    finally:
        psutil.FAKE_IFS.pop('eth1', None)
        node.close()


def cases(tier, seed):
    out = []
    thorough = tier == 'thorough'
    for rep in range(40 if thorough else 3):
        out.append(dict(id='unlisten-%d' % rep, kind='unlisten', seed=seed * 53 + rep))
    for idx in range(900 if thorough else 12):
        out.append(dict(id='codec-%d' % idx, kind='codec', seed=seed * 811 + idx, count=200 if thorough else 60))
    for mtu in ((60, 64, 100, 128, 256, 1500) if thorough else (64, 100, 256)):
        out.append(dict(id='send-%d' % mtu, kind='send', mtu=mtu, dense=thorough))
    out.append(dict(id='send-none', kind='send', mtu=None, dense=thorough))
    out.append(dict(id='oracle-segments', kind='oracle', seed=seed))
    for rep in range(160 if thorough else 4):
        out.append(dict(id='perm-%d' % rep, kind='perm', seed=seed * 17 + rep, maxn=6 if thorough else 5))
    for rep in range(2400 if thorough else 8):
        out.append(dict(id='inter-%d' % rep, kind='inter', seed=seed * 29 + rep, count=10 if thorough else 5))
    return out


def run_case(case):
    obs = dict(codec_sets=0, sends=0, segmented_sends=0, segments_checked=0, receive_histories=0, interleaved_histories=0)
    violations = []
    classes = set()
    sample = None
    evaluations = 0
    rng = random.Random(case.get('seed', 0))

    def note(problems, tag, desc, cls, nontrivial=True):
        nonlocal sample, evaluations
        evaluations += 1
        if nontrivial:
            classes.add(cls)
        if sample is None:
            sample = dict(kind=tag, what=desc)
        for text in problems:
            violations.append(dict(key=classify(tag, text, desc), what='[%s] %s' % (tag, text), detail=dict(case=desc)))

    kind = case['kind']
    if kind == 'codec':
        for _ in range(case['count']):
            msgs = [rand_msg(rng) for _ in range(rng.choice([1, 1, 2, 3, 5]))]
            trailing = b'\x00' * rng.choice([0, 0, 1, 9])
            enc = bw.encode_set(msgs, trailing)
            note(check_codec(msgs, trailing, obs), 'codec', dict(frame=enc.hex()[:160]), hash(enc) & 0xFFFFFFFFFFFF, nontrivial=len(msgs) >= 2)
    elif kind == 'send':
        mtu = case['mtu']
        if mtu is None:
            lens = [0, 1, 100, 5000, 70000]
        else:
            lens = sorted(set([0, 1, mtu - 6, mtu - 5, mtu - 4, mtu - 3, mtu - 18, mtu - 17, 2 * (mtu - 18), 2 * (mtu - 18) + 1, 3 * mtu, 10 * mtu + 3]
                              + (list(range(max(0, mtu - 30), mtu + 40, 3)) if case['dense'] else [])))
            lens = [val for val in lens if val >= 0]
        for length in lens:
            for skip in ((0, 255, 2 ** 31) if mtu and length > mtu else (0,)):
                problems, payloads, _bundle = check_send(length, mtu, obs, skip_ids=skip)
                note(problems, 'send', dict(length=length, mtu=mtu, first_id=skip, frames=len(payloads)), 'send|%s|%s|%s' % (length, mtu, skip),
                     nontrivial=len(payloads) > 1)
            if length in lens[2:5]:
                for file_pos in (-1, 30, 0):
                    problems, payloads, _bundle = check_send(length, mtu, obs, file_pos=file_pos)
                    note(problems, 'send-fileobj', dict(length=length, mtu=mtu, file_pos=file_pos, frames=len(payloads)),
                         'sendf|%s|%s|%s' % (length, mtu, file_pos), nontrivial=len(payloads) > 1)
    elif kind == 'oracle':
        # segment sets built by the independent encoder (another sender implementation), incl. a single-segment transfer
        for nseg in (1, 2, 3, 4):
            for with_hint in (False, True):
                bundle = bundle_of(rng.choice([1, 10, 90]) * nseg, nseg)
                size = -(-len(bundle) // nseg)
                payloads = []
                for idx in range(nseg):
                    hints = [(0, len(bundle).to_bytes(4, 'big'))] if with_hint else []
                    payloads.append(bw.encode_msg(dict(type=bw.T_END if idx == nseg - 1 else bw.T_SEG, hints=hints,
                                                       body=bw.seg_body(9, idx, bundle[idx * size:(idx + 1) * size]))))
                key = ('o', nseg)
                for perm in itertools.permutations(range(nseg)):
                    arrivals = [(key, idx, payloads[idx], PEER_MAC) for idx in perm]
                    note(check_receive(arrivals, {key: (bundle, nseg)}, obs), 'oracle-segments', dict(n=nseg, order=list(perm), hint=with_hint),
                         'oracle|%d|%s|%s' % (nseg, perm, with_hint))
        for (gap_ms, nseg) in ((260, 5), (400, 4), (900, 3), (990, 2), (100, 5)):
            for order_seed in (0, 1, 2):
                note(check_slow_segments(gap_ms, nseg, order_seed, obs), 'slow-segments', dict(gap_ms=gap_ms, nseg=nseg, order_seed=order_seed),
                     'slow|%d|%d|%d' % (gap_ms, nseg, order_seed))
        for gap_ms in (300, 450):
            for nseg in (2, 3):
                note(check_number_reused_later(gap_ms, nseg, obs), 'number-reused-later', dict(gap_ms=gap_ms, nseg=nseg), 'reuse-later|%d|%d' % (gap_ms, nseg))
        # another sender may cut a bundle so that a piece is empty (an exact multiple of its segment size, then an empty end segment)
        for sizes in ([20, 0], [20, 20, 0], [15, 0, 15], [0, 30]):
            bundle = bundle_of(sum(sizes), 7 + len(sizes))
            payloads, off = [], 0
            for idx, size in enumerate(sizes):
                payloads.append(bw.encode_msg(dict(type=bw.T_END if idx == len(sizes) - 1 else bw.T_SEG, hints=[],
                                                   body=bw.seg_body(11, idx, bundle[off:off + size]))))
                off += size
            key = ('e', tuple(sizes))
            for perm in itertools.permutations(range(len(sizes))):
                arrivals = [(key, idx, payloads[idx], PEER_MAC) for idx in perm]
                note(check_receive(arrivals, {key: (bundle, len(sizes))}, obs), 'oracle-segments-with-empty-piece', dict(sizes=sizes, order=list(perm)),
                     'oracle-empty|%s|%s' % (sizes, perm))
    elif kind == 'perm':
        mtu = rng.choice([40, 50, 64])
        while True:
            length = rng.randint(mtu, 5 * mtu)
            problems, payloads, bundle = check_send(length, mtu, obs, skip_ids=rng.choice([0, 3]))
            if problems or 2 <= len(payloads) <= case['maxn']:
                break
        note(problems, 'send', dict(length=length, mtu=mtu), 'perm-send|%d|%d' % (length, mtu))
        if not problems:
            key = ('x', 0)
            idxs = list(range(len(payloads)))
            for perm in itertools.permutations(idxs):
                arrivals = [(key, idx, payloads[idx], PEER_MAC) for idx in perm]
                note(check_receive(arrivals, {key: (bundle, len(payloads))}, obs), 'perm', dict(n=len(payloads), order=list(perm)),
                     'perm|%s|%s' % (length, perm))
    elif kind == 'unlisten':
        for mtu in (64, 100):
            length = rng.randint(3 * mtu, 5 * mtu)
            nseg_guess = 6
            for stop_after in range(0, nseg_guess):
                note(check_unlisten_other(length, mtu, stop_after, rng.randrange(1000), obs), 'unlisten', dict(length=length, mtu=mtu, stop_after=stop_after),
                     'unlisten|%d|%d|%d' % (length, mtu, stop_after))
    elif kind == 'inter':
        for _ in range(case['count']):
            originals = {}
            arrivals = []
            peers = [PEER_MAC, 'aa-bb-cc-00-00-03']
            for tnum in range(rng.choice([2, 3])):
                mtu = rng.choice([40, 64])
                length = rng.randint(mtu, 6 * mtu)
                # same transfer number from different peers, different numbers from the same peer
                peer = peers[tnum % 2]
                skip = rng.choice([0, 0, 1])
                key = (peer, skip)
                if key in originals:
                    continue
                problems, payloads, bundle = check_send(length, mtu, obs, skip_ids=skip, salt=tnum + 1)
                if problems or len(payloads) < 2:
                    continue
                originals[key] = (bundle, len(payloads))
                for idx, payload in enumerate(payloads):
                    arrivals.append((key, idx, payload, peer))
            rng.shuffle(arrivals)
            if rng.random() < 0.4 and originals:
                # afterwards the same peer starts over with a transfer number it has used before (a restarted sender): a complete,
                # in-order second transfer under an old number must be reassembled like any other
                (peer, skip) = rng.choice(sorted(originals))
                mtu = rng.choice([40, 64])
                problems, payloads, bundle = check_send(rng.randint(mtu, 4 * mtu), mtu, obs, skip_ids=skip, salt=50 + len(originals))
                if not problems and len(payloads) >= 2:
                    key2 = (peer, skip, 'again')
                    originals[key2] = (bundle, len(payloads))
                    order = list(range(len(payloads)))
                    if rng.random() < 0.5:
                        rng.shuffle(order)
                    arrivals += [(key2, idx, payloads[idx], peer) for idx in order]
                    obs['reused_transfer_numbers'] = obs.get('reused_transfer_numbers', 0) + 1
            # hints are optional per message: some messages lose theirs, some get a (correct) transfer length hint of their own, so that
            # in a frame of several messages one with hints is followed by one without
            from vf.oracles import btpu_wire as _bw
            rehinted = []
            for (key, idx, payload, peer) in arrivals:
                try:
                    msgs, _end = _bw.decode_set(payload)
                except _bw.BtpuError:
                    msgs = []
                roll = rng.random()
                if len(msgs) == 1 and key in originals and roll < 0.7:
                    msg = dict(type=msgs[0]['type'], body=msgs[0]['body'])
                    if roll < 0.35:
                        msg['hints'] = [(0, len(originals[key][0]).to_bytes(4, 'big'))]
                        obs['messages_given_a_length_hint'] = obs.get('messages_given_a_length_hint', 0) + 1
                    else:
                        obs['messages_stripped_of_hints'] = obs.get('messages_stripped_of_hints', 0) + 1
                    payload = _bw.encode_msg(msg)
                rehinted.append((key, idx, payload, peer))
            arrivals = rehinted
            if len(originals) >= 2 and rng.random() < 0.6:
                # one peer may put messages of several transfers into one frame: neighbours from the same peer are merged (the second
                # message of such a frame is handled like any other, whatever the first one did)
                merged = []
                for arr in arrivals:
                    last = merged[-1] if merged else None
                    if last is not None and last[3] == arr[3] and rng.random() < 0.5:
                        parts = (last[1] if last[0] == 'multi' else [(last[0], last[1])]) + [(arr[0], arr[1])]
                        if last[0] != 'multi' and last[0] != arr[0] and last[0] in originals and rng.random() < 0.7:
                            # the first message of the frame carries its transfer's length as a hint, the second (another transfer)
                            # carries no hint at all
                            try:
                                (m_one, _e1), (m_two, _e2) = _bw.decode_set(last[2]), _bw.decode_set(arr[2])
                                if len(m_one) == 1 and len(m_two) == 1:
                                    last = (last[0], last[1], _bw.encode_msg(dict(type=m_one[0]['type'], body=m_one[0]['body'],
                                                                                   hints=[(0, len(originals[last[0]][0]).to_bytes(4, 'big'))])), last[3])
                                    arr = (arr[0], arr[1], _bw.encode_msg(dict(type=m_two[0]['type'], body=m_two[0]['body'])), arr[3])
                                    obs['frames_hinted_then_unhinted'] = obs.get('frames_hinted_then_unhinted', 0) + 1
                            except _bw.BtpuError:
                                pass
                        merged[-1] = ('multi', parts, last[2] + arr[2], arr[3])
                        obs['multi_message_frames'] = obs.get('multi_message_frames', 0) + 1
                    else:
                        merged.append(arr)
                arrivals = merged
            if len(originals) >= 2:
                obs['interleaved_histories'] += 1
                note(check_receive(arrivals, originals, obs), 'interleaved', dict(transfers=len(originals), frames=len(arrivals)),
                     'inter|%s' % hash(tuple((a[0], repr(a[1])) for a in arrivals)))
    uniq = {}
    for viol in violations:
        uniq.setdefault((viol['key'], viol['what'][:70]), viol)
    violations = list(uniq.values())[:14]
    return dict(verdict='violated' if violations else 'held', nontrivial=bool(classes), cls=classes, obs=obs,
                violations=violations, sample=sample, evaluations=evaluations)


def classify(tag, text, desc):
    return None
