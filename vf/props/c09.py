''' C09 -- TCPCL termination is graceful, complete and always finishes.

Monitor: boundary histories (signals), both wire logs decoded by the
independent RFC 9174 decoder, socket close events and on-close callbacks of
two real ContactHandlers.

Oracle (at world quiescence) for a termination request at cut-point k:
 (a) every transfer whose START was on the wire before the first SESS_TERM completes (END sent, one 'success' per side);
 (b) no START after the sender's own SESS_TERM nor after it has processed the peer's;
 (c) exactly one SESS_TERM per direction, the responder's with REPLY, none in reply to a reply, two non-replies when simultaneous;
 (d) bounded finish: both sockets closed and both contacts closed with no further user action (quiescent and open = half-open);
 (e) every send_bundle_data id gets exactly one send_bundle_finished, non-success for bundles never started.
For close() and peer disconnect only (d) and "at most one finished per id".
'''
import random

import dbus

from vf.gen import tcpcl_scen as scen
from vf.monitors import tcpcl_seq
from vf.oracles import tcpcl_wire as tw

PROPERTY_ID = 'C09'
RULE = ('base scenarios idle / mid-segment / awaiting ACK / queued-not-started / before establishment; for each, EVERY scheduler '
        'step index of the deterministic baseline run is used as cut-point x requester in {A, B, both in the same step} x action '
        'in {terminate, close, peer process death}; then the same under seeded random chunking/interleaving policies and pipe '
        'capacities. Non-trivial = a run in which the request was accepted while the session was established or establishing; '
        'distinct = distinct (scenario, cut-point, requester, action, dispatch-sequence hash).')
ASSUMPTIONS = [
    'liveness is decided only at world quiescence (no ready source, nothing in flight); an exhausted step budget is inconclusive',
    'a terminate() refused by the endpoint (before establishment / already terminating) imposes no obligation except that the session is unharmed',
    'sim-world network and GLib shim (DESIGN.md section 3.1)',
]
DECIDING = ['tcpcl.session:Messenger.send_sess_term', 'tcpcl.session:ContactHandler.recv_sess_term',
            'tcpcl.session:ContactHandler._check_sess_term', 'tcpcl.session:ContactHandler.close', 'tcpcl.session:Connection.close']
REQUIRED_OBS = ['runs', 'terminate_accepted', 'terminate_refused', 'close_requests', 'disconnects', 'transfers_in_progress_at_term',
                'queued_not_started_at_term', 'simultaneous_terminations']

BASES = {
    'idle': dict(policy='rr', capacity=None, cfg_a={}, cfg_b={}, sends=[]),
    'one-each': dict(policy='rr', capacity=None, cfg_a=dict(segment_size_tx_initial=20), cfg_b=dict(segment_size_tx_initial=20),
                     sends=[dict(side='A', length=50, at=-1), dict(side='B', length=30, at=-1)]),
    'queue': dict(policy='rr', capacity=None, cfg_a=dict(segment_size_tx_initial=16), cfg_b=dict(segment_size_tx_initial=16),
                  sends=[dict(side='A', length=40, at=-1), dict(side='A', length=5, at=-1), dict(side='A', length=33, at=-1),
                         dict(side='B', length=17, at=4)]),
    'late-sends': dict(policy='fair', capacity=None, cfg_a=dict(segment_size_tx_initial=10), cfg_b=dict(segment_size_tx_initial=10),
                       sends=[dict(side='A', length=25, at=20), dict(side='B', length=25, at=25), dict(side='A', length=1, at=40)]),
    'pressure': dict(policy='fair', capacity=24, cfg_a=dict(segment_size_tx_initial=30), cfg_b=dict(segment_size_tx_initial=30),
                     sends=[dict(side='A', length=100, at=-1), dict(side='B', length=64, at=-1), dict(side='A', length=10, at=10)]),
}


def cases(tier, seed):
    out = []
    thorough = tier == 'thorough'
    names = list(BASES) if thorough else ['idle', 'one-each', 'queue', 'pressure']
    for name in names:
        for who in ('A', 'B', 'both'):
            for action in ('terminate', 'close', 'disconnect'):
                if action == 'disconnect' and who == 'both':
                    continue
                stride = 1 if (thorough or name in ('idle', 'one-each')) else 2
                out.append(dict(id='cut-%s-%s-%s' % (name, who, action), kind='cuts', base=name, who=who, action=action,
                                stride=stride, seed=seed))
    for idx in range(400 if thorough else 32):
        out.append(dict(id='rand-%d' % idx, kind='rand', seed=seed * 50021 + idx, count=40 if thorough else 12))
    return out


def _do_action(run, who, action, record):
    sides = ['A', 'B'] if who == 'both' else [who]
    for side in sides:
        if action == 'terminate':
            res = run.call(side, 'terminate', dbus.Byte(0))
            record.append((side, action, not isinstance(res, Exception), run.ends[side].hdl._in_sess, run.sim.world.event_no))
        elif action == 'close':
            res = run.call(side, 'close')
            record.append((side, action, not isinstance(res, Exception), run.ends[side].hdl._in_sess, run.sim.world.event_no))
        else:
            # the process on `side` dies: its sources vanish and its socket is closed by the kernel
            node = run.sim.world.node(side)
            for src in list(node.sources.values()):
                node._kill(src)
            (run.sock_a if side == 'A' else run.sock_b).close()
            record.append((side, action, True, run.ends[side].hdl._in_sess, run.sim.world.event_no))


def run_with_cut(scn, cut, who, action, max_steps=60000):
    record = []
    acts = [dict(at=cut, fn=lambda run: _do_action(run, who, action, record))]
    run, result = scen.execute(scn, max_steps=max_steps, actions=acts)
    return run, result, record


def judge(run, result, record, who, action, obs):
    problems = []
    if result != 'quiescent':
        return None
    errs = [err for err in run.callback_errors()]
    dead = set(side for (side, act, _ok, _in, _no) in record if act == 'disconnect')
    if errs:
        err = errs[0]
        problems.append(('raised', 'event-loop callback %s of %s raised %s: %s' % (err.source, err.node, err.exc_type, str(err.exc)[:100])))
    accepted = [rec for rec in record if rec[2]]
    refused = [rec for rec in record if not rec[2]]
    wires = {side: run.wire(side) for side in ('A', 'B')}
    msgs = {side: [m for (m, _e, _n) in wires[side][0]] for side in ('A', 'B')}

    # the wire must stay legal in every case
    for side, other in (('A', 'B'), ('B', 'A')):
        probs, _counters = tcpcl_seq.check_direction(msgs[side], wires[side][1], msgs[other], side)
        for item in probs:
            problems.append(('wire', item))

    # at most one finished signal per queued id, in every case
    for side in ('A', 'B'):
        fins = {}
        for ev in run.signals(side, 'send_bundle_finished'):
            fins.setdefault(str(ev['args'][0]), []).append(ev['args'][2])
        for tid, results in fins.items():
            if len(results) > 1:
                problems.append(('finished-twice', '%s: transfer %s got %d finished signals %s' % (side, tid, len(results), results)))

    if action == 'terminate':
        if accepted:
            obs['terminate_accepted'] += 1
        if refused:
            obs['terminate_refused'] += 1
        if len(accepted) == 2:
            obs['simultaneous_terminations'] += 1
    elif action == 'close':
        obs['close_requests'] += 1
    else:
        obs['disconnects'] += 1

    if action == 'terminate' and not accepted:
        # refused: the session must be unharmed -- it is either still open and healthy, or was never established
        for side in ('A', 'B'):
            if run.closed(side):
                problems.append(('harmed', 'terminate() was refused (%s) but endpoint %s ended up closed' % (
                    type(run.user_errors[0][2]).__name__ if run.user_errors else '?', side)))
        return problems

    live = [side for side in ('A', 'B') if side not in dead]
    # (d) bounded finish
    for side in live:
        if not run.closed(side):
            hdl = run.ends[side].hdl
            problems.append(('half-open', 'world is quiescent after %s by %s but endpoint %s is still open (state %s, in_term %s, idle %s, '
                             'tx queue %d, awaiting ack %d)' % (action, who, side, hdl._state, hdl._in_term, hdl.is_sess_idle(),
                                                                len(hdl._tx_pend_start), len(hdl._tx_pend_ack))))
        elif not run.ends[side].closed_events:
            problems.append(('no-close-callback', 'endpoint %s closed its socket but never ran its on-close callback' % side))
    if action != 'terminate':
        return problems

    # positions of SESS_TERM per direction
    term_idx = {}
    for side in ('A', 'B'):
        idxs = [idx for idx, msg in enumerate(msgs[side]) if msg['type'] == 'SESS_TERM']
        term_idx[side] = idxs
        if len(idxs) != 1:
            problems.append(('term-count', '%s sent %d SESS_TERM messages' % (side, len(idxs))))
    # (c) reply flags
    if all(len(term_idx[side]) == 1 for side in ('A', 'B')):
        flags = {side: msgs[side][term_idx[side][0]]['flags'] & tw.TERM_REPLY for side in ('A', 'B')}
        requesters = set(rec[0] for rec in accepted)
        for side in ('A', 'B'):
            want_reply = side not in requesters
            if bool(flags[side]) != want_reply:
                problems.append(('reply-flag', '%s sent SESS_TERM with reply=%s, expected reply=%s (requesters %s)' % (
                    side, bool(flags[side]), want_reply, sorted(requesters))))
    # (a)+(e): transfers
    first_term_event = min([rec[4] for rec in accepted]) if accepted else None
    for (src, dst) in (('A', 'B'), ('B', 'A')):
        seq = wires[src][0]
        term_pos = term_idx[src][0] if term_idx[src] else None
        # transfers whose START was written before this side's own SESS_TERM
        started_ids = []
        for idx, (msg, _end, event_no) in enumerate(seq):
            if msg['type'] == 'XFER_SEGMENT' and msg['flags'] & tw.FLAG_START:
                started_ids.append((msg['transfer_id'], idx, event_no))
        fins = {str(ev['args'][0]): ev['args'][2] for ev in run.signals(src, 'send_bundle_finished')}
        rfins = {str(ev['args'][0]): ev['args'][2] for ev in run.signals(dst, 'recv_bundle_finished')}
        queued = [tid for (tid, _payload, _no) in run.queued[src]]
        in_progress = 0
        for (xid, idx, _event_no) in started_ids:
            if term_pos is not None and idx > term_pos:
                continue  # reported by the wire automaton as a START after SESS_TERM
            in_progress += 1
            if fins.get(str(xid)) != 'success':
                problems.append(('incomplete', '%s->%s: transfer %d was started before termination but its sender result is %r' % (
                    src, dst, xid, fins.get(str(xid)))))
            if rfins.get(str(xid)) != 'success':
                problems.append(('incomplete', '%s->%s: transfer %d was started before termination but the receiver result is %r' % (
                    src, dst, xid, rfins.get(str(xid)))))
        obs['transfers_in_progress_at_term'] += in_progress
        started_set = set(str(xid) for (xid, _idx, _no) in started_ids)
        for tid in queued:
            if tid not in fins:
                problems.append(('lost', '%s: queued transfer %s never got a send_bundle_finished signal' % (src, tid)))
            elif tid not in started_set:
                obs['queued_not_started_at_term'] += 1
                if fins[tid] == 'success':
                    problems.append(('lost', '%s: transfer %s was never started but reported success' % (src, tid)))
        # delivered data must still be intact
        want = {tid: payload for (tid, payload, _no) in run.queued[src]}
        for (tid, data) in run.drain(dst):
            if want.get(tid) != data:
                problems.append(('content', '%s->%s: received transfer %s differs from what was queued' % (src, dst, tid)))
    return problems


def classify(kind, text):
    return None


def run_case(case):
    obs = dict(runs=0, terminate_accepted=0, terminate_refused=0, close_requests=0, disconnects=0, transfers_in_progress_at_term=0,
               queued_not_started_at_term=0, simultaneous_terminations=0, budget_exhausted=0, cut_points=0)
    violations = []
    classes = set()
    sample = None
    evaluations = 0

    def one(scn, cut, who, action):
        nonlocal sample, evaluations
        run, result, record = run_with_cut(scn, cut, who, action)
        obs['runs'] += 1
        evaluations += 1
        problems = judge(run, result, record, who, action, obs)
        if problems is None:
            obs['budget_exhausted'] += 1
            return run
        if any(rec[2] for rec in record):
            classes.add('%s|%d|%s|%s|%s' % (scn.get('id'), cut, who, action, run.sim.world.sched_hash))
        if sample is None:
            sample = dict(scenario=scn, cut=cut, who=who, action=action, record=[list(rec[:4]) for rec in record])
        for (kind, text) in problems:
            violations.append(dict(key=classify(kind, text), what='[%s] %s (%s by %s at step %d of %s)' % (kind, text, action, who, cut, scn.get('id')),
                                   detail=dict(scenario=scn, cut=cut, who=who, action=action)))
        return run

    if case['kind'] == 'cuts':
        scn = dict(BASES[case['base']], id=case['base'], seed=case['seed'])
        base_run, base_res = scen.execute(scn, max_steps=60000)
        nsteps = base_run.steps_used + 2 if base_res == 'quiescent' else 200
        obs['cut_points'] = nsteps
        for cut in range(-1, nsteps, case['stride']):
            one(scn, cut, case['who'], case['action'])
    else:
        rng = random.Random(case['seed'])
        for idx in range(case['count']):
            scn = scen.random_scenario(rng, idx, allow_zero=True)
            scn['id'] = 'r%d-%d' % (case['seed'], idx)
            cut = rng.choice([-1, 0, 1, 2, 3, 5, 8, 13, 21, 34, 55, 89, 144, 233, 400])
            who = rng.choice(['A', 'B', 'both'])
            action = rng.choice(['terminate', 'terminate', 'close', 'disconnect'])
            if action == 'disconnect' and who == 'both':
                who = 'A'
            one(scn, cut, who, action)
    uniq = {}
    for viol in violations:
        uniq.setdefault((viol['key'], viol['what'].split(']')[0], viol['what'].split('] ')[1][:50]), viol)
    violations = list(uniq.values())[:16]
    return dict(verdict='violated' if violations else 'held', nontrivial=bool(classes), cls=classes, obs=obs,
                violations=violations, sample=sample, evaluations=evaluations)
