''' C09 -- TCPCL termination is graceful, complete and always finishes.

Monitor: boundary histories (signals), both wire logs decoded by the
independent RFC 9174 decoder, socket close events and on-close callbacks of
two real ContactHandlers.

Oracle (at world quiescence) for a termination request at cut-point k:
 (a) every transfer whose START was on the wire before the first SESS_TERM completes (END sent, one 'success' per side);
 (b) no START after the sender's own SESS_TERM nor after it has processed the peer's;
 (c) exactly one SESS_TERM per direction, the responder's with REPLY, none in reply to a reply, two non-replies when simultaneous;
 (d) bounded finish: both sockets closed and both contacts closed with no further user action (quiescent and open = half-open);
 (e) every send_bundle_data id gets exactly one send_bundle_finished, non-success for bundles never started.
For close() and peer disconnect only (d) and "at most one finished per id".
'''
import random

import dbus

from vf.gen import tcpcl_scen as scen
from vf.monitors import tcpcl_seq
from vf.oracles import tcpcl_wire as tw

PROPERTY_ID = 'C09'
RULE = ('base scenarios idle / mid-segment / awaiting ACK / queued-not-started / before establishment; for each, EVERY scheduler '
        'step index of the deterministic baseline run is used as cut-point x requester in {A, B, both in the same step} x action '
        'in {terminate, close, peer process death}; then the same under seeded random chunking/interleaving policies and pipe '
        'capacities; plus one real endpoint against a conformant scripted peer that reads slowly through small socket buffers, acknowledges or refuses, '
        'sends or answers SESS_TERM and then waits for the endpoint to close (never closes first); plus Agent.shutdown() of real agents holding 1-3 contacts at different stages. Non-trivial = a run in which the request was accepted while the session was established or establishing; '
        'distinct = distinct (scenario, cut-point, requester, action, dispatch-sequence hash).')
ASSUMPTIONS = [
    'liveness is decided only at world quiescence (no ready source, nothing in flight); an exhausted step budget is inconclusive',
    'a terminate() refused by the endpoint (before establishment / already terminating) imposes no obligation except that the session is unharmed',
    'sim-world network and GLib shim (DESIGN.md section 3.1)',
]
DECIDING = ['tcpcl.session:Messenger.send_sess_term', 'tcpcl.session:ContactHandler.recv_sess_term',
            'tcpcl.session:ContactHandler._check_sess_term', 'tcpcl.session:ContactHandler.close', 'tcpcl.session:Connection.close']
REQUIRED_OBS = ['runs', 'terminate_accepted', 'terminate_refused', 'close_requests', 'disconnects', 'transfers_in_progress_at_term',
                'queued_not_started_at_term', 'simultaneous_terminations', 'waiter_terminations', 'waiter_closed_by_endpoint', 'agent_shutdowns', 'slow_incoming_runs']

BASES = {
    'idle': dict(policy='rr', capacity=None, cfg_a={}, cfg_b={}, sends=[]),
    'one-each': dict(policy='rr', capacity=None, cfg_a=dict(segment_size_tx_initial=20), cfg_b=dict(segment_size_tx_initial=20),
                     sends=[dict(side='A', length=50, at=-1), dict(side='B', length=30, at=-1)]),
    'queue': dict(policy='rr', capacity=None, cfg_a=dict(segment_size_tx_initial=16), cfg_b=dict(segment_size_tx_initial=16),
                  sends=[dict(side='A', length=40, at=-1), dict(side='A', length=5, at=-1), dict(side='A', length=33, at=-1),
                         dict(side='B', length=17, at=4)]),
    'late-sends': dict(policy='fair', capacity=None, cfg_a=dict(segment_size_tx_initial=10), cfg_b=dict(segment_size_tx_initial=10),
                       sends=[dict(side='A', length=25, at=20), dict(side='B', length=25, at=25), dict(side='A', length=1, at=40)]),
    'pressure': dict(policy='fair', capacity=24, cfg_a=dict(segment_size_tx_initial=30), cfg_b=dict(segment_size_tx_initial=30),
                     sends=[dict(side='A', length=100, at=-1), dict(side='B', length=64, at=-1), dict(side='A', length=10, at=10)]),
}


def cases(tier, seed):
    out = []
    thorough = tier == 'thorough'
    names = list(BASES) if thorough else ['idle', 'one-each', 'queue', 'pressure']
    for name in names:
        for who in ('A', 'B', 'both'):
            for action in ('terminate', 'close', 'disconnect'):
                if action == 'disconnect' and who == 'both':
                    continue
                stride = 1 if (thorough or name in ('idle', 'one-each')) else 2
                out.append(dict(id='cut-%s-%s-%s' % (name, who, action), kind='cuts', base=name, who=who, action=action,
                                stride=stride, seed=seed))
    for idx in range(1200 if thorough else 32):
        out.append(dict(id='rand-%d' % idx, kind='rand', seed=seed * 50021 + idx, count=40 if thorough else 12))
    for idx in range(96 if thorough else 6):
        out.append(dict(id='waiter-%d' % idx, kind='waiter', seed=seed * 7907 + idx, count=40 if thorough else 14))
    for idx in range(48 if thorough else 2):
        out.append(dict(id='slow-%d' % idx, kind='slow', seed=seed * 4243 + idx, count=30 if thorough else 12))
    # Agent.shutdown(): every contact of the agent, with or without a session, must end (real agents, fake listener sockets)
    idx = 0
    for contacts in (1, 2, 3):
        for who in ('A', 'B'):
            for pre in ((0, 0), (7, 0), (40, 0), (40, 30), (200, 200)):
                for bundles in (0, 2):
                    idx += 1
                    if not thorough and idx % 3:
                        continue
                    out.append(dict(id='agent-%d' % idx, kind='agent', contacts=contacts, who=who, pre_steps=pre[0], mid_steps=pre[1],
                                    bundles=bundles, seed=seed + idx, policy=['fair', 'rr', 'burst'][idx % 3], stagger=[0, 15, 3][idx % 3]))
    # one busy contact, the others idle (they finish their termination first), with and without the stop_on_close option
    for contacts in (2, 3):
        for who in ('A', 'B'):
            for stop_on_close in (False, True):
                out.append(dict(id='agent-asym-%d-%s-%s' % (contacts, who, stop_on_close), kind='agent', contacts=contacts, who=who, pre_steps=60, mid_steps=25,
                                bundles=1, asym=1 if who == 'A' else contacts, seed=seed + contacts, policy='fair' if stop_on_close else 'rr', stagger=0,
                                stop_on_close=stop_on_close))
    # a contact that is already terminating when shutdown() comes, and the immediate stop() of an agent with several contacts
    for who in ('A', 'B'):
        for steps in (1, 4):
            out.append(dict(id='agent-preterm-%s-%d' % (who, steps), kind='agent', contacts=2, who=who, pre_steps=60, mid_steps=25, bundles=1, asym=1,
                            seed=seed + steps, policy='fair', stagger=0, pre_terminate=steps))
        for contacts in (2, 3, 4):
            out.append(dict(id='agent-stop-%s-%d' % (who, contacts), kind='agent', contacts=contacts, who=who, pre_steps=60, mid_steps=10, bundles=1,
                            seed=seed + contacts, policy='fair', stagger=0, stop=True))
    return out


TERM_REASONS = [0, 1, 3, 5, 0, 6, 0xF0, 2, 0xFF, 4, 0x80]


def _do_action(run, who, action, record):
    sides = ['A', 'B'] if who == 'both' else [who]
    for side in sides:
        if action == 'terminate':
            # the reason is the caller's octet: registered codes, unassigned ones and the private-use range alike
            reason = TERM_REASONS[(run.sim.world.event_no + len(record)) % len(TERM_REASONS)]
            res = run.call(side, 'terminate', dbus.Byte(reason))
            record.append((side, action, not isinstance(res, Exception), run.ends[side].hdl._in_sess, run.sim.world.event_no))
        elif action == 'close':
            res = run.call(side, 'close')
            record.append((side, action, not isinstance(res, Exception), run.ends[side].hdl._in_sess, run.sim.world.event_no))
        else:
            # the process on `side` dies: its sources vanish and its socket is closed by the kernel
            node = run.sim.world.node(side)
            for src in list(node.sources.values()):
                node._kill(src)
            (run.sock_a if side == 'A' else run.sock_b).close()
            record.append((side, action, True, run.ends[side].hdl._in_sess, run.sim.world.event_no))


def run_with_cut(scn, cut, who, action, max_steps=60000):
    record = []
    acts = [dict(at=cut, fn=lambda run: _do_action(run, who, action, record))]
    run, result = scen.execute(scn, max_steps=max_steps, actions=acts)
    return run, result, record


def judge(run, result, record, who, action, obs):
    problems = []
    if result != 'quiescent':
        return None
    errs = [err for err in run.callback_errors()]
    dead = set(side for (side, act, _ok, _in, _no) in record if act == 'disconnect')
    if errs:
        err = errs[0]
        problems.append(('raised', 'event-loop callback %s of %s raised %s: %s' % (err.source, err.node, err.exc_type, str(err.exc)[:100])))
    accepted = [rec for rec in record if rec[2]]
    refused = [rec for rec in record if not rec[2]]
    wires = {side: run.wire(side) for side in ('A', 'B')}
    msgs = {side: [m for (m, _e, _n) in wires[side][0]] for side in ('A', 'B')}

    # the wire must stay legal in every case
    for side, other in (('A', 'B'), ('B', 'A')):
        probs, _counters = tcpcl_seq.check_direction(msgs[side], wires[side][1], msgs[other], side)
        for item in probs:
            problems.append(('wire', item))

    # at most one finished signal per queued id, in every case
    for side in ('A', 'B'):
        fins = {}
        for ev in run.signals(side, 'send_bundle_finished'):
            fins.setdefault(str(ev['args'][0]), []).append(ev['args'][2])
        for tid, results in fins.items():
            if len(results) > 1:
                problems.append(('finished-twice', '%s: transfer %s got %d finished signals %s' % (side, tid, len(results), results)))

    if action == 'terminate':
        if accepted:
            obs['terminate_accepted'] += 1
        if refused:
            obs['terminate_refused'] += 1
        if len(accepted) == 2:
            obs['simultaneous_terminations'] += 1
    elif action == 'close':
        obs['close_requests'] += 1
    else:
        obs['disconnects'] += 1

    if action == 'terminate' and not accepted:
        # refused: the session must be unharmed -- it is either still open and healthy, or was never established
        for side in ('A', 'B'):
            if run.closed(side):
                problems.append(('harmed', 'terminate() was refused (%s) but endpoint %s ended up closed' % (
                    type(run.user_errors[0][2]).__name__ if run.user_errors else '?', side)))
        return problems

    live = [side for side in ('A', 'B') if side not in dead]
    # (d) bounded finish
    for side in live:
        if not run.closed(side):
            hdl = run.ends[side].hdl
            problems.append(('half-open', 'world is quiescent after %s by %s but endpoint %s is still open (state %s, in_term %s, idle %s, '
                             'tx queue %d, awaiting ack %d)' % (action, who, side, hdl._state, hdl._in_term, hdl.is_sess_idle(),
                                                                len(hdl._tx_pend_start), len(hdl._tx_pend_ack))))
        elif not run.ends[side].closed_events:
            problems.append(('no-close-callback', 'endpoint %s closed its socket but never ran its on-close callback' % side))
    if action != 'terminate':
        # close() / lost peer: bundles that were accepted but never started must still be reported as not sent
        for side in live:
            # (started = announced by send_bundle_started; what becomes of a transfer cut off in mid-flight by an abrupt close is not stated)
            started = set(str(ev['args'][0]) for ev in run.signals(side, 'send_bundle_started'))
            fins = {}
            for ev in run.signals(side, 'send_bundle_finished'):
                fins.setdefault(str(ev['args'][0]), []).append(ev['args'][2])
            for (tid, _payload, _no) in run.queued[side]:
                if tid in started:
                    continue
                obs['queued_not_started_at_close'] = obs.get('queued_not_started_at_close', 0) + 1
                if tid not in fins:
                    problems.append(('lost', '%s: transfer %s was accepted, never started, and got no send_bundle_finished signal when the contact ended' % (side, tid)))
                elif fins[tid] == ['success']:
                    problems.append(('lost', '%s: transfer %s was never started but reported success' % (side, tid)))
        return problems

    # positions of SESS_TERM per direction
    term_idx = {}
    for side in ('A', 'B'):
        idxs = [idx for idx, msg in enumerate(msgs[side]) if msg['type'] == 'SESS_TERM']
        term_idx[side] = idxs
        if len(idxs) != 1:
            problems.append(('term-count', '%s sent %d SESS_TERM messages' % (side, len(idxs))))
    # (c) reply flags
    if all(len(term_idx[side]) == 1 for side in ('A', 'B')):
        flags = {side: msgs[side][term_idx[side][0]]['flags'] & tw.TERM_REPLY for side in ('A', 'B')}
        requesters = set(rec[0] for rec in accepted)
        for side in ('A', 'B'):
            want_reply = side not in requesters
            if bool(flags[side]) != want_reply:
                problems.append(('reply-flag', '%s sent SESS_TERM with reply=%s, expected reply=%s (requesters %s)' % (
                    side, bool(flags[side]), want_reply, sorted(requesters))))
    # (a)+(e): transfers
    first_term_event = min([rec[4] for rec in accepted]) if accepted else None
    for (src, dst) in (('A', 'B'), ('B', 'A')):
        seq = wires[src][0]
        term_pos = term_idx[src][0] if term_idx[src] else None
        # transfers whose START was written before this side's own SESS_TERM
        started_ids = []
        for idx, (msg, _end, event_no) in enumerate(seq):
            if msg['type'] == 'XFER_SEGMENT' and msg['flags'] & tw.FLAG_START:
                started_ids.append((msg['transfer_id'], idx, event_no))
        fins = {str(ev['args'][0]): ev['args'][2] for ev in run.signals(src, 'send_bundle_finished')}
        rfins = {str(ev['args'][0]): ev['args'][2] for ev in run.signals(dst, 'recv_bundle_finished')}
        queued = [tid for (tid, _payload, _no) in run.queued[src]]
        in_progress = 0
        for (xid, idx, _event_no) in started_ids:
            if term_pos is not None and idx > term_pos:
                continue  # reported by the wire automaton as a START after SESS_TERM
            in_progress += 1
            if fins.get(str(xid)) != 'success':
                problems.append(('incomplete', '%s->%s: transfer %d was started before termination but its sender result is %r' % (
                    src, dst, xid, fins.get(str(xid)))))
            if rfins.get(str(xid)) != 'success':
                problems.append(('incomplete', '%s->%s: transfer %d was started before termination but the receiver result is %r' % (
                    src, dst, xid, rfins.get(str(xid)))))
        obs['transfers_in_progress_at_term'] += in_progress
        started_set = set(str(xid) for (xid, _idx, _no) in started_ids)
        for tid in queued:
            if tid not in fins:
                problems.append(('lost', '%s: queued transfer %s never got a send_bundle_finished signal' % (src, tid)))
            elif tid not in started_set:
                obs['queued_not_started_at_term'] += 1
                if fins[tid] == 'success':
                    problems.append(('lost', '%s: transfer %s was never started but reported success' % (src, tid)))
        # delivered data must still be intact
        want = {tid: payload for (tid, payload, _no) in run.queued[src]}
        for (tid, data) in run.drain(dst):
            if want.get(tid) != data:
                problems.append(('content', '%s->%s: received transfer %s differs from what was queued' % (src, dst, tid)))
    return problems



class Waiter(object):
    ''' One real endpoint against a scripted, protocol-conformant peer that reads slowly through small socket buffers,
    acknowledges (or refuses) what it receives, may send SESS_TERM itself, answers the endpoint's SESS_TERM, and then
    WAITS for the endpoint to close instead of closing first.  Two real endpoints never show this: one of them always
    closes first and the other follows the EOF. '''

    def __init__(self, params):
        from vf.world.sim import Sim
        from vf import tcpcl_harness as th
        self.params = params
        self.sim = Sim(seed=params['seed'], policy=params.get('policy', 'eager'))
        sock_a, sock_b = self.sim.net.tcp_pair(capacity=params['capacity'])
        cfg = th.make_config('dtn://under-test/', segment_size_tx_initial=params['seg'])
        if params['role'] == 'passive':
            self.end = th.Endpoint(self.sim, 'E', cfg, sock_b, passive=True, peer_addr=('10.0.0.1', 40001))
            self.peer_sock, self.end_sock = sock_a, sock_b
        else:
            self.end = th.Endpoint(self.sim, 'E', cfg, sock_a, passive=False, peer_addr=('10.0.0.2', 4556))
            self.peer_sock, self.end_sock = sock_b, sock_a
        self.inbuf = bytearray()    # octets the peer has read from the endpoint
        self.pos = 0
        self.got_contact = False
        self.outbuf = bytearray()   # octets the peer wants to write
        self.msgs = []              # messages of the endpoint decoded by the peer, in order
        self.rx = {}                # endpoint transfer id -> octets received
        self.peer_term_sent = False
        self.end_term = []
        self.acks = 0
        self.late_refuse = []
        self.end.start()

    def queue(self, data):
        self.outbuf += data

    def pump(self, read_max):
        ''' One peer turn: write what fits, read at most read_max octets, react. :return: True if anything moved. '''
        moved = False
        while self.outbuf:
            count = self.peer_sock.tx.write(bytes(self.outbuf[:4096]))
            if count == 0:
                break
            del self.outbuf[:count]
            moved = True
        pipe = self.end_sock.tx
        take = bytes(pipe.rxbuf[:read_max])
        if take:
            del pipe.rxbuf[:len(take)]
            pipe.read_total += len(take)
            self.inbuf += take
            moved = True
        while True:
            try:
                if not self.got_contact:
                    msg, end = tw.decode_contact(self.inbuf, self.pos)
                    self.got_contact = True
                else:
                    msg, end = tw.decode_message(self.inbuf, self.pos)
            except tw.Partial:
                break
            self.pos = end
            self.msgs.append(msg)
            self.react(msg)
            moved = True
        if self.late_refuse and self.peer_term_sent and self.end_term and not self.outbuf and not self.end_sock.tx.rxbuf:
            for tid in self.late_refuse:
                self.queue(tw.encode(dict(type='XFER_REFUSE', reason=2, transfer_id=tid)))
            self.late_refuse = []
            moved = True
        return moved

    def react(self, msg):
        params = self.params
        if msg['type'] == 'XFER_SEGMENT':
            tid = msg['transfer_id']
            if params['refuse'] is True and msg['flags'] & tw.FLAG_START:
                self.queue(tw.encode(dict(type='XFER_REFUSE', reason=2, transfer_id=tid)))
                if params['peer_terminates'] == 'on-refuse' and not self.peer_term_sent:
                    self.peer_term_sent = True
                    self.queue(tw.encode(dict(type='SESS_TERM', flags=0, reason=0)))
            self.rx[tid] = self.rx.get(tid, 0) + len(msg['data'])
            if params['refuse'] == 'late' and msg['flags'] & tw.FLAG_END:
                # the final acknowledgement is withheld; the transfer is refused only after both SESS_TERM were exchanged
                self.late_refuse.append(tid)
            elif not params['refuse'] or params['refuse'] == 'late':
                self.queue(tw.encode(dict(type='XFER_ACK', flags=msg['flags'] & (tw.FLAG_START | tw.FLAG_END), transfer_id=tid, length=self.rx[tid])))
                self.acks += 1
            if params['peer_terminates'] == 'after-first-segment' and not self.peer_term_sent:
                self.peer_term_sent = True
                self.queue(tw.encode(dict(type='SESS_TERM', flags=0, reason=0)))
        elif msg['type'] == 'SESS_TERM':
            self.end_term.append(msg)
            if not self.peer_term_sent and not (msg['flags'] & 1):
                self.peer_term_sent = True
                self.queue(tw.encode(dict(type='SESS_TERM', flags=1, reason=msg['reason'])))


def run_waiter(params, obs):
    wt = Waiter(params)
    sim = wt.sim
    problems = []
    sim.settle(20000)
    wt.queue(tw.encode(dict(type='contact', flags=0)))
    wt.queue(tw.encode(dict(type='SESS_INIT', keepalive=0, segment_mru=params['mru'], transfer_mru=2 ** 30, nodeid=b'dtn://peer/', ext=[])))
    for _ in range(50):
        wt.pump(4096)
        sim.settle(20000)
        if any(msg['type'] == 'SESS_INIT' for msg in wt.msgs):
            break
    tids = []
    for idx, length in enumerate(params['lengths']):
        payload = bytes(((pos * 13) ^ idx ^ 0x51) & 0xFF for pos in range(length))
        try:
            tids.append(str(wt.end.call('send_bundle_data', dbus.ByteArray(payload))))
        except Exception:  # pylint: disable=broad-except
            pass
    requested = False
    turns = 0
    idle_turns = 0
    while turns < 20000 and idle_turns < 3:
        turns += 1
        if params['endpoint_terminates_at'] == turns and not requested:
            requested = True
            try:
                wt.end.call('terminate', dbus.Byte(0))
                obs['terminate_accepted'] += 1
            except Exception:  # pylint: disable=broad-except
                obs['terminate_refused'] += 1   # (already terminating / not established: an error reply at the boundary)
        moved = wt.pump(params['read'])
        res = sim.settle(20000)
        if res != 'quiescent':
            return None
        idle_turns = 0 if (moved or wt.end_sock.tx.rxbuf or wt.outbuf) else idle_turns + 1
        if wt.end_sock.closed:
            break
    obs['runs'] += 1
    obs['waiter_runs'] += 1
    errs = sim.world.callback_errors
    if errs:
        problems.append(('raised', 'event-loop callback %s raised %s: %s' % (errs[0].source, errs[0].exc_type, str(errs[0].exc)[:80])))
    both_terms = wt.peer_term_sent and len(wt.end_term) >= 1
    if both_terms:
        obs['waiter_terminations'] += 1
        if len(wt.end_term) != 1:
            problems.append(('sess-term', 'the endpoint sent %d SESS_TERM' % len(wt.end_term)))
        if not wt.end_sock.closed:
            hdl = wt.end.hdl
            problems.append(('half-open', 'both SESS_TERM exchanged, the peer has read and acknowledged everything and waits for the endpoint to close, '
                             'but the endpoint is still open at quiescence (state %s, in_term %s, awaiting ack %d, unread by peer %d, unsent by peer %d)' % (
                                 hdl.get_state() if hasattr(hdl, 'get_state') else '?', hdl._in_term, len(hdl._tx_pend_ack),
                                 len(wt.end_sock.tx.rxbuf) + len(wt.end_sock.tx.inflight), len(wt.outbuf))))
        else:
            obs['waiter_closed_by_endpoint'] += 1
    # every started transfer got a finished signal
    path = wt.end.path
    for tid in tids:
        fin = [ev for ev in sim.hist.events if ev['kind'] == 'signal' and ev['path'] == path and ev['member'] == 'send_bundle_finished' and str(ev['args'][0]) == tid and ev.get('exported', True)]
        if both_terms and wt.end_sock.closed and len(fin) != 1:
            problems.append(('finished-count', 'transfer %s has %d send_bundle_finished signals after the session ended' % (tid, len(fin))))
    return problems


def run_slow_incoming(params, obs):
    ''' The peer's transfer is in progress when termination is requested and its (single, large) segment arrives slowly but
    steadily - slower in total than the endpoint's idle time.  The transfer must still complete and be acknowledged, then the
    SESS_TERM exchange finishes and the endpoint closes.  Variant: the peer's SESS_TERM is followed by one more message in the
    same write (a KEEPALIVE is legal at any time): the endpoint must still close. '''
    from vf.world.sim import Sim
    from vf import tcpcl_harness as th
    sim = Sim(seed=params['seed'], policy='eager')
    sock_a, sock_b = sim.net.tcp_pair()
    cfg = th.make_config('dtn://under-test/', idle_time=params['idle'], keepalive_time=0)
    if params['role'] == 'passive':
        end = th.Endpoint(sim, 'E', cfg, sock_b, passive=True, peer_addr=('10.0.0.1', 40001))
        peer_sock, end_sock = sock_a, sock_b
    else:
        end = th.Endpoint(sim, 'E', cfg, sock_a, passive=False, peer_addr=('10.0.0.2', 4556))
        peer_sock, end_sock = sock_b, sock_a
    end.start()
    sim.settle(20000)
    problems = []

    def write(data):
        pos = 0
        while pos < len(data):
            count = peer_sock.tx.write(data[pos:])
            if not count:
                break
            pos += count
        sim.settle(50000)

    def seen():
        return [m for (m, _e) in tw.parse_stream(end_sock.tx.all_bytes())[0]]

    write(tw.encode(dict(type='contact', flags=0)))
    write(tw.encode(dict(type='SESS_INIT', keepalive=0, segment_mru=2 ** 20, transfer_mru=2 ** 30, nodeid=b'dtn://peer/', ext=[])))
    payload = bytes(((pos * 11) ^ 0x35) & 0xFF for pos in range(params['length']))
    seg = tw.encode(dict(type='XFER_SEGMENT', flags=tw.FLAG_START | tw.FLAG_END, transfer_id=7, ext=[tw.transfer_length_ext(len(payload))], data=payload))
    pieces = [seg[pos:pos + params['piece']] for pos in range(0, len(seg), params['piece'])]
    term_at = params['term_at']
    peer_term_sent = False
    for idx, piece in enumerate(pieces):
        if idx == term_at:
            if params['who'] == 'endpoint':
                try:
                    end.call('terminate', dbus.Byte(0))
                    obs['terminate_accepted'] += 1
                except Exception:  # pylint: disable=broad-except
                    obs['terminate_refused'] += 1
                sim.settle(50000)
        if end_sock.closed:
            break
        write(piece)
        sim.advance(params['gap_ns'])
        sim.settle(50000)
    obs['runs'] += 1
    obs['slow_incoming_runs'] = obs.get('slow_incoming_runs', 0) + 1
    what = '%s endpoint, idle time %d s, a %d-octet segment arriving in %d pieces %.2f s apart, termination by %s at piece %d' % (
        params['role'], params['idle'], len(seg), len(pieces), params['gap_ns'] / 1e9, params['who'], term_at)
    msgs = seen()
    acks = [m for m in msgs if m['type'] == 'XFER_ACK' and m['transfer_id'] == 7]
    fin = [ev for ev in sim.hist.signals('recv_bundle_finished')]
    terms = [m for m in msgs if m['type'] == 'SESS_TERM']
    idle_terms = [m for m in terms if m['reason'] == 1]
    errs = sim.world.callback_errors
    if errs:
        return [('raised', '%s: callback %s raised %s' % (what, errs[0].source, errs[0].exc_type))]
    if idle_terms and params['who'] != 'endpoint':
        problems.append(('slow/idle-term', '%s: the endpoint declared the session idle (SESS_TERM idle-timeout) while octets kept arriving' % what))
    if not (acks and acks[-1]['flags'] & tw.FLAG_END and acks[-1]['length'] == len(payload)) or not fin:
        problems.append(('slow/cut', '%s: the transfer in progress was not completed and acknowledged (ACKs %s, finished signals %d, socket closed %s)' % (
            what, [(m['flags'], m['length']) for m in acks], len(fin), end_sock.closed)))
        return problems
    # now the SESS_TERM exchange: the peer sends or answers SESS_TERM (+ optionally one more message in the same write)
    terms = [m for m in seen() if m['type'] == 'SESS_TERM']
    trailing = dict(none=b'', keepalive=tw.encode(dict(type='KEEPALIVE')), reject=tw.encode(dict(type='MSG_REJECT', reason=2, rej_msg_id=4)))[params['trailing']]
    if not end_sock.closed:
        write(tw.encode(dict(type='SESS_TERM', flags=1 if terms else 0, reason=0)) + trailing)
        # (with an idle time configured, closing when it next expires still counts as closing in bounded time)
        sim.advance((2 * params['idle'] + 1) * 10 ** 9)
        sim.settle(50000)
    obs['waiter_terminations'] += 1
    terms = [m for m in seen() if m['type'] == 'SESS_TERM']
    if len(terms) != 1:
        problems.append(('sess-term', '%s: the endpoint sent %d SESS_TERM' % (what, len(terms))))
    if not end_sock.closed:
        problems.append(('half-open', '%s: both SESS_TERM exchanged (the peer\'s followed by %s in the same write), nothing is in progress, but the endpoint is '
                         'still open at quiescence' % (what, params['trailing'])))
    else:
        obs['waiter_closed_by_endpoint'] += 1
    return problems


def run_messages_behind_term(role, obs):
    ''' The endpoint has asked for termination while a transfer from the peer is under way; the peer's SESS_TERM and the rest of
    that transfer arrive in ONE read.  Every message in it is acted on: the transfer completes, is acknowledged, the endpoint closes. '''
    from vf.world.sim import Sim
    from vf import tcpcl_harness as th
    sim = Sim(seed=0, policy='eager')
    sock_a, sock_b = sim.net.tcp_pair()
    cfg = th.make_config('dtn://under-test/')
    if role == 'passive':
        end = th.Endpoint(sim, 'E', cfg, sock_b, passive=True, peer_addr=('10.0.0.1', 40001))
        peer_sock, end_sock = sock_a, sock_b
    else:
        end = th.Endpoint(sim, 'E', cfg, sock_a, passive=False, peer_addr=('10.0.0.2', 4556))
        peer_sock, end_sock = sock_b, sock_a
    end.start()
    sim.settle(20000)

    def write(data):
        peer_sock.tx.write(data)
        sim.settle(50000)

    write(tw.encode(dict(type='contact', flags=0)))
    write(tw.encode(dict(type='SESS_INIT', keepalive=0, segment_mru=2 ** 20, transfer_mru=2 ** 30, nodeid=b'dtn://peer/', ext=[])))
    parts = [b'first-part-', b'second-part-', b'last']
    write(tw.encode(dict(type='XFER_SEGMENT', flags=tw.FLAG_START, transfer_id=9, ext=[tw.transfer_length_ext(sum(len(p) for p in parts))], data=parts[0])))
    try:
        end.call('terminate', dbus.Byte(0))
        obs['terminate_accepted'] += 1
    except Exception:  # pylint: disable=broad-except
        obs['terminate_refused'] += 1
    sim.settle(50000)
    write(tw.encode(dict(type='SESS_TERM', flags=tw.TERM_REPLY, reason=0))
          + tw.encode(dict(type='XFER_SEGMENT', flags=0, transfer_id=9, data=parts[1]))
          + tw.encode(dict(type='XFER_SEGMENT', flags=tw.FLAG_END, transfer_id=9, data=parts[2])))
    obs['runs'] += 1
    obs['waiter_terminations'] += 1
    msgs = [m for (m, _e) in tw.parse_stream(end_sock.tx.all_bytes())[0]]
    acks = [m for m in msgs if m['type'] == 'XFER_ACK' and m['transfer_id'] == 9]
    fin = sim.hist.signals('recv_bundle_finished')
    what = '%s endpoint terminating, the peer\'s SESS_TERM and the two remaining segments of its transfer in one read' % role
    if sim.world.callback_errors:
        return [('raised', '%s: callback raised %s' % (what, sim.world.callback_errors[0].exc_type))]
    problems = []
    if not (acks and acks[-1]['flags'] & tw.FLAG_END) or not fin:
        problems.append(('slow/cut', '%s: the transfer in progress was not completed and acknowledged (ACKs %s, finished signals %d)' % (
            what, [(m['flags'], m['length']) for m in acks], len(fin))))
    if not end_sock.closed:
        problems.append(('half-open', '%s: nothing is in progress any more but the endpoint is still open' % what))
    else:
        obs['waiter_closed_by_endpoint'] += 1
    return problems


def classify(kind, text):
    return None


def run_case(case):
    obs = dict(runs=0, terminate_accepted=0, terminate_refused=0, close_requests=0, disconnects=0, transfers_in_progress_at_term=0,
               queued_not_started_at_term=0, simultaneous_terminations=0, budget_exhausted=0, cut_points=0,
               waiter_runs=0, waiter_terminations=0, waiter_closed_by_endpoint=0, agent_shutdowns=0)
    violations = []
    classes = set()
    sample = None
    evaluations = 0

    def one(scn, cut, who, action):
        nonlocal sample, evaluations
        run, result, record = run_with_cut(scn, cut, who, action)
        obs['runs'] += 1
        evaluations += 1
        problems = judge(run, result, record, who, action, obs)
        if problems is None:
            obs['budget_exhausted'] += 1
            return run
        if any(rec[2] for rec in record):
            classes.add('%s|%d|%s|%s|%s' % (scn.get('id'), cut, who, action, run.sim.world.sched_hash))
        if sample is None:
            sample = dict(scenario=scn, cut=cut, who=who, action=action, record=[list(rec[:4]) for rec in record])
        for (kind, text) in problems:
            violations.append(dict(key=classify(kind, text), what='[%s] %s (%s by %s at step %d of %s)' % (kind, text, action, who, cut, scn.get('id')),
                                   detail=dict(scenario=scn, cut=cut, who=who, action=action)))
        return run

    if case['kind'] == 'agent':
        from vf.props import c18
        params = {k: case[k] for k in ('contacts', 'who', 'pre_steps', 'mid_steps', 'bundles', 'seed', 'policy', 'stagger', 'asym', 'stop_on_close', 'pre_terminate', 'stop') if k in case}
        obs18 = dict(agent_scenarios=0, runs=0, signals_checked=0, returns_checked=0)
        problems = c18.agent_run(params, obs18)
        evaluations += 1
        obs['runs'] += 1
        if problems is None:
            obs['budget_exhausted'] += 1
        else:
            obs['agent_shutdowns'] += 1
            classes.add('agent|%s' % sorted(params.items()))
            sample = dict(agent=params)
            for (kind, text) in problems:
                if kind in ('shutdown', 'raised'):
                    violations.append(dict(key=classify(kind, text), what='[agent/%s] %s (%s)' % (kind, text, sorted(params.items())), detail=dict(params=params)))
    elif case['kind'] == 'waiter':
        rng = random.Random(case['seed'])
        for idx in range(case['count']):
            params = dict(seed=case['seed'] * 100 + idx, role=rng.choice(['active', 'passive']), capacity=rng.choice([256, 1024, 4096]),
                          read=rng.choice([64, 300, 1024, 5000]), seg=rng.choice([100, 1000, 104857]), mru=rng.choice([500, 2 ** 20]),
                          lengths=[rng.choice([10, 3000, 20000, 60000]) for _ in range(rng.choice([1, 1, 2]))],
                          refuse=rng.choice([False, False, False, True, 'late', 'late']), peer_terminates=rng.choice(['never', 'after-first-segment', 'on-refuse', 'after-first-segment']),
                          endpoint_terminates_at=rng.choice([None, 1, 2, 5, 20]), policy=rng.choice(['eager', 'fair', 'rr']))
            if idx % 5 == 4:
                # many small segments and a peer that reads (and therefore acknowledges) dozens of them at a time: the endpoint
                # finds 40-150 complete messages in one read, the decisive ones (final XFER_ACK, SESS_TERM) at the very end
                params.update(seg=100, capacity=rng.choice([4096, 16384]), read=rng.choice([5000, 20000]), mru=2 ** 20, refuse=False,
                              lengths=[rng.choice([5000, 20000])])
            if params['peer_terminates'] == 'never' and params['endpoint_terminates_at'] is None:
                params['endpoint_terminates_at'] = 3
            if params['peer_terminates'] == 'on-refuse' and params['refuse'] is not True:
                params['peer_terminates'] = 'after-first-segment'
            problems = run_waiter(params, obs)
            evaluations += 1
            if problems is None:
                obs['budget_exhausted'] += 1
                continue
            classes.add('waiter|%s' % sorted((k, str(v)) for k, v in params.items()))
            if sample is None:
                sample = dict(waiter=params)
            for (kind, text) in problems:
                violations.append(dict(key=classify(kind, text), what='[waiter/%s] %s (%s)' % (kind, text, sorted(params.items())), detail=dict(params=params)))
    elif case['kind'] == 'slow':
        rng = random.Random(case['seed'])
        for idx in range(case['count']):
            idle = rng.choice([0, 2, 4, 10])
            pieces = rng.choice([8, 20, 45])
            length = rng.choice([900, 12000, 40000])
            params = dict(seed=case['seed'] * 100 + idx, role=rng.choice(['active', 'passive']), idle=idle, length=length,
                          piece=max(1, (length + 40) // pieces), gap_ns=int(rng.choice([0.3, 0.6, 0.9]) * (idle or 0.01) * 1e9 * (1 if idx % 3 else 0.1)),
                          who=rng.choice(['endpoint', 'endpoint', 'peer']), term_at=rng.choice([0, 1, 3, 7]),
                          trailing=rng.choice(['none', 'keepalive', 'reject', 'keepalive']))
            problems = run_slow_incoming(params, obs)
            evaluations += 1
            classes.add('slow|%s' % sorted((k, str(v)) for k, v in params.items()))
            if sample is None:
                sample = dict(slow=params)
            for (kind, text) in problems:
                violations.append(dict(key=classify(kind, text), what='[%s] %s' % (kind, text), detail=dict(params=params)))
        # both SESS_TERM exchanged, something still pending, and then a peer that says nothing more (socket open): with an idle time
        # configured the endpoint still closes in bounded time (the timer runs of C14 are reused; here the half-open outcome counts)
        for role in ('passive', 'active'):
            for (kind, text) in run_messages_behind_term(role, obs):
                violations.append(dict(key=classify(kind, text), what='[%s] %s' % (kind, text), detail=dict(role=role)))
            evaluations += 1
            classes.add('behind-term|%s' % role)
        from vf.props import c14
        obs14 = dict(runs=0, mute_peer_closures=0)
        # a session that never came about (the peer's SESS_INIT was refused) ends like any other: SESS_TERM, the peer's answer, close
        for role in ('passive', 'active'):
            for how in ('mru0', 'nul'):
                for answer in (True, False):
                    for item in c14.run_failed_negotiation(role, 2, how, answer, obs14):
                        violations.append(dict(key=classify('half-open', item), what='[half-open] %s' % item, detail=dict(role=role, how=how, answer=answer)))
                    evaluations += 1
                    obs['runs'] += 1
                    classes.add('failed-negotiation|%s|%s|%s' % (role, how, answer))
                for idle in (0, 2):
                    for item in c14.run_failed_negotiation(role, idle, how, 'together', obs14):
                        violations.append(dict(key=classify('half-open', item), what='[half-open] %s' % item, detail=dict(role=role, how=how, answer='together', idle=idle)))
                    evaluations += 1
                    obs['runs'] += 1
                    classes.add('failed-negotiation|%s|%s|together|%d' % (role, how, idle))
        for role in ('passive', 'active'):
            for pending in ('final-ack', 'half-transfer'):
                for item in c14.run_silent_after_reply(role, 2, 0, pending, obs14):
                    violations.append(dict(key=classify('half-open', item), what='[half-open] %s' % item, detail=dict(role=role, pending=pending)))
                evaluations += 1
                obs['runs'] += 1
                classes.add('silent|%s|%s' % (role, pending))
    elif case['kind'] == 'cuts':
        scn = dict(BASES[case['base']], id=case['base'], seed=case['seed'])
        base_run, base_res = scen.execute(scn, max_steps=60000)
        nsteps = base_run.steps_used + 2 if base_res == 'quiescent' else 200
        obs['cut_points'] = nsteps
        for cut in range(-1, nsteps, case['stride']):
            one(scn, cut, case['who'], case['action'])
    else:
        rng = random.Random(case['seed'])
        for idx in range(case['count']):
            scn = scen.random_scenario(rng, idx, allow_zero=True)
            scn['id'] = 'r%d-%d' % (case['seed'], idx)
            cut = rng.choice([-1, 0, 1, 2, 3, 5, 8, 13, 21, 34, 55, 89, 144, 233, 400])
            who = rng.choice(['A', 'B', 'both'])
            action = rng.choice(['terminate', 'terminate', 'close', 'disconnect'])
            if action == 'disconnect' and who == 'both':
                who = 'A'
            one(scn, cut, who, action)
    uniq = {}
    for viol in violations:
        uniq.setdefault((viol['key'], viol['what'].split(']')[0], viol['what'].split('] ')[1][:50]), viol)
    violations = list(uniq.values())[:16]
    return dict(verdict='violated' if violations else 'held', nontrivial=bool(classes), cls=classes, obs=obs,
                violations=violations, sample=sample, evaluations=evaluations)
