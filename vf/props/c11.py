''' C11 -- forwarding preserves the bundle and updates only the hop-by-hop blocks.

Monitor: CL observer of a real ``bp.agent.Agent`` after a bundle routed
"forward" has been received and the loop is quiescent.

Oracle: field-by-field comparison on the *decoded wire bytes* (independent RFC
9171 decoder) against the received bundle.
'''
import itertools
import random

from vf.oracles import bpv7
from vf.oracles import cbor_walk as cw

PROPERTY_ID = 'C11'
RULE = ('received bundles built by the independent encoder over the product {previous-node absent/other/this node} x '
        '{hop-count absent/present/two} x {age absent/present} x 0-2 unknown blocks x CRC types x sparse or permuted block '
        'numbering x creation time zero (with age) or non-zero x lifetime values x two transmit routes, then seeded random '
        'variation; the bytes handed to the CL are decoded and compared field by field. Non-trivial = a forward that '
        'produced exactly one non-administrative output; distinct = distinct received byte string.')
ASSUMPTIONS = [
    'vf/oracles/bpv7.py decodes the transmitted bytes',
    'virtual clock: bundle age is compared with (virtual now - creation time) in milliseconds',
    'preservation of unknown extension blocks is recorded as an observation only (not part of the statement)',
]
DECIDING = ['bp.agent:Agent._do_fwd', 'bp.agent:Agent.send_bundle', 'bp.util:BundleContainer.fix_block_num',
            'bp.util:BundleContainer.add_block', 'bp.encoding.blocks:CanonicalBlock.ensure_block_type_specific_data']
REQUIRED_OBS = ['stack_forwards_checked', 'forwards_checked', 'hop_count_blocks_checked', 'age_blocks_checked', 'prev_node_replaced', 'fragmented_forwards_checked']
RULE = RULE + " Whole-stack runs (vf.stack): three hosts X-Y-Z, each a real BP agent bound through bp/cla.py and the in-process bus to real UDPCL/TCPCL agents over the simulated network (datagrams reordered and duplicated, BP and UDPCL MTUs, 2-14 bundles with report requests per scenario); judged per node, conditional on what the node's adaptor popped and what the agent handed to the adaptor's sender; the stack_* counters say what was compared."

NODE = 'dtn://me/'
NOW_DTN_MS = (1767225600 - 946684800) * 1000


def _combo_cases():
    out = []
    for prev, hops, age, unknown, crc, numbering, ctime, lifetime in itertools.product(
            ('none', 'other', 'self', 'two'), (0, 1, 2), (0, 1, 2, 3), (0, 1, 2), (0, 1, 2), ('dense', 'sparse', 'permuted'),
            ('nonzero', 'zero'), (1000, 0)):
        if ctime == 'zero' and not age:
            continue  # a bundle without a clock must carry an age block
        out.append(dict(prev=prev, hops=hops, age=age, unknown=unknown, crc=crc, numbering=numbering, ctime=ctime, lifetime=lifetime))
    return out


def cases(tier, seed):
    combos = _combo_cases()
    out = []
    if tier == 'thorough':
        block = 24
        for idx in range(0, len(combos), block):
            out.append(dict(id='combo-%d' % idx, kind='combo', start=idx, stop=idx + block, seed=seed))
        for idx in range(6000):
            out.append(dict(id='rand-%d' % idx, kind='rand', seed=seed * 65537 + idx, count=120))
    else:
        rng = random.Random(seed)
        picks = sorted(rng.sample(range(len(combos)), 900))
        for idx in range(0, len(picks), 30):
            out.append(dict(id='combo-%d' % idx, kind='combo-list', picks=picks[idx:idx + 30], seed=seed))
        for idx in range(16):
            out.append(dict(id='rand-%d' % idx, kind='rand', seed=seed * 65537 + idx, count=30))
    from vf import stackcases  # pylint: disable=import-outside-toplevel
    stackcases.add_cases(out, tier, seed)
    return out


def build(combo, rng):
    ''' Received bundle (dict form) for one combination. '''
    nums = {'dense': [2, 3, 4, 5, 6, 7, 8, 9, 10], 'sparse': [7, 24, 255, 256, 70000, 2 ** 33, 99, 23, 65536],
            'permuted': [9, 3, 8, 2, 6, 4, 5, 7, 10]}[combo['numbering']]
    nums = list(nums)
    blocks = []
    crc = combo['crc']
    for eid in {'none': [], 'other': ['dtn://prev-hop/'], 'self': [NODE], 'two': ['dtn://prev-hop/', 'ipn:5.0']}[combo['prev']]:
        blocks.append(dict(type=6, num=nums.pop(0), flags=0, crc_type=crc, data=cw.enc(bpv7.eid_to_item(eid)), crc=None))
    if blocks and rng.random() < 0.12:
        # the previous node named by an endpoint id of a scheme this node does not know (scheme codes are extensible): still a
        # Previous Node block, to be replaced like any other
        blocks[0]['data'] = cw.enc(rng.choice([[3, 'x'], [65535, [1, 2]], [3, 0]]))
    for idx in range(combo['hops']):
        blocks.append(dict(type=10, num=nums.pop(0), flags=rng.choice([0, 1]), crc_type=crc,
                           data=cw.enc([rng.choice([5, 30, 255]), rng.choice([0, 1, 23, 24]) + idx]), crc=None))
    for _idx in range(int(combo['age'])):
        blocks.append(dict(type=7, num=nums.pop(0), flags=0, crc_type=crc, data=cw.enc(rng.choice([0, 5, 1000, 2 ** 33])), crc=None))
    for idx in range(combo['unknown']):
        blocks.append(dict(type=rng.choice([192, 200, 65535]), num=nums.pop(0), flags=rng.choice([0, 1, 0x10, 0x20, 0x81, 0x100]), crc_type=crc,
                           data=bytes(rng.getrandbits(8) for _ in range(rng.choice([0, 3, 30]))), crc=None))
    rng.shuffle(blocks)
    plen = rng.choice([0, 1, 23, 24, 300])
    blocks.append(dict(type=1, num=1, flags=0, crc_type=rng.choice([0, crc]), data=bytes((7 * i + 1) & 0xFF for i in range(plen)), crc=None))
    # (a source whose clock runs ahead of this node's: no time has passed since creation as far as this node can tell)
    ctime = 0 if combo['ctime'] == 'zero' else NOW_DTN_MS - rng.choice([0, 1, 999, 86400000, 86400000, 999, -1, -60000, -86400000])
    # (demux text may end in a bare '?' or '#', or hold both: it travels as it is)
    dest = rng.choice(['dtn://next-a/svc', 'dtn://next-b/svc', 'dtn://next-a/svc?', 'dtn://next-b/svc#', 'dtn://next-a/q?#frag', 'dtn://next-b/?'])
    flags = rng.choice([0, bpv7.FLAG_NO_FRAGMENT, bpv7.FLAG_REQ_FORWARDING, bpv7.FLAG_USER_APP_ACK | bpv7.FLAG_REQ_STATUS_TIME,
                        # bits RFC 9171 leaves unassigned must travel unchanged as well
                        0x80, 0x100 | bpv7.FLAG_NO_FRAGMENT, 0x200000, 0x08 | bpv7.FLAG_REQ_FORWARDING])
    if rng.random() < 0.2:
        # an administrative record in transit: whole, a piece of one (as a fragment carries), or something this node cannot read
        flags |= bpv7.FLAG_ADMIN
        record = bpv7.encode_status_report([(True, None), (False, None), (False, None), (True, None)], rng.choice([1, 6, 17, 200]), 'dtn://subj/x', 5, 6)
        # (also records this node can read but would write differently: indefinite-length array, non-shortest integer heads)
        blocks[-1]['data'] = rng.choice([record, record[:7], record[3:], b'\xff\x00\x01', cw.enc([9, {2: 1, 1: 2}]),
                                         b'\x9f' + record[1:] + b'\xff', b'\x82\x18\x01' + record[2:], b'\x82\x19\x00\x01' + record[2:]])
    pri = dict(version=7, flags=flags, crc_type=rng.choice([0, crc]), dest=dest, src=rng.choice(['dtn://src/app', 'ipn:7.3', 'dtn:none', 'ipn:0.0', 'ipn:4294967296.1', 'dtn://src/app#', 'dtn://src/a?b#']),
               report_to=rng.choice(['dtn:none', 'dtn://rep/r', 'ipn:0.0', 'dtn://rep/r?', 'dtn://rep/a?#b']), create_time=ctime, seqno=rng.choice([0, 1, 2 ** 32]),
               lifetime=combo['lifetime'], frag_offset=None, total_adu_len=None, crc=None)
    return dict(primary=pri, blocks=blocks, dwell_ms=rng.choice([0, 0, 1, 1500, 86400000]))


def make_node():
    from vf.world.sim import Sim
    from vf import bp_harness as bh
    sim = Sim(0, 'eager')
    node = bh.BpNode(sim, NODE, rx_routes=[(r'dtn://next-.*', 'forward')],
                     tx_routes=[dict(pattern=r'dtn://next-a/.*', raw={'r': 'a'}), dict(pattern=r'dtn://next-b/.*', raw={'r': 'b'}),
                                dict(pattern=r'.*', raw={'r': 'other'})])
    return sim, node


def check_forward_fragmented(bundle, obs):
    ''' The same bundle forwarded over a route whose MTU is smaller than the bundle: what leaves are fragments; put together by offset
    they must give the received payload, and each carries the received primary block fields (plus the fragment fields). '''
    from vf.world.sim import Sim
    from vf import bp_harness as bh
    payload = bpv7.payload_of(bundle)['data']
    if len(payload) < 40 or bundle['primary']['flags'] & (bpv7.FLAG_NO_FRAGMENT | bpv7.FLAG_IS_FRAGMENT | bpv7.FLAG_ADMIN):
        return [], None
    enc = bpv7.encode(bundle)
    sim = Sim(0, 'eager')
    node = bh.BpNode(sim, NODE, rx_routes=[(r'dtn://next-.*', 'forward')], tx_routes=[dict(pattern=r'.*', mtu=len(enc) - len(payload) // 2, raw={'r': 'narrow'})])
    err = node.recv(enc)
    sim.settle(20000)
    problems = []
    detail = dict(received=enc.hex(), dwell_ms=0, fragmenting_route=True)
    if err is not None:
        return ['receive raised %s: %s' % (type(err).__name__, err)], detail
    frags = []
    for (_no, _raw, data) in node.cl.sent:
        try:
            dec, _probs = bpv7.decode(data)
        except bpv7.DecodeError as derr:
            problems.append('an output on the fragmenting route is not decodable: %s' % derr)
            continue
        same = (dec['primary']['src'], dec['primary']['create_time'], dec['primary']['seqno']) == (
            bundle['primary']['src'], bundle['primary']['create_time'], bundle['primary']['seqno'])
        if same:
            frags.append(dec)
    if not frags:
        # (whether fragmentation is possible at all is C05's subject)
        return problems, detail
    if len(frags) == 1 and not frags[0]['primary']['flags'] & bpv7.FLAG_IS_FRAGMENT:
        return problems, detail
    obs['fragmented_forwards_checked'] = obs.get('fragmented_forwards_checked', 0) + 1
    rebuilt = bytearray(len(payload))
    covered = set()
    for dec in frags:
        fpri = dec['primary']
        fpay = bpv7.payload_of(dec)
        if not fpri['flags'] & bpv7.FLAG_IS_FRAGMENT or fpay is None:
            problems.append('forwarded over a narrow route: a whole bundle left next to fragments')
            continue
        off = fpri['frag_offset']
        rebuilt[off:off + len(fpay['data'])] = fpay['data']
        covered |= set(range(off, off + len(fpay['data'])))
        for field in ('version', 'dest', 'src', 'report_to', 'create_time', 'seqno', 'lifetime'):
            if fpri[field] != bundle['primary'][field]:
                problems.append('forwarded as fragments: primary.%s changed: %r -> %r' % (field, bundle['primary'][field], fpri[field]))
        if fpri['flags'] != bundle['primary']['flags'] | bpv7.FLAG_IS_FRAGMENT:
            problems.append('forwarded as fragments: flags 0x%x -> 0x%x' % (bundle['primary']['flags'], fpri['flags']))
        if fpri['total_adu_len'] != len(payload):
            problems.append('forwarded as fragments: total length %r, received payload has %d octets' % (fpri['total_adu_len'], len(payload)))
    if covered != set(range(len(payload))) or bytes(rebuilt[:len(payload)]) != payload:
        problems.append('forwarded as fragments: the fragments put together by offset (offsets %s) do not give the received payload' % (
            sorted(dec['primary']['frag_offset'] for dec in frags)[:8]))
    return sorted(set(problems)), detail


def check_late_route(bundle, obs):
    ''' The bundle arrives while no transmit route matches its destination; routes are learned afterwards (a peer is seen, a
    session comes up).  Whatever the node does with the bundle then, a copy that leaves carries the received hop count plus
    one and one Previous Node block -- however many attempts it took. '''
    import re
    from vf.world.sim import Sim
    from vf import bp_harness as bh
    from bp.config import TxRouteItem
    sim = Sim(0, 'eager')
    node = bh.BpNode(sim, NODE, rx_routes=[(r'dtn://next-.*', 'forward')], tx_routes=[])
    enc = bpv7.encode(bundle)
    problems = []
    err = node.recv(enc)
    sim.settle(5000)
    if err is not None:
        problems.append('receive raised %s: %s' % (type(err).__name__, err))
    for (pattern, tag) in ((r'dtn://elsewhere/.*', 'x'), (r'dtn://nowhere/.*', 'y'), (r'dtn://next-.*', 'a')):
        with sim.as_node(node.name):
            node.agent.add_tx_route(TxRouteItem(eid_pattern=re.compile(pattern), next_nodeid='dtn://n/', cl_type='fake', raw_config={'r': tag}))
        sim.world.advance_to(sim.world.now_ns + 250 * 1000000)
        sim.settle(5000)
    obs['late_route_runs'] = obs.get('late_route_runs', 0) + 1
    if sim.world.callback_errors:
        problems.append('loop callback raised %s: %s' % (sim.world.callback_errors[0].exc_type, str(sim.world.callback_errors[0].exc)[:80]))
    base = (bundle['primary']['src'], bundle['primary']['create_time'], bundle['primary']['seqno'])
    hops_in = sorted(cw.parse_all(blk['data']).to_python() for blk in bundle['blocks'] if blk['type'] == 10)
    for (_no, _raw, data) in node.cl.sent:
        try:
            dec, _probs = bpv7.decode(data)
        except bpv7.DecodeError as derr:
            problems.append('an output is not decodable: %s' % derr)
            continue
        if (dec['primary']['src'], dec['primary']['create_time'], dec['primary']['seqno']) != base:
            continue
        obs['late_route_outputs'] = obs.get('late_route_outputs', 0) + 1
        hops_out = sorted(cw.parse_all(blk['data']).to_python() for blk in dec['blocks'] if blk['type'] == 10)
        if hops_out != sorted([lim, cnt + 1] for (lim, cnt) in hops_in):
            problems.append('forwarded once a route was learned: hop count(s) %r, received %r' % (hops_out, hops_in))
        nprev = len([blk for blk in dec['blocks'] if blk['type'] == 6])
        if nprev != 1:
            problems.append('forwarded once a route was learned: %d Previous Node blocks' % nprev)
    return problems, dict(received=enc.hex())


def check_forward(bundle, obs, shared=None):
    ''' :param shared: (sim, node) to reuse one agent for a history of forwards. '''
    sim, node = shared if shared is not None else make_node()
    del node.cl.sent[:]
    now_dtn_ms = NOW_DTN_MS + sim.world.now_ns // 1000000
    if bundle['primary']['create_time'] != 0 and shared is not None:
        # keep the creation time in the past of the shared node's clock
        bundle['primary']['create_time'] = now_dtn_ms - (NOW_DTN_MS - bundle['primary']['create_time'])
    enc = bpv7.encode(bundle)
    err = node.recv(enc)
    # let the bundle dwell at the node before the (idle-driven) forwarder runs
    dwell_ms = bundle.get('dwell_ms', 0)
    sim.world.advance_to(sim.world.now_ns + dwell_ms * 1000000)
    res = sim.settle(5000)
    problems = []
    detail = dict(received=enc.hex(), dwell_ms=dwell_ms)
    if err is not None:
        problems.append('receive raised %s: %s' % (type(err).__name__, err))
    outs = []
    for (_no, raw, data) in node.cl.sent:
        try:
            dec, probs = bpv7.decode(data)
        except bpv7.DecodeError as derr:
            problems.append('an output is not decodable: %s' % derr)
            continue
        same_bundle = (dec['primary']['src'], dec['primary']['create_time'], dec['primary']['seqno']) == (
            bundle['primary']['src'], bundle['primary']['create_time'], bundle['primary']['seqno'])
        if not dec['primary']['flags'] & bpv7.FLAG_ADMIN or same_bundle:
            # (status reports generated by this node are not the forwarded bundle; an administrative record in transit is)
            outs.append((raw, data, dec, probs))
    if len(outs) != 1:
        problems.append('%d non-administrative outputs for one forwarded bundle (%s)' % (len(outs), res))
        return problems, detail, False
    (raw, data, dec, probs) = outs[0]
    detail['sent'] = data.hex()
    obs['forwards_checked'] += 1
    want_route = 'a' if bundle['primary']['dest'].startswith('dtn://next-a/') else 'b'
    if raw.get('r') != want_route:
        problems.append('sent on route %r, first matching route is %r' % (raw.get('r'), want_route))
    for item in probs:
        problems.append('transmitted bundle not well-formed: %s' % item)
    rpri, spri = bundle['primary'], dec['primary']
    for field in ('version', 'flags', 'dest', 'src', 'report_to', 'create_time', 'seqno', 'lifetime'):
        if rpri[field] != spri[field]:
            problems.append('primary.%s changed: %r -> %r' % (field, rpri[field], spri[field]))
    rpay, spay = bpv7.payload_of(bundle), bpv7.payload_of(dec)
    if spay is None or spay['data'] != rpay['data']:
        problems.append('payload changed')
    prevs = [blk for blk in dec['blocks'] if blk['type'] == 6]
    if len(prevs) != 1:
        problems.append('%d Previous Node blocks' % len(prevs))
    else:
        try:
            eid = bpv7.eid_from_item(cw.parse_all(prevs[0]['data']).to_python())
        except Exception as perr:  # pylint: disable=broad-except
            eid = 'undecodable (%s)' % perr
        if eid != NODE:
            problems.append('Previous Node block names %r' % eid)
        else:
            obs['prev_node_replaced'] += 1
    rhops = {blk['num']: cw.parse_all(blk['data']).to_python() for blk in bundle['blocks'] if blk['type'] == 10}
    shops = {}
    for blk in dec['blocks']:
        if blk['type'] == 10:
            try:
                shops[blk['num']] = cw.parse_all(blk['data']).to_python()
            except cw.CborError:
                shops[blk['num']] = 'undecodable'
    if len(shops) != len(rhops):
        problems.append('%d Hop Count blocks received, %d sent' % (len(rhops), len(shops)))
    for num, val in rhops.items():
        obs['hop_count_blocks_checked'] += 1
        got = shops.get(num)
        if got != [val[0], val[1] + 1]:
            problems.append('Hop Count block %d: received [limit %d, count %d], transmitted bytes say %r' % (num, val[0], val[1], got))
            detail['hop_count_not_incremented'] = (got == val)
    ages = [blk for blk in dec['blocks'] if blk['type'] == 7]
    if len(ages) > 1:
        problems.append('%d Bundle Age blocks' % len(ages))
    rages = [cw.parse_all(blk['data']).to_python() for blk in bundle['blocks'] if blk['type'] == 7]
    if ages:
        obs['age_blocks_checked'] += 1
        try:
            age = cw.parse_all(ages[0]['data']).to_python()
        except cw.CborError:
            age = None
        if rpri['create_time'] != 0:
            want_age = max(0, now_dtn_ms + dwell_ms - rpri['create_time'])
            if not isinstance(age, int) or isinstance(age, bool) or age < 0:
                problems.append('Bundle Age %r is not an unsigned integer (creation time %+d ms relative to this node\'s clock)' % (
                    age, rpri['create_time'] - now_dtn_ms))
            elif age != want_age:
                problems.append('Bundle Age is %r, time since creation is %d ms' % (age, want_age))
        elif rages and age not in [rage + dwell_ms for rage in rages]:
            problems.append('Bundle Age went from %r to %r after %d ms at the node' % (rages, age, dwell_ms))
    elif rpri['create_time'] == 0:
        detail['age_dropped_without_clock'] = True
        problems.append('bundle without creation time left with no Bundle Age block (received age %r)' % (rages[:1],))
    # unknown blocks: observation only
    for blk in bundle['blocks']:
        if blk['type'] not in (1, 6, 7, 10):
            match = [out for out in dec['blocks'] if out['num'] == blk['num'] and out['type'] == blk['type']]
            if match and match[0]['data'] == blk['data']:
                obs['unknown_blocks_preserved'] += 1
            else:
                obs['unknown_blocks_changed'] += 1
    return problems, detail, True


def classify(problems, detail, bundle):
    return None


def run_case(case):
    if case.get('kind') == 'stack':
        from vf import stackcases  # pylint: disable=import-outside-toplevel
        return stackcases.run_block(PROPERTY_ID, case)
    obs = dict(forwards_checked=0, hop_count_blocks_checked=0, age_blocks_checked=0, prev_node_replaced=0,
               unknown_blocks_preserved=0, unknown_blocks_changed=0)
    combos = _combo_cases()
    rng = random.Random(case['seed'] * 7 + 1)
    items = []
    if case['kind'] == 'combo':
        items = [combos[idx] for idx in range(case['start'], min(case['stop'], len(combos)))]
    elif case['kind'] == 'combo-list':
        items = [combos[idx] for idx in case['picks']]
    else:
        rng = random.Random(case['seed'])
        items = [rng.choice(combos) for _ in range(case['count'])]
    violations = []
    classes = set()
    sample = None
    shared = None
    for idx, combo in enumerate(items):
        bundle = build(combo, rng)
        if case['kind'] == 'rand':
            # histories: several different bundles through one agent (unique identities)
            if idx % 10 == 0:
                shared = make_node()
            bundle['primary']['seqno'] = bundle['primary']['seqno'] + idx * 3 + 1
            obs['forwards_in_shared_agent'] = obs.get('forwards_in_shared_agent', 0) + 1
        problems, detail, nontrivial = check_forward(bundle, obs, shared)
        if nontrivial:
            classes.add(hash(detail['received']) & 0xFFFFFFFFFFFF)
        if sample is None:
            sample = dict(combo=combo, received=detail['received'][:300], sent=detail.get('sent', '')[:300])
        for item in problems:
            violations.append(dict(key=classify_one(item, detail, bundle), what=item, detail=dict(detail, combo=combo)))
        if idx % 7 == 3 and shared is None:
            lproblems, ldetail = check_late_route(bundle, obs)
            for item in lproblems:
                violations.append(dict(key=None, what=item, detail=dict(ldetail, combo=combo)))
        if idx % 5 == 0 and not problems and shared is None:
            # (a second simulated world cannot run beside the shared agent's, so not in the history cases)
            fproblems, fdetail = check_forward_fragmented(bundle, obs)
            for item in fproblems:
                violations.append(dict(key=None, what=item, detail=dict(fdetail or {}, combo=combo)))
    uniq = {}
    for viol in violations:
        uniq.setdefault((viol['key'], viol['what'][:40]), viol)
    violations = list(uniq.values())[:16]
    return dict(verdict='violated' if violations else 'held', nontrivial=bool(classes), cls=classes, obs=obs,
                violations=violations, sample=sample, evaluations=len(items))


def classify_one(problem, detail, bundle):
    ''' Mechanism keys for known findings. '''
    return None
