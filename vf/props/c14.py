''' C14 -- TCPCL negotiates parameters correctly and keeps its timers.

Monitor: get_session_parameters() of both real endpoints; a recording wrapper
on send_message / recv_raw stamping (virtual time, message type); both wire
logs; an icontract postcondition on Messenger._modulate_tx_seg_size.

Oracle: negotiation rules (min of keepalives, 0 disables; peer node id and MRUs
as announced); segment <= peer segment MRU (also while adapting); a keepalive /
idle timer model evaluated on the virtual-time send/receive log; a terminating
endpoint whose peer is mute must have closed by request + idle time.
'''
import itertools
import random

import dbus

from vf.oracles import tcpcl_wire as tw
from vf.gen import tcpcl_scen as scen
from vf.tcpcl_run import PairRun, payload_for

PROPERTY_ID = 'C14'
RULE = ('keepalive pairs from {0,1,2,5,30,65535}^2 x idle times {0,1,3,10} x MRUs / initial segment sizes x adaptive target '
        'on/off; traffic (bundles) placed at deadline-1ms, deadline, deadline+1ms relative to keepalive and idle expiry in '
        'virtual time; a mute peer for the terminating-endpoint clause. Non-trivial = a run in which at least one timer '
        'obligation or negotiated value was checked; distinct = distinct parameter/timing tuple.')
ASSUMPTIONS = [
    'deadlines are virtual; "sent" is judged where the endpoint commits a message (send_message), the wire is the second witness',
    'the D-Bus view clamps integers to 2^31-1 by design; values are compared modulo that clamp',
    'network delivery takes 1 ms of virtual time per delivery step in the adaptive-size runs (so that ACK round trips are non-zero)',
]
DECIDING = ['tcpcl.session:Messenger.merge_session_params', 'tcpcl.session:Messenger._keepalive_timeout', 'tcpcl.session:Messenger._idle_timeout',
            'tcpcl.session:Messenger._modulate_tx_seg_size', 'tcpcl.session:Messenger._keepalive_reset', 'tcpcl.session:Messenger._idle_reset']
REQUIRED_OBS = ['runs', 'negotiations_checked', 'keepalives_checked', 'idle_timeouts_checked', 'mute_peer_closures', 'modulate_calls',
                'segments_vs_mru', 'stalled_reader_runs', 'unreportable_nodeid_runs']

KEEPALIVES = [0, 1, 2, 5, 30, 65535]
IDLES = [0, 1, 3, 10]
MS = 1000000


class Recorder(object):
    def __init__(self, run):
        self.run = run
        self.log = {'A': [], 'B': []}   # (vtime_ns, 'tx'|'rx', type)
        for side in ('A', 'B'):
            self._wrap(side)

    def _wrap(self, side):
        hdl = self.run.ends[side].hdl
        world = self.run.sim.world
        orig_send = hdl.send_message
        orig_recv = hdl.recv_raw
        log = self.log[side]

        def send_message(pkt):
            name = type(pkt.payload).__name__ if pkt.payload else type(pkt).__name__
            log.append((world.now_ns, 'tx', name))
            return orig_send(pkt)

        def recv_raw(data):
            log.append((world.now_ns, 'rx', len(data)))
            return orig_recv(data)

        hdl.send_message = send_message
        hdl.recv_raw = recv_raw


def clamp(val):
    ''' (kept as a name only: reported values are compared with the announced ones as they are) '''
    return val


def check_negotiation(run, cfg_a, cfg_b, obs):
    problems = []
    for side, mine, peer in (('A', cfg_a, cfg_b), ('B', cfg_b, cfg_a)):
        params = run.call(side, 'get_session_parameters')
        if isinstance(params, Exception):
            problems.append('%s: get_session_parameters failed: %s' % (side, params))
            continue
        params = dict(params)
        obs['negotiations_checked'] += 1
        want_ka = min(mine.get('keepalive_time', 0), peer.get('keepalive_time', 0))
        if params.get('keepalive') != want_ka:
            problems.append('%s: negotiated keepalive %r, min of %r and %r is %r' % (side, params.get('keepalive'), mine.get('keepalive_time', 0),
                                                                                     peer.get('keepalive_time', 0), want_ka))
        want_node = 'dtn://node-b/' if side == 'A' else 'dtn://node-a/'
        if str(params.get('peer_nodeid')) != want_node:
            problems.append('%s: peer node id %r, announced %r' % (side, params.get('peer_nodeid'), want_node))
        want_mru = clamp(peer.get('segment_size_mru', int(10 * (1024 ** 2))))
        if params.get('peer_segment_mru') != want_mru:
            problems.append('%s: peer segment MRU %r, announced %r' % (side, params.get('peer_segment_mru'), want_mru))
        if params.get('peer_transfer_mru') != clamp(2 ** 64 - 1):
            problems.append('%s: peer transfer MRU %r' % (side, params.get('peer_transfer_mru')))
    return problems


def check_segments(run, obs):
    problems = []
    wires = {side: [m for (m, _e, _n) in run.wire(side)[0]] for side in ('A', 'B')}
    for side, other in (('A', 'B'), ('B', 'A')):
        mru = next((m['segment_mru'] for m in wires[other] if m['type'] == 'SESS_INIT'), None)
        for msg in wires[side]:
            if msg['type'] == 'XFER_SEGMENT' and mru is not None:
                obs['segments_vs_mru'] += 1
                if len(msg['data']) > mru:
                    problems.append('%s sent a segment of %d octets, peer segment MRU is %d' % (side, len(msg['data']), mru))
                    break
    return problems


def check_timers(rec, run, keepalive, idle, obs, until_ns):
    ''' Keepalive / idle model on the virtual-time log of each endpoint. '''
    problems = []
    for side in ('A', 'B'):
        log = rec.log[side]
        est = None
        for (when, kind, name) in log:
            if (kind == 'tx' and name == 'SessionInit' and side == 'B') or (kind == 'rx' and side == 'A' and est is None and False):
                pass
        # establishment time: the state change signal
        est_ev = [ev for ev in run.signals(side, 'session_state_changed') if ev['args'][0] == 'established']
        if not est_ev:
            continue
        est = est_ev[0]['vtime_ns']
        closed_at = None
        sock = run.sock_a if side == 'A' else run.sock_b
        for (_no, when, name) in run.sim.net.close_log:
            if name == sock.name:
                closed_at = when
        end = closed_at if closed_at is not None else until_ns
        txs = [(when, name) for (when, kind, name) in log if kind == 'tx' and when >= est]
        rxs = [when for (when, kind, _n) in log if kind == 'rx' and when >= est]
        # keepalive rule
        if keepalive > 0:
            gap = keepalive * 1000 * MS
            last = est
            for (when, name) in txs:
                if when - last > gap:
                    problems.append('%s was silent for %.3f s with keepalive interval %d s (from %.3f s)' % (
                        side, (when - last) / 1e9, keepalive, last / 1e9))
                    break
                if name == 'Keepalive':
                    obs['keepalives_checked'] += 1
                    if when - last != gap:
                        problems.append('%s sent KEEPALIVE %.3f s after its last message, interval is %d s' % (side, (when - last) / 1e9, keepalive))
                        break
                last = when
            else:
                if end - last > gap:
                    problems.append('%s was silent for %.3f s up to the end of the run with keepalive interval %d s' % (
                        side, (end - last) / 1e9, keepalive))
        else:
            if any(name == 'Keepalive' for (_w, name) in txs):
                problems.append('%s sent a KEEPALIVE although the negotiated interval is 0' % side)
        # idle rule
        terms = [(when, name) for (when, name) in txs if name == 'SessionTerm']
        if idle > 0:
            # the log is already in execution order; within one virtual instant that order is what counts
            events = [(when, kind, name if kind == 'tx' else None) for (when, kind, name) in log if when >= est]
            last = est
            fired = None
            in_term = False
            for (when, kind, name) in events:
                if not in_term and when - last > idle * 1000 * MS:
                    problems.append('%s saw no traffic for %.3f s but its idle time is %d s and it did not start termination at %.3f s' % (
                        side, (when - last) / 1e9, idle, (last + idle * 1000 * MS) / 1e9))
                    break
                if kind == 'tx' and name == 'SessionTerm' and not in_term:
                    in_term = True
                    if when - last == idle * 1000 * MS:
                        fired = when
                        obs['idle_timeouts_checked'] += 1
                    elif when - last < idle * 1000 * MS:
                        wire_terms = [m for (m, _e, _n) in run.wire(side)[0] if m['type'] == 'SESS_TERM']
                        if wire_terms and wire_terms[0]['reason'] == 1 and not (wire_terms[0]['flags'] & tw.TERM_REPLY):
                            problems.append('%s terminated with reason idle-timeout only %.3f s after the last traffic (octets %s), its idle time is %d s' % (
                                side, (when - last) / 1e9, 'received' if rxs and max(r for r in rxs if r <= when) == last else 'sent', idle))
                last = when
            else:
                if not in_term and end - last > idle * 1000 * MS:
                    problems.append('%s saw no traffic for %.3f s until the end of the run, idle time is %d s, no termination' % (
                        side, (end - last) / 1e9, idle))
            if fired is not None:
                # the SESS_TERM written must carry reason idle-timeout
                msgs = [m for (m, _e, _n) in run.wire(side)[0] if m['type'] == 'SESS_TERM']
                if msgs and msgs[0]['reason'] != 1 and not (msgs[0]['flags'] & tw.TERM_REPLY):
                    problems.append('%s terminated on idle expiry with reason %d, not idle-timeout' % (side, msgs[0]['reason']))
        elif terms:
            wire_terms = [m for (m, _e, _n) in run.wire(side)[0] if m['type'] == 'SESS_TERM']
            if wire_terms and not (wire_terms[0]['flags'] & tw.TERM_REPLY):
                problems.append('%s started termination although nobody asked and its idle time is 0' % side)
    return problems


def run_timing(params, obs):
    ''' One timing run.  params: ka_a, ka_b, idle_a, idle_b, traffic: list of (offset_ms, side, length), duration_s '''
    cfg_a = dict(keepalive_time=params['ka_a'], idle_time=params['idle_a'], segment_size_tx_initial=params.get('seg', 100))
    cfg_b = dict(keepalive_time=params['ka_b'], idle_time=params['idle_b'], segment_size_tx_initial=params.get('seg', 100))
    if params.get('mru_b'):
        cfg_b['segment_size_mru'] = params['mru_b']
    if params.get('via_file'):
        cfg_a['via_file'] = cfg_b['via_file'] = True
    run = PairRun(seed=params.get('seed', 0), policy='eager', cfg_a=cfg_a, cfg_b=cfg_b, capacity=params.get('capacity'))
    if params.get('latency_ms'):
        # one-way delay: an acknowledgement or KEEPALIVE then arrives at an instant at which the receiver sends nothing itself
        run.sim.deliver_latency_ns = params['latency_ms'] * MS
    rec = Recorder(run)
    run.start()
    run.sim.settle(20000)
    problems = []
    problems += check_negotiation(run, cfg_a, cfg_b, obs)
    keepalive = min(params['ka_a'], params['ka_b'])
    t0 = run.sim.world.now_ns
    counters = {'A': 0, 'B': 0}
    for (offset_ms, side, length) in sorted(params.get('traffic', [])):
        target = t0 + offset_ms * MS
        if target > run.sim.world.now_ns:
            run.sim.advance(target - run.sim.world.now_ns)
        if not run.closed(side):
            run.send(side, payload_for(side, counters[side], length))
            counters[side] += 1
        run.sim.settle(20000)
    end = t0 + int(params['duration_s'] * 1000) * MS
    if end > run.sim.world.now_ns:
        run.sim.advance(end - run.sim.world.now_ns)
    obs['runs'] += 1
    if run.callback_errors():
        err = run.callback_errors()[0]
        problems.append('callback %s of %s raised %s: %s' % (err.source, err.node, err.exc_type, str(err.exc)[:80]))
    # idle as configured per side: each side uses its own
    for side, idle in (('A', params['idle_a']), ('B', params['idle_b'])):
        pass
    problems += check_timers_sides(rec, run, keepalive, params, obs)
    problems += check_segments(run, obs)
    return problems


def check_timers_sides(rec, run, keepalive, params, obs):
    problems = []
    until = run.sim.world.now_ns
    # check each side with its own idle time; after the peer started termination the other side's idle obligations end
    for side, idle in (('A', params['idle_a']), ('B', params['idle_b'])):
        one = Recorder.__new__(Recorder)
        one.log = {'A': [], 'B': []}
        one.log[side] = rec.log[side]
        sub = check_timers(one, _OneSide(run, side), keepalive, idle, obs, until)
        problems += sub
    return problems


class _OneSide(object):
    ''' View of a run that exposes only one side to check_timers. '''

    def __init__(self, run, side):
        self._run = run
        self._side = side
        self.sim = run.sim
        self.sock_a, self.sock_b = run.sock_a, run.sock_b

    def signals(self, side, member):
        return self._run.signals(side, member) if side == self._side else []

    def wire(self, side):
        return self._run.wire(side)


def run_mute(params, obs):
    ''' A terminating endpoint whose peer has gone mute must close by request + idle time. '''
    cfg_a = dict(keepalive_time=params['ka'], idle_time=params['idle'])
    cfg_b = dict(keepalive_time=params['ka'], idle_time=0)
    run = PairRun(seed=0, policy='eager', cfg_a=cfg_a, cfg_b=cfg_b)
    run.start()
    run.sim.settle(20000)
    problems = []
    if params.get('bundle'):
        run.send('A', payload_for('A', 0, params['bundle']))
    # B goes mute: its process stops being scheduled (socket stays open)
    node = run.sim.world.node('B')
    for src in list(node.sources.values()):
        node._kill(src)
    if params.get('how') == 'idle':
        # nobody asks: A's own idle timer starts the termination (SESS_TERM at I), and with the peer still silent A must have
        # closed one idle time later
        t_req = run.sim.world.now_ns
        run.sim.advance((2 * params['idle'] * 1000 + 50) * MS)
        if not any(msg['type'] == 'SESS_TERM' for (msg, _e, _n) in run.wire('A')[0]):
            problems.append('idle endpoint with a mute peer sent no SESS_TERM within 2 x idle time')
    else:
        run.sim.advance(params['before_ms'] * MS)
        t_req = run.sim.world.now_ns
        res = run.call('A', 'terminate', dbus.Byte(0))
        if isinstance(res, Exception):
            return ['terminate() refused: %s' % res]
        run.sim.advance((params['idle'] * 1000 + 50) * MS)
    obs['runs'] += 1
    errs = [err for err in run.callback_errors() if err.node == 'A']
    if errs:
        problems.append('callback %s raised %s: %s' % (errs[0].source, errs[0].exc_type, str(errs[0].exc)[:80]))
    if not run.closed('A'):
        problems.append('terminating endpoint with a mute peer is still open %.3f s after the request (idle time %d s)' % (
            (run.sim.world.now_ns - t_req) / 1e9, params['idle']))
    else:
        obs['mute_peer_closures'] += 1
    return problems


def run_silent_after_reply(role, idle, ka, pending, obs):
    ''' Both SESS_TERM are exchanged, something is still pending (the final XFER_ACK of the endpoint's bundle is withheld, or the
    peer's own transfer stops half way) and then the peer says nothing more while keeping its socket open: the endpoint ends by
    closing within its idle time (counted from the last thing it heard). '''
    from vf.world.sim import Sim
    from vf import tcpcl_harness as th
    sim = Sim(seed=0, policy='eager')
    sock_a, sock_b = sim.net.tcp_pair()
    cfg = th.make_config('dtn://under-test/', idle_time=idle, keepalive_time=ka, segment_size_tx_initial=1000)
    if role == 'passive':
        end = th.Endpoint(sim, 'E', cfg, sock_b, passive=True, peer_addr=('10.0.0.1', 40001))
        peer_sock, end_sock = sock_a, sock_b
    else:
        end = th.Endpoint(sim, 'E', cfg, sock_a, passive=False, peer_addr=('10.0.0.2', 4556))
        peer_sock, end_sock = sock_b, sock_a
    end.start()
    sim.settle(20000)

    def write(data):
        peer_sock.tx.write(data)
        sim.settle(50000)

    write(tw.encode(dict(type='contact', flags=0)))
    write(tw.encode(dict(type='SESS_INIT', keepalive=ka, segment_mru=2 ** 20, transfer_mru=2 ** 30, nodeid=b'dtn://peer/', ext=[])))
    if pending == 'final-ack':
        end.call('send_bundle_data', dbus.ByteArray(bytes(range(200))))
        sim.settle(50000)
    else:
        write(tw.encode(dict(type='XFER_SEGMENT', flags=tw.FLAG_START, transfer_id=5, ext=[tw.transfer_length_ext(100)], data=b'x' * 40)))
    sim.advance(300 * MS)
    end.call('terminate', dbus.Byte(0))
    sim.settle(50000)
    write(tw.encode(dict(type='SESS_TERM', flags=1, reason=0)))
    t_last = sim.world.now_ns
    obs['runs'] += 1
    what = '%s endpoint, idle time %d s, keepalive %d s, both SESS_TERM exchanged with %s still pending, then a silent peer' % (
        role, idle, ka, {'final-ack': 'the final XFER_ACK of its bundle', 'half-transfer': 'half of an incoming transfer'}[pending])
    if end_sock.closed:
        return ['%s: closed at once although the peer may still acknowledge / finish' % what]
    sim.advance((idle * 1000 + 50) * MS)
    errs = sim.world.callback_errors
    if errs:
        return ['%s: callback %s raised %s' % (what, errs[0].source, errs[0].exc_type)]
    if not end_sock.closed:
        return ['%s: still open %.3f s after the last thing it heard' % (what, (sim.world.now_ns - t_last) / 1e9)]
    obs['mute_peer_closures'] += 1
    return []


def run_stalled_reader(role, ka, stall_s, obs):
    ''' The peer stops reading for longer than the keepalive interval while the endpoint has octets waiting for a full socket
    (so the keepalive timer expires with a backlog), then reads and acknowledges everything and falls silent: from then on a
    KEEPALIVE is due every interval, as at any other time. '''
    from vf.props import c09
    wt = c09.Waiter(dict(seed=0, policy='eager', capacity=1024, seg=30000, role=role, refuse=False, peer_terminates='never'))
    # (the scripted peer of C09 is reused for its slow reader; its keepalive is the one it announces here)
    cfg_ka = wt.end.cfg
    cfg_ka.keepalive_time = ka
    sim = wt.sim
    sim.settle(20000)
    wt.queue(tw.encode(dict(type='contact', flags=0)))
    wt.queue(tw.encode(dict(type='SESS_INIT', keepalive=ka, segment_mru=2 ** 20, transfer_mru=2 ** 30, nodeid=b'dtn://peer/', ext=[])))
    for _ in range(50):
        wt.pump(4096)
        sim.settle(20000)
        if any(msg['type'] == 'SESS_INIT' for msg in wt.msgs):
            break
    wt.end.call('send_bundle_data', dbus.ByteArray(bytes((pos * 7) & 0xFF for pos in range(20000))))
    sim.settle(20000)
    sim.advance(int(stall_s * 1000) * MS)         # nobody reads: the socket stays full
    for _ in range(400):
        moved = wt.pump(4096)
        sim.settle(20000)
        if not moved and not wt.end_sock.tx.rxbuf and not wt.outbuf:
            break
    obs['runs'] += 1
    n_before = sum(1 for msg in wt.msgs if msg['type'] == 'KEEPALIVE')
    for _ in range(3 * ka * 4):
        sim.advance(250 * MS)
        wt.pump(4096)
        sim.settle(20000)
    n_after = sum(1 for msg in wt.msgs if msg['type'] == 'KEEPALIVE')
    errs = sim.world.callback_errors
    if errs:
        return ['callback %s raised %s' % (errs[0].source, errs[0].exc_type)]
    if wt.end_sock.closed:
        return []
    obs['stalled_reader_runs'] = obs.get('stalled_reader_runs', 0) + 1
    if n_after - n_before < 2:
        return ['%s endpoint, keepalive %d s: after the peer had not read for %.1f s (keepalive expiry with octets waiting for a full socket) and '
                'then acknowledged everything, only %d KEEPALIVE arrived in the following %d s of silence' % (role, ka, stall_s, n_after - n_before, 3 * ka)]
    return []


def run_failed_negotiation(role, idle, how, answer, obs):
    ''' The peer's SESS_INIT cannot be accepted (a segment MRU of zero, a node id that is no text): the endpoint sends
    SESS_TERM(contact failure) and is terminating without ever having had a session.  Answered with the peer's SESS_TERM it
    closes; answered with nothing it still closes once its configured idle time has passed. '''
    from vf.world.sim import Sim
    from vf import tcpcl_harness as th
    sim = Sim(seed=0, policy='eager')
    sock_a, sock_b = sim.net.tcp_pair()
    cfg = th.make_config('dtn://under-test/', idle_time=idle, keepalive_time=0)
    if role == 'passive':
        end = th.Endpoint(sim, 'E', cfg, sock_b, passive=True, peer_addr=('10.0.0.1', 40001))
        peer_sock, end_sock = sock_a, sock_b
    else:
        end = th.Endpoint(sim, 'E', cfg, sock_a, passive=False, peer_addr=('10.0.0.2', 4556))
        peer_sock, end_sock = sock_b, sock_a
    end.start()
    sim.settle(20000)

    def write(data):
        peer_sock.tx.write(data)
        sim.settle(50000)

    write(tw.encode(dict(type='contact', flags=0)))
    init = dict(type='SESS_INIT', keepalive=0, segment_mru=2 ** 20, transfer_mru=2 ** 30, nodeid=b'dtn://peer/', ext=[])
    if how == 'mru0':
        init['segment_mru'] = 0
    else:
        init['nodeid'] = b'dtn://peer/\x00'
    if answer == 'together':
        # the peer's own SESS_TERM follows its SESS_INIT in the same read; afterwards it waits for the endpoint to close
        write(tw.encode(init) + tw.encode(dict(type='SESS_TERM', flags=0, reason=0)))
    else:
        write(tw.encode(init))
    obs['runs'] += 1
    obs['failed_negotiation_runs'] = obs.get('failed_negotiation_runs', 0) + 1
    msgs = [m for (m, _e) in tw.parse_stream(end_sock.tx.all_bytes())[0]]
    terms = [m for m in msgs if m['type'] == 'SESS_TERM']
    what = '%s endpoint, idle time %d s, peer SESS_INIT refused (%s)' % (role, idle, 'segment MRU 0' if how == 'mru0' else 'node id with NUL')
    if sim.world.callback_errors:
        return ['%s: callback raised %s' % (what, sim.world.callback_errors[0].exc_type)]
    if end_sock.closed:
        return []       # closing at once is a legal way to refuse as well
    if answer == 'together':
        what += ', the peer\'s own SESS_TERM in the same read'
        if len(terms) != 1:
            return ['%s: expected one SESS_TERM from the endpoint, it wrote %s' % (what, [(m['type'], m.get('reason')) for m in msgs][-3:])]
        sim.advance(100 * MS)
        if not end_sock.closed:
            return ['%s: both SESS_TERM are exchanged and nothing is in progress, but the endpoint did not close' % what]
        obs['mute_peer_closures'] += 1
        return []
    if len(terms) != 1 or terms[0]['reason'] != 4:
        return ['%s: expected SESS_TERM(contact failure), endpoint wrote %s' % (what, [(m['type'], m.get('reason')) for m in msgs][-2:])]
    if answer:
        write(tw.encode(dict(type='SESS_TERM', flags=tw.TERM_REPLY, reason=4)))
        sim.advance(100 * MS)
        if not end_sock.closed:
            rejects = [m for m in [mm for (mm, _e) in tw.parse_stream(end_sock.tx.all_bytes())[0]] if m['type'] == 'MSG_REJECT']
            return ['%s: the peer answered with its SESS_TERM but the endpoint did not close (%d MSG_REJECT sent)' % (what, len(rejects))]
    else:
        sim.advance((idle * 1000 + 50) * MS)
        if not end_sock.closed:
            return ['%s: terminating and hearing nothing further, still open %.3f s after its SESS_TERM' % (what, idle + 0.05)]
    obs['mute_peer_closures'] += 1
    return []


def run_announced(role, seg_mru, xfer_mru, keepalive, obs, nodeid='dtn://announcer/', raw_nodeid=None):
    ''' A scripted peer announces arbitrary values; get_session_parameters() must report them as announced. '''
    from vf.props import c17
    peer = c17.Peer(role, 'pre-init')
    peer.write(tw.encode(dict(type='SESS_INIT', keepalive=keepalive, segment_mru=seg_mru, transfer_mru=xfer_mru,
                              nodeid=raw_nodeid if raw_nodeid is not None else nodeid.encode('utf-8'), ext=[])))
    peer.sent_sess_init = True
    peer.settle()
    obs['runs'] += 1
    problems = []
    errs = peer.sim.world.callback_errors
    if errs:
        return ['callback %s raised %s: %s' % (errs[0].source, errs[0].exc_type, str(errs[0].exc)[:80])]
    for viol in peer.sim.hist.sig_violations:
        problems.append('%s %s.%s%s does not marshal as %r: %s' % (viol.kind, viol.iface, viol.member, viol.args_repr[:60], viol.signature, viol.msg[:60]))
    if raw_nodeid is not None:
        # octets that are no URI text: nothing can be "reported as announced"; refusing the session is the consistent outcome, and
        # whatever happens nothing may raise or fail to marshal
        obs['unreportable_nodeid_runs'] = obs.get('unreportable_nodeid_runs', 0) + 1
        if not (peer.terminating() or peer.closed()):
            try:
                dict(peer.end.call('get_session_parameters'))
            except Exception as err:  # pylint: disable=broad-except
                problems.append('get_session_parameters failed for a peer node id that is no text: %s' % str(err)[:80])
            for viol in peer.sim.hist.sig_violations:
                problems.append('%s %s.%s does not marshal as %r: %s' % (viol.kind, viol.iface, viol.member, viol.signature, viol.msg[:60]))
        return problems
    try:
        params = dict(peer.end.call('get_session_parameters'))
    except Exception as err:  # pylint: disable=broad-except
        return ['get_session_parameters failed: %s' % err]
    obs['negotiations_checked'] += 1
    obs['announced_value_runs'] = obs.get('announced_value_runs', 0) + 1
    if params.get('peer_segment_mru') != clamp(seg_mru):
        problems.append('peer segment MRU reported as %r, announced %r (with transfer MRU %r)' % (params.get('peer_segment_mru'), seg_mru, xfer_mru))
    if params.get('peer_transfer_mru') != clamp(xfer_mru):
        problems.append('peer transfer MRU reported as %r, announced %r' % (params.get('peer_transfer_mru'), xfer_mru))
    if str(params.get('peer_nodeid')) != nodeid:
        got = str(params.get('peer_nodeid'))
        problems.append('peer node id (%d characters, %d octets) reported as %r (%d characters)' % (
            len(nodeid), len(nodeid.encode('utf-8')), got[:40] + ('...' + got[-20:] if len(got) > 60 else got[40:]), len(got)))
    if params.get('keepalive') != min(keepalive, 0):
        problems.append('negotiated keepalive %r, min of 0 (own) and %r' % (params.get('keepalive'), keepalive))
    return problems


def run_adaptive(params, obs):
    ''' Adaptive segment sizing: contract on the controller + wire bound. '''
    import icontract
    from tcpcl import session
    calls = [0]
    bad = []

    def within_bounds(self, result):
        calls[0] += 1
        mru = self._sessinit_peer.segment_mru
        okay = 1 <= self._send_segment_size <= mru
        if not okay:
            bad.append((self._send_segment_size, mru))
        return True

    class PostBroken(Exception):
        pass

    orig = session.Messenger._modulate_tx_seg_size
    session.Messenger._modulate_tx_seg_size = icontract.ensure(within_bounds, error=PostBroken)(orig)
    try:
        cfg_a = dict(segment_size_tx_initial=params['seg'], modulate_target_ack_time=params['target'])
        cfg_b = dict(segment_size_mru=params['mru'])
        scn = dict(id='adaptive', seed=params['seed'], policy=params['policy'], capacity=None, cfg_a=cfg_a, cfg_b=cfg_b,
                   sends=[dict(side='A', length=length, at=-1) for length in params['lengths']])
        run = PairRun(seed=scn['seed'], policy=scn['policy'], cfg_a=cfg_a, cfg_b=cfg_b)
        run.sim.deliver_latency_ns = 1 * MS
        for idx, length in enumerate(params['lengths']):
            run.send('A', payload_for('A', idx, length))
        run.start()
        res = run.sim.settle(400000)
    finally:
        session.Messenger._modulate_tx_seg_size = orig
    obs['runs'] += 1
    obs['modulate_calls'] += calls[0]
    problems = []
    if res != 'quiescent':
        return None
    if run.callback_errors():
        err = run.callback_errors()[0]
        problems.append('adaptive run: callback %s of %s raised %s: %s' % (err.source, err.node, err.exc_type, str(err.exc)[:80]))
    for (size, mru) in bad[:1]:
        problems.append('segment size controller left size %r outside [1, peer MRU %d]' % (size, mru))
    problems += check_segments(run, obs)
    got = [data for (_tid, data) in run.drain('B')]
    want = [payload for (_tid, payload, _no) in run.queued['A']]
    if not run.callback_errors() and got != want:
        problems.append('adaptive run: received %s, queued %s' % ([len(x) for x in got], [len(x) for x in want]))
    return problems


def cases(tier, seed):
    out = []
    thorough = tier == 'thorough'
    pairs = list(itertools.product(KEEPALIVES, KEEPALIVES))
    idx = 0
    for (ka_a, ka_b) in pairs:
        for idle in (IDLES if thorough else [0, 3]):
            out.append(dict(id='t-%d' % idx, kind='timing', ka_a=ka_a, ka_b=ka_b, idle=idle, seed=seed))
            idx += 1
    for idle in (1, 3, 10):
        for ka in (0, 1, 30):
            for before in (0, 500):
                for bundle in (0, 40):
                    out.append(dict(id='mute-%d-%d-%d-%d' % (idle, ka, before, bundle), kind='mute', idle=idle, ka=ka, before_ms=before, bundle=bundle))
            if ka == 0 or ka > idle:
                # (with a keepalive interval below the idle time the endpoint's own KEEPALIVEs are traffic: an established
                # session is then never idle, as the statement has it)
                out.append(dict(id='mute-idle-%d-%d' % (idle, ka), kind='mute', idle=idle, ka=ka, before_ms=0, bundle=0, how='idle'))
    out.append(dict(id='announced', kind='announced'))
    out.append(dict(id='silent-after-reply', kind='silent'))
    out.append(dict(id='stalled-reader', kind='stalled'))
    out.append(dict(id='failed-negotiation', kind='failed-negotiation'))
    rng = random.Random(seed)
    for idx in range(120 if thorough else 16):
        out.append(dict(id='adapt-%d' % idx, kind='adaptive', seed=seed * 31 + idx,
                        seg=rng.choice([1, 100, 10240, 104857]), mru=rng.choice([1, 64, 10240, 20000, 10485760]),
                        target=rng.choice([1, 2, 10]), policy=rng.choice(['fair', 'eager', 'burst']),
                        lengths=[rng.choice([1, 50, 5000, 30000, 100000]) for _ in range(rng.randint(1, 3))]))
    return out


def run_case(case):
    obs = dict(runs=0, negotiations_checked=0, keepalives_checked=0, idle_timeouts_checked=0, mute_peer_closures=0, modulate_calls=0,
               segments_vs_mru=0)
    violations = []
    classes = set()
    sample = None
    evaluations = 0

    def note(problems, tag, params):
        nonlocal sample, evaluations
        evaluations += 1
        if problems is None:
            return
        classes.add('%s|%s' % (tag, sorted(params.items())))
        if sample is None:
            sample = dict(kind=tag, params=params)
        for text in problems:
            violations.append(dict(key=None, what='[%s] %s' % (tag, text), detail=dict(params=params)))

    if case['kind'] == 'timing':
        ka_a, ka_b, idle = case['ka_a'], case['ka_b'], case['idle']
        keepalive = min(ka_a, ka_b)
        deadline = keepalive if keepalive and keepalive < 100 else (idle or 2)
        base = dict(ka_a=ka_a, ka_b=ka_b, idle_a=idle, idle_b=idle, seed=case['seed'])
        dur = min(3 * max(deadline, idle or 1) + 2, 40)
        note(run_timing(dict(base, traffic=[], duration_s=dur), obs), 'timing', dict(base, traffic='none'))
        for delta in (-1, 0, 1):
            for side in ('A', 'B'):
                traffic = [(deadline * 1000 + delta, side, 30), (2 * deadline * 1000 + delta, 'A' if side == 'B' else 'B', 250)]
                note(run_timing(dict(base, traffic=traffic, duration_s=dur), obs), 'timing', dict(base, traffic=str(traffic)))
        # the same with a one-way network delay: receptions no longer coincide with own transmissions
        for latency in (1, 7):
            obs['latency_runs'] = obs.get('latency_runs', 0) + 1
            traffic = [(deadline * 500, 'A', 250), (deadline * 1000 + deadline * 300, 'B', 30)]
            note(run_timing(dict(base, traffic=traffic, duration_s=dur, latency_ms=latency), obs), 'timing', dict(base, traffic=str(traffic), latency_ms=latency))
        # configuration read from a document by the real Config.from_file(): the configured values must be the ones in force
        obs['from_file_runs'] = obs.get('from_file_runs', 0) + 1
        long_dur = min(max(dur, 2 * max(ka_a, ka_b) + 3), 200)
        note(run_timing(dict(base, traffic=[], duration_s=long_dur, via_file=True), obs), 'timing', dict(base, traffic='none', via_file=True))
        if idle and (not keepalive or keepalive >= idle):
            # one large segment trickling in over a slow narrow link for longer than the idle time: octets keep arriving, that is traffic
            obs['trickle_runs'] = obs.get('trickle_runs', 0) + 1
            ticks_needed = 2 * idle + 2
            trickle = dict(base, traffic=[(200, 'B', 400 * ticks_needed)], duration_s=min(3 * idle + 8, 60), latency_ms=500, capacity=400, seg=400 * ticks_needed)
            note(run_timing(trickle, obs), 'timing', dict(base, traffic='B trickles one segment of %d octets at 400 octets per 0.5 s' % (400 * ticks_needed)))
        if idle:
            # asymmetric idle times
            note(run_timing(dict(base, idle_b=0, traffic=[(idle * 1000 - 1, 'B', 5)], duration_s=dur), obs), 'timing',
                 dict(base, idle_b=0, traffic='B just before A idles'))
    elif case['kind'] == 'announced':
        for role in ('passive', 'active'):
            for (seg_mru, xfer_mru) in ((65536, 65535), (10 * 2 ** 20, 2 ** 20), (2 ** 64 - 1, 50000), (100, 2 ** 30), (2 ** 40, 2 ** 40), (1, 1), (2 ** 31 - 1, 2 ** 31),
                                        (5000, 5000), (2 ** 20, 0)):
                for keepalive in (0, 7, 65535):
                    params = dict(role=role, seg_mru=seg_mru, xfer_mru=xfer_mru, keepalive=keepalive)
                    note(run_announced(role, seg_mru, xfer_mru, keepalive, obs), 'announced', params)
        # node ids across the one-octet / two-octet length boundary, in characters and in octets
        for role in ('passive', 'active'):
            for nodeid in ('dtn://' + 'n' * 248 + '/', 'dtn://' + 'n' * 249 + '/', 'dtn://' + 'n' * 293 + '/', 'dtn://' + 'n' * 2000 + '/svc',
                           'dtn://' + '\u00e9' * 130 + '/', 'ipn:' + '9' * 19 + '.' + '7' * 19, 'dtn://a/', 'x:'):
                note(run_announced(role, 4096, 2 ** 20, 0, obs, nodeid=nodeid), 'announced', dict(role=role, nodeid_len=len(nodeid)))
            for raw in (b'dtn://a\x00b/', b'dtn://peer/\x00', b'dtn://n\xe9ud/', b'\xff\xfe', b'\x00'):
                note(run_announced(role, 4096, 2 ** 20, 0, obs, raw_nodeid=raw), 'announced', dict(role=role, raw_nodeid=raw.hex()))
    elif case['kind'] == 'stalled':
        for role in ('passive', 'active'):
            for (ka, stall_s) in ((1, 2.5), (2, 2.1), (3, 10), (2, 0.5)):
                note(run_stalled_reader(role, ka, stall_s, obs), 'stalled', dict(role=role, ka=ka, stall_s=stall_s))
    elif case['kind'] == 'failed-negotiation':
        for role in ('passive', 'active'):
            for idle in (1, 5):
                for how in ('mru0', 'nul'):
                    for answer in (True, False):
                        params = dict(role=role, idle=idle, how=how, answer=answer)
                        note(run_failed_negotiation(role, idle, how, answer, obs), 'failed-negotiation', params)
    elif case['kind'] == 'silent':
        for role in ('passive', 'active'):
            for idle in (2, 5):
                for ka in (0, 1, 30):
                    for pending in ('final-ack', 'half-transfer'):
                        params = dict(role=role, idle=idle, ka=ka, pending=pending)
                        note(run_silent_after_reply(role, idle, ka, pending, obs), 'silent', params)
    elif case['kind'] == 'mute':
        params = {k: case[k] for k in ('idle', 'ka', 'before_ms', 'bundle')}
        params['how'] = case.get('how', 'request')
        note(run_mute(params, obs), 'mute', params)
    else:
        params = {k: case[k] for k in ('seed', 'seg', 'mru', 'target', 'policy', 'lengths')}
        note(run_adaptive(params, obs), 'adaptive', dict(params, lengths=str(params['lengths'])))
    uniq = {}
    for viol in violations:
        uniq.setdefault(viol['what'][:80], viol)
    violations = list(uniq.values())[:12]
    return dict(verdict='violated' if violations else 'held', nontrivial=bool(classes), cls=classes, obs=obs,
                violations=violations, sample=sample, evaluations=evaluations)
