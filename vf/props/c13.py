''' C13 -- UDPCL transfers arrive intact and no datagram exceeds the MTU.

Monitor: datagrams captured by the fake UDP socket for one send_bundle_data
call of the real UDPCL agent (full path: queue, paced sender in virtual time);
on the receive side recv_bundle_finished signals, the receive queue after EVERY
datagram, and popped data.

Oracle: (send) one datagram equal to the bundle, or transfer segments each <=
MTU, each a CBOR map {2: [id, total, offset, data]}, ranges tiling [0,total),
concatenation equal to the bundle.  (receive) exactly-once model: nothing
queued while an octet is missing; one copy when complete; every queued item
equals the bundle even with repeats; several messages / padding in one datagram
are handled per message.
'''
import itertools
import random

import dbus

from vf.oracles import bpv7
from vf.oracles import cbor_walk as cw

PROPERTY_ID = 'C13'
RULE = ('(send) bundle lengths x MTUs walking across CBOR head-size boundaries (23/24, 255/256, 65535/65536 for total length and '
        'offsets), transfer ids 0..300; (receive) all permutations of <= 6 segments (thorough, <= 5 quick), seeded permutations '
        'for more, single repeats at every position, interleaving with other transfer ids and other peer addresses/ports, '
        'datagrams composed of 2-3 messages and message + zero padding; round trips of what the real sender produced. '
        'Non-trivial = a segmented transfer or a multi-message datagram; distinct = distinct (bundle length, MTU) or arrival sequence.')
ASSUMPTIONS = [
    'fake UDP sockets: kernel UDP, DTLS and ECN behaviour are not under test',
    'MTUs that cannot carry one data octet per segment are outside the domain',
    'vf/shims/portion.py stands in for the portion package (self-tested)',
]
DECIDING = ['udpcl.agent:Agent._send_transfer', 'udpcl.agent:Agent._recv_datagram', 'udpcl.agent:Agent._recv_ext_map',
            'udpcl.agent:Agent._process_tx_queue', 'udpcl.agent:TxSendWait._update_send', 'udpcl.agent:range_encode']
REQUIRED_OBS = ['stack_udpcl_pops', 'sends', 'receives_with_own_mtu', 'segmented_sends', 'segments_checked', 'receive_histories', 'multi_message_datagrams', 'repeats_injected',
                'range_roundtrips']
RULE = RULE + " Whole-stack runs (vf.stack): three hosts X-Y-Z, each a real BP agent bound through bp/cla.py and the in-process bus to real UDPCL/TCPCL agents over the simulated network (datagrams reordered and duplicated, BP and UDPCL MTUs, 2-14 bundles with report requests per scenario); judged per node, conditional on what the node's adaptor popped and what the agent handed to the adaptor's sender; the stack_* counters say what was compared."

PEER = ('10.0.0.9', 5555)


def make_bundle(total_len, seq=0):
    ''' A valid encoded bundle of exactly total_len octets (>= 40); lengths that cannot be hit exactly (CBOR head-size
    jump of the payload byte string) are rounded up to the next one that can. '''
    pri = dict(version=7, flags=0, crc_type=0, dest='dtn://d/', src='dtn://s/', report_to='dtn:none', create_time=1000 + seq,
               seqno=seq % 20, lifetime=1000, frag_offset=None, total_adu_len=None, crc=None)

    def encode(plen):
        data = bytes(((pos * 59) ^ (seq * 7) ^ (pos >> 8) ^ 0x3c) & 0xFF for pos in range(plen))
        return bpv7.encode(dict(primary=pri, blocks=[dict(type=1, num=1, flags=0, crc_type=0, data=data, crc=None)]))

    overhead = len(encode(0))
    for want in range(total_len, total_len + 16):
        for plen in range(max(0, want - overhead - 10), max(0, want - overhead) + 1):
            enc = encode(plen)
            if len(enc) == want:
                return enc
    raise ValueError('no bundle of about %d octets' % total_len)


class UdpNode(object):
    def __init__(self, mtu, seed=0):
        import udpcl.agent
        import udpcl.config
        from vf.world.sim import Sim, install_clock
        from vf.world import net as vnet
        self.sim = Sim(seed=seed, policy='eager')
        self.fake = vnet.FakeSocketModule(self.sim.net)
        self._mod = udpcl.agent
        self._orig = udpcl.agent.socket
        udpcl.agent.socket = self.fake
        install_clock()
        cfg = udpcl.config.Config(node_id='dtn://udp-a/', mtu_default=mtu, default_tx_address='10.0.0.1', default_tx_port=24556)
        cfg._bus_conn = dbus.bus.BusConnection('vf-udp')
        with self.sim.as_node('U'):
            self.agent = udpcl.agent.Agent(cfg, bus_kwargs=dict(conn=cfg.bus_conn, object_path='/org/ietf/dtn/udpcl/Agent'))
        self.path = '/org/ietf/dtn/udpcl/Agent'
        self.call('listen', '10.0.0.1', dbus.Int32(4556), dbus.Dictionary({}, signature='sv'))
        self.lsock = list(self.agent._bindsocks.values())[0]

    def close(self):
        self._mod.socket = self._orig

    def call(self, member, *args):
        from vf import tcpcl_harness as th
        return th._bus_call(self.sim, 'U', self.agent, self.path, getattr(type(self.agent), member), member, args)

    def feed(self, dgram, peer=PEER):
        self.lsock.queue.append((bytes(dgram), [], peer))
        return self.sim.settle(5000)

    def queue(self):
        return [str(x) for x in self.call('recv_bundle_get_queue')]

    def sent_datagrams(self):
        out = []
        for sock in self.sim.net.udp_bound.get(24556, []):
            out += [item[2] for item in sock.sent]
        return out


def check_send(total_len, mtu, obs, xfer_skip=0, polls_ms=(), failed_first=False):
    node = UdpNode(mtu)
    problems = []
    try:
        bundle = make_bundle(total_len, seq=total_len % 97)
        for skip in range(xfer_skip):
            if isinstance(node.agent._tx_id, int):
                node.agent._tx_id += 1
        if failed_first:
            # an earlier request that cannot be carried out (its peer name does not resolve): it fails by itself, the next request is
            # served like any other
            try:
                node.call('send_bundle_data', dbus.ByteArray(b'\x9f\xff'), dbus.Dictionary({'address': 'no-such-host.example', 'port': dbus.Int32(4556)}, signature='sv'))
            except Exception:  # pylint: disable=broad-except
                pass
            node.sim.run(200, until=lambda: bool(node.sim.world.callback_errors))
            obs['sends_after_a_failed_request'] = obs.get('sends_after_a_failed_request', 0) + 1
            del node.sim.world.callback_errors[:]
        node.call('send_bundle_data', dbus.ByteArray(bundle), dbus.Dictionary({'address': PEER[0], 'port': dbus.Int32(PEER[1])}, signature='sv'))
        if polls_ms:
            # other (non-transfer) messages of the agent go out on the same socket while the paced transfer is under way
            import udpcl.config
            from gi.repository import GLib
            item = udpcl.config.PollConfig(address=PEER[0], port=PEER[1], interval_ms=60000)
            with node.sim.as_node('U'):
                for when in polls_ms:
                    GLib.timeout_add(when, node.agent._poll, item, False)
        # bounded progress in virtual time: the paced sender moves about 10 octets per (virtual) second in this world; it is given
        # twice the time that takes plus ten minutes.  A sender that is still waiting then will wait for ever.
        t_start = node.sim.world.now_ns
        allowance_ns = (total_len // 5 + 600) * 10 ** 9
        res = node.sim.run(400000, until=lambda: node.sim.world.now_ns - t_start > allowance_ns)
        obs['sends'] += 1
        dgrams = node.sent_datagrams()
        if res == 'until':
            fins = node.sim.hist.signals('send_bundle_finished')
            return ['after %d s of virtual time the transfer of %d octets is not finished: %d datagram(s) sent, %d finished signal(s); the sender '
                    'keeps waiting' % (allowance_ns // 10 ** 9, total_len, len(dgrams), len(fins))], dgrams, bundle
        if polls_ms:
            polls = [dg for dg in dgrams if dg[:1] == b'\xa2' and dg != bundle]
            obs['poll_datagrams_during_transfer'] = obs.get('poll_datagrams_during_transfer', 0) + len(polls)
            dgrams = [dg for dg in dgrams if dg not in polls]
        if res != 'quiescent':
            return None, [], bundle
        if node.sim.world.callback_errors:
            err = node.sim.world.callback_errors[0]
            problems.append('callback %s raised %s: %s' % (err.source, err.exc_type, str(err.exc)[:80]))
        for viol in node.sim.hist.sig_violations:
            problems.append('signal %s%s does not marshal: %s' % (viol.member, viol.args_repr[:60], viol.msg[:40]))
        fins = node.sim.hist.signals('send_bundle_finished')
        if len(fins) != 1 or fins[0]['args'][2] != 'success':
            problems.append('%d send_bundle_finished signals %s' % (len(fins), [ev['args'][2] for ev in fins]))
        if not dgrams:
            problems.append('nothing was sent')
            return problems, dgrams, bundle
        if len(dgrams) == 1 and dgrams[0] == bundle:
            if mtu is not None and len(bundle) > mtu:
                problems.append('unsegmented datagram of %d octets exceeds the MTU %d' % (len(bundle), mtu))
            return problems, dgrams, bundle
        obs['segmented_sends'] += 1
        covered = set()
        total = len(bundle)
        rebuilt = bytearray(total)
        ids = set()
        for dgram in dgrams:
            obs['segments_checked'] += 1
            if mtu is not None and len(dgram) > mtu:
                problems.append('a segment datagram of %d octets exceeds the MTU %d' % (len(dgram), mtu))
            try:
                item = cw.parse_all(dgram)
                val = item.to_python()
            except cw.CborError as err:
                problems.append('a datagram is neither the bundle nor CBOR: %s' % err)
                continue
            if not (isinstance(val, dict) and list(val.keys()) == [2] and isinstance(val[2], list) and len(val[2]) == 4):
                problems.append('a datagram is not a map {2: [id, total, offset, data]}: %r' % (str(val)[:60],))
                continue
            xid, tot, off, data = val[2]
            ids.add(xid)
            if tot != total:
                problems.append('segment announces total %r, bundle is %d octets' % (tot, total))
            if not isinstance(data, bytes) or not data:
                problems.append('segment at offset %r carries no data' % (off,))
                continue
            span = set(range(off, off + len(data)))
            if span & covered:
                problems.append('segment [%d,%d) overlaps earlier segments' % (off, off + len(data)))
            covered |= span
            if off + len(data) <= total:
                rebuilt[off:off + len(data)] = data
            else:
                problems.append('segment [%d,%d) runs past the total %d' % (off, off + len(data), total))
        if covered != set(range(total)):
            problems.append('segments cover %d of %d octets' % (len(covered & set(range(total))), total))
        elif bytes(rebuilt) != bundle:
            problems.append('concatenated segments differ from the bundle')
        if len(ids) > 1:
            problems.append('segments of one transfer carry different ids %s' % sorted(ids))
        return problems, dgrams, bundle
    finally:
        node.close()


def segments_of(bundle, xid, sizes):
    ''' Oracle-built segment datagrams with the given piece sizes. '''
    out = []
    off = 0
    for size in sizes:
        data = bundle[off:off + size]
        out.append((off, off + len(data), cw.enc({2: [xid, len(bundle), off, data]})))
        off += size
    assert off >= len(bundle)
    return out


def check_receive_late(arrivals, originals, obs):
    ''' The application reads the queue only after everything has arrived: every complete transfer (and every whole bundle) must
    then be there exactly once, under distinct ids.  arrivals as for check_receive; a key whose lo is None is a whole bundle. '''
    node = UdpNode(None)
    problems = []
    try:
        for step, (key, lo, hi, dgram, peer) in enumerate(arrivals):
            node.feed(dgram, peer)
            if node.sim.world.callback_errors:
                err = node.sim.world.callback_errors[0]
                return ['arrival %d: callback %s raised %s: %s' % (step, err.source, err.exc_type, str(err.exc)[:80])]
        ids = node.queue()
        if len(set(ids)) != len(ids):
            problems.append('receive queue lists an id twice: %s' % ids)
        popped = [bytes(node.call('recv_bundle_pop_data', tid)) for tid in ids]
        want = sorted(originals.values())
        if sorted(popped) != want:
            problems.append('after all datagrams arrived the queue held %d bundle(s) of lengths %s, the %d complete transfers have lengths %s' % (
                len(popped), sorted(len(item) for item in popped), len(want), sorted(len(item) for item in want)))
        obs['receive_histories'] += 1
        obs['late_pop_histories'] = obs.get('late_pop_histories', 0) + 1
        return problems
    finally:
        node.close()


def check_receive(arrivals, originals, obs, compose=None, rx_mtu=None):
    ''' arrivals: list of (key, lo, hi, datagram, peer); originals: key -> bundle bytes. key = (peer, xid)
    :param rx_mtu: the receiver's own (transmit) MTU setting; what it can receive does not depend on it. '''
    node = UdpNode(rx_mtu)
    if rx_mtu is not None:
        obs['receives_with_own_mtu'] = obs.get('receives_with_own_mtu', 0) + 1
    problems = []
    try:
        coverage = {key: set() for key in originals}
        copies = {key: 0 for key in originals}
        popped = []
        for step, (key, lo, hi, dgram, peer) in enumerate(arrivals):
            before = node.queue()
            res = node.feed(dgram, peer)
            if node.sim.world.callback_errors:
                err = node.sim.world.callback_errors[0]
                problems.append('arrival %d: callback %s raised %s: %s' % (step, err.source, err.exc_type, str(err.exc)[:80]))
                break
            if res != 'quiescent':
                problems.append('arrival %d: loop not quiescent' % step)
                break
            after = node.queue()
            new = [tid for tid in after if tid not in before]
            for part in (key if isinstance(key, list) else [(key, lo, hi)]):
                (pkey, plo, phi) = part
                if pkey in coverage:
                    coverage[pkey] |= set(range(plo, phi))
            # every newly queued item must be a complete original, and only when its coverage is complete
            datas = []
            for tid in new:
                data = bytes(node.call('recv_bundle_pop_data', tid))
                datas.append(data)
                popped.append(data)
                owners = [okey for okey, orig in originals.items() if orig == data]
                if not owners:
                    problems.append('arrival %d: queued item of %d octets equals no bundle that was sent (partial or corrupted)' % (step, len(data)))
                    continue
                complete = [okey for okey in owners if coverage[okey] == set(range(len(originals[okey])))]
                if not complete:
                    problems.append('arrival %d: a bundle was queued while octets of its transfer are still missing' % step)
                else:
                    copies[complete[0]] += 1
            if problems:
                break
        if not problems:
            for key, orig in originals.items():
                done = coverage[key] == set(range(len(orig)))
                if done and copies[key] < 1:
                    problems.append('transfer %s is completely received but no copy was queued' % (key,))
                if not done and copies[key]:
                    problems.append('transfer %s incomplete but %d copies queued' % (key, copies[key]))
                if done and copies[key] > 1 and not any(True for _ in [0] if compose == 'repeats'):
                    problems.append('transfer %s received once yields %d queued copies' % (key, copies[key]))
        obs['receive_histories'] += 1
        return problems
    finally:
        node.close()


def classify_reuse(text):
    ''' Known-finding classifier for the history "complete transfer, late repeat of one of its segments, the same (peer, transfer
    id, total length) used again": the stale partial entry made by the late repeat is merged with the new transfer.  Only the
    symptoms of that merge are covered (a spliced bundle queued, queued early); anything else in that history is a new violation. '''
    if 'equals no bundle that was sent' in text or 'while octets of its transfer are still missing' in text:
        return 'C13/late-repeat-leaves-partial-entry-that-is-spliced-into-a-reused-transfer-id'
    return None


def cases(tier, seed):
    out = []
    thorough = tier == 'thorough'
    lens = [40, 41, 63, 64, 100, 255, 256, 257, 300, 1000, 1400, 1401, 3000] + ([65500, 65535, 65536, 65600, 70000] if thorough else [65536])
    idx = 0
    for total in lens:
        out.append(dict(id='send-%d' % total, kind='send', total=total, dense=thorough))
    for rep in range(12 if thorough else 4):
        out.append(dict(id='perm-%d' % rep, kind='perm', seed=seed * 131 + rep, maxn=6 if thorough else 5))
    for rep in range(60 if thorough else 10):
        out.append(dict(id='rand-%d' % rep, kind='rand', seed=seed * 733 + rep, count=15 if thorough else 6))
    for rep in range(30 if thorough else 6):
        out.append(dict(id='multi-%d' % rep, kind='multi', seed=seed * 571 + rep))
    for rep in range(20 if thorough else 4):
        out.append(dict(id='loop-%d' % rep, kind='loop', seed=seed * 419 + rep))
    # bundle lengths that are exact multiples of the room a segment has, for three and more segments (where an even split is exact)
    for mtu in ((200, 257, 576, 1400) if thorough else (257, 576, 1400)):
        out.append(dict(id='multiples-%d' % mtu, kind='multiples', mtu=mtu))
    out.append(dict(id='ranges', kind='ranges', seed=seed))
    from vf import stackcases  # pylint: disable=import-outside-toplevel
    stackcases.add_cases(out, tier, seed)
    return out


def run_case(case):
    if case.get('kind') == 'stack':
        from vf import stackcases  # pylint: disable=import-outside-toplevel
        return stackcases.run_block(PROPERTY_ID, case)
    obs = dict(sends=0, segmented_sends=0, segments_checked=0, receive_histories=0, multi_message_datagrams=0, repeats_injected=0,
               range_roundtrips=0, budget_exhausted=0)
    violations = []
    classes = set()
    sample = None
    evaluations = 0
    rng = random.Random(case.get('seed', 0))

    def note(problems, tag, desc, cls, nontrivial=True, key_fn=None):
        nonlocal sample, evaluations
        evaluations += 1
        if problems is None:
            obs['budget_exhausted'] += 1
            return
        if nontrivial:
            classes.add(cls)
        if sample is None:
            sample = dict(kind=tag, what=desc)
        for text in problems:
            violations.append(dict(key=key_fn(text) if key_fn else None, what='[%s] %s' % (tag, text), detail=dict(case=desc)))

    kind = case['kind']
    if kind == 'send':
        total = case['total']
        base = 40
        mtus = sorted(set([total + 5, total, total - 1, total // 2 + 20, total // 3 + 20, 64, 100, 255, 256, 257, 1400] +
                          ([65535, 65536] if total > 60000 else [])))
        if case['dense']:
            mtus = sorted(set(mtus + list(range(40, min(total, 330), 7))))
        mtus = mtus + [None]
        for mtu in mtus:
            if mtu is not None and (mtu < base or (total > 3000 and mtu < 200)):
                continue
            for skip in ((0, 23, 24, 255, 256) if total <= 300 and mtu and mtu < total else (0,)):
                problems, dgrams, _bundle = check_send(total, mtu, obs, xfer_skip=skip)
                note(problems, 'send', dict(total=total, mtu=mtu, first_id=skip, datagrams=len(dgrams)), 'send|%d|%s|%d' % (total, mtu, skip),
                     nontrivial=len(dgrams) > 1)
            if total <= 700 and (mtu is None or mtu % 3 == 0):
                problems, dgrams, _bundle = check_send(total, mtu, obs, failed_first=True)
                note(problems, 'send after a failed request', dict(total=total, mtu=mtu, datagrams=len(dgrams)), 'sendfail|%d|%s' % (total, mtu),
                     nontrivial=len(dgrams) > 1)
            if mtu is not None and mtu < total:
                polls = (0, 1, 3, 10, 40, 200, 1000, 5000)
                problems, dgrams, _bundle = check_send(total, mtu, obs, polls_ms=polls)
                note(problems, 'send+polls', dict(total=total, mtu=mtu, datagrams=len(dgrams)), 'sendpoll|%d|%s' % (total, mtu), nontrivial=len(dgrams) > 1)
    elif kind == 'multiples':
        mtu = case['mtu']
        for room in range(mtu - 22, mtu - 5):
            for count in (3, 4):
                problems, dgrams, _bundle = check_send(count * room, mtu, obs)
                note(problems, 'send-multiple', dict(total=count * room, mtu=mtu, datagrams=len(dgrams)), 'sendmult|%d|%d' % (count * room, mtu),
                     nontrivial=len(dgrams) > 1)
    elif kind == 'perm':
        bundle = make_bundle(rng.choice([60, 90, 200]), seq=1)
        while True:
            nseg = rng.randint(2, case['maxn'])
            size = -(-len(bundle) // nseg)
            sizes = [size] * nseg
            if sum(sizes) >= len(bundle) and size * (nseg - 1) < len(bundle):
                break
        segs = segments_of(bundle, 5, sizes)
        key = (PEER, 5)
        for perm in itertools.permutations(segs):
            arrivals = [(key, lo, hi, dgram, PEER) for (lo, hi, dgram) in perm]
            note(check_receive(arrivals, {key: bundle}, obs), 'perm', dict(n=len(segs), order=[a[1] for a in arrivals]),
                 'perm|%s' % ([a[1] for a in arrivals],))
        # each single repeat at every position of one order
        for dup in segs:
            for pos in range(len(segs) + 1):
                seq = list(segs)
                seq.insert(pos, dup)
                obs['repeats_injected'] += 1
                arrivals = [(key, lo, hi, dgram, PEER) for (lo, hi, dgram) in seq]
                note(check_receive(arrivals, {key: bundle}, obs, compose='repeats'), 'repeat', dict(n=len(segs), dup=dup[0], pos=pos),
                     'rep|%d|%d|%d' % (len(segs), dup[0], pos))
    elif kind == 'rand':
        for _ in range(case['count']):
            originals = {}
            arrivals = []
            peers = [PEER, ('10.0.0.9', 5556), ('10.0.0.10', 5555)]
            for tnum in range(rng.randint(1, 3)):
                peer = rng.choice(peers)
                xid = rng.choice([0, 1, 5, 300])
                key = (peer, xid)
                if key in originals:
                    continue
                bundle = make_bundle(rng.choice([50, 120, 400, 2000]), seq=tnum + 3 * xid)
                originals[key] = bundle
                nseg = rng.choice([2, 3, 7, 30])
                cuts = sorted(set(rng.sample(range(1, len(bundle)), min(len(bundle) - 1, nseg - 1))))
                bounds = [0] + cuts + [len(bundle)]
                for lo, hi in zip(bounds[:-1], bounds[1:]):
                    arrivals.append((key, lo, hi, cw.enc({2: [xid, len(bundle), lo, bundle[lo:hi]]}), peer))
            rng.shuffle(arrivals)
            note(check_receive(arrivals, originals, obs), 'interleaved', dict(transfers=len(originals), datagrams=len(arrivals)),
                 'rand|%s' % hash(tuple((a[0], a[1]) for a in arrivals)))
            # the same datagrams plus whole bundles in between, read by the application only at the end
            late = list(arrivals)
            late_originals = dict(originals)
            for widx in range(rng.randint(1, 3)):
                whole = make_bundle(rng.choice([41, 60, 90]), seq=40 + widx)
                late_originals[('whole', widx)] = whole
                late.insert(rng.randrange(len(late) + 1), (('whole', widx), None, None, whole, rng.choice(peers)))
            note(check_receive_late(late, late_originals, obs), 'late-pop', dict(transfers=len(late_originals), datagrams=len(late)),
                 'late|%s' % hash(tuple((a[0], a[1]) for a in late)))
    elif kind == 'multi':
        # several messages in one datagram, and message + padding
        b1 = make_bundle(rng.choice([50, 80]), seq=11)
        b2 = make_bundle(rng.choice([60, 90]), seq=12)
        b3 = make_bundle(120, seq=13)
        segs = segments_of(b3, 9, [50, 50, 50])
        k1, k2, k3 = ('whole', 1), ('whole', 2), (PEER, 9)
        originals = {k1: b1, k2: b2, k3: b3}
        combos = [
            ([(k1, 0, len(b1))], b1 + b'\x00' * rng.choice([1, 5, 40])),
            ([(k1, 0, len(b1)), (k2, 0, len(b2))], b1 + b2),
            ([(k3, segs[0][0], segs[0][1]), (k2, 0, len(b2))], segs[0][2] + b2),
            ([(k3, segs[1][0], segs[1][1]), (k3, segs[2][0], segs[2][1])], segs[1][2] + segs[2][2] + b'\x00\x00'),
        ]
        rng.shuffle(combos)
        arrivals = []
        seen_keys = set()
        for parts, dgram in combos:
            parts = [part for part in parts]
            arrivals.append((parts, 0, 0, dgram, PEER))
            obs['multi_message_datagrams'] += 1
        # b1 and b2 appear twice in total (once alone/padded, once combined): copies may be 2
        note(check_receive(arrivals, originals, obs, compose='repeats'), 'multi', dict(order=[len(a[3]) for a in arrivals]),
             'multi|%s' % ([len(a[3]) for a in arrivals],))
        # a segment whose extension map also carries other items (Sender Listen usable or not, an unknown key): the segment counts
        b6 = make_bundle(90, seq=50)
        cuts6 = [(0, 30), (30, 60), (60, 90)]
        extras = [{3: 1000, 4: 'dtn://x/'}, {3: 2 ** 40, 4: 'dtn://x/'}, {3: 1000, 4: 12345}, {99: b'zz'}]
        rng.shuffle(extras)
        arrivals6 = []
        for idx, (lo, hi) in enumerate(cuts6):
            item = dict(extras[idx])
            item[2] = [33, len(b6), lo, b6[lo:hi]]
            arrivals6.append(((PEER, 33), lo, hi, cw.enc(item), PEER))
        rng.shuffle(arrivals6)
        note(check_receive(arrivals6, {(PEER, 33): b6}, obs), 'segment-with-other-items', dict(extras=[sorted(e) for e in extras[:3]]),
             'multi3|%s' % ([sorted(e.items(), key=repr) for e in extras[:3]],))
        # a message the receiver cannot use (a segment whose total length disagrees with the transfer it belongs to) does not take
        # the messages behind it in the same datagram with it
        b8 = make_bundle(100, seq=70)
        b9 = make_bundle(60, seq=71)
        segs8 = segments_of(b8, 55, [50, 50])
        odd = cw.enc({2: [55, len(b8) + 7, 10, b'conflict']})
        arrivals8 = [((PEER, 55), segs8[0][0], segs8[0][1], segs8[0][2], PEER),
                     ([(('whole', 9), 0, len(b9))], 0, 0, odd + b9, PEER),
                     ((PEER, 55), segs8[1][0], segs8[1][1], segs8[1][2], PEER)]
        problems8 = check_receive(arrivals8, {(PEER, 55): b8, ('whole', 9): b9}, obs)
        # (only what becomes of the bundle behind the unusable message is judged here)
        note([text for text in problems8 if "('whole', 9)" in text or 'raised' in text], 'message-behind-an-unusable-one', dict(), 'multi5')
        # a sender that restarts and uses a transfer id again for another bundle of the same length, after a late repeat of a
        # segment of the first transfer: every queued item is one of the two bundles, the second one only when it has arrived
        for late in (0, 1, 2):
            first = make_bundle(150, seq=60)
            second = make_bundle(150, seq=61)
            assert len(first) == len(second)
            segs_a = segments_of(first, 44, [50, 50, 50])
            segs_b = segments_of(second, 44, [50, 50, 50])
            arrivals7 = [(('a', 44), lo, hi, dg, PEER) for (lo, hi, dg) in segs_a]
            arrivals7.append((('a', 44), segs_a[late][0], segs_a[late][1], segs_a[late][2], PEER))      # the late repeat
            arrivals7 += [(('b', 44), lo, hi, dg, PEER) for (lo, hi, dg) in segs_b]
            note(check_receive(arrivals7, {('a', 44): first, ('b', 44): second}, obs, compose='repeats'), 'reused-id-after-late-repeat',
                 dict(late=late), 'multi4|%d' % late, key_fn=classify_reuse)
        # random compositions of 2-5 messages (whole bundles, segments of one transfer) with or without zero padding behind them:
        # a bundle message that is neither first nor last in its datagram must still be cut out exactly
        for _rep in range(6):
            wholes = [make_bundle(rng.choice([40, 55, 70, 90]), seq=30 + idx) for idx in range(4)]
            b5 = make_bundle(120, seq=40)
            segs5 = segments_of(b5, 21, [50, 50, 50])
            originals2 = {('whole', idx): item for idx, item in enumerate(wholes)}
            originals2[(PEER, 21)] = b5
            pool = [([(('whole', idx), 0, len(item))], item) for idx, item in enumerate(wholes)] + \
                   [([((PEER, 21), seg[0], seg[1])], seg[2]) for seg in segs5]
            rng.shuffle(pool)
            arrivals2 = []
            while pool:
                take = pool[:rng.randint(2, 5)]
                del pool[:len(take)]
                parts = [part for (plist, _d) in take for part in plist]
                dgram = b''.join(item for (_p, item) in take) + b'\x00' * rng.choice([0, 0, 1, 16])
                arrivals2.append((parts, 0, 0, dgram, PEER))
                obs['multi_message_datagrams'] += 1
            note(check_receive(arrivals2, originals2, obs), 'multi-random', dict(order=[len(a[3]) for a in arrivals2]),
                 'multi2|%s' % ([len(a[3]) for a in arrivals2],))
    elif kind == 'loop':
        # what the real sender produced, fed to a real receiver in random order
        total = rng.choice([100, 300, 1000])
        mtu = rng.choice([64, 80, 120, 257])
        problems, dgrams, bundle = check_send(total, mtu, obs)
        note(problems, 'send', dict(total=total, mtu=mtu), 'loop-send|%d|%d' % (total, mtu), nontrivial=len(dgrams) > 1)
        if problems == [] and len(dgrams) > 1:
            arrivals = []
            for dgram in dgrams:
                xid, tot, off, data = cw.parse_all(dgram).to_python()[2]
                arrivals.append(((PEER, xid), off, off + len(data), dgram, PEER))
            key = arrivals[0][0]
            rng.shuffle(arrivals)
            note(check_receive(arrivals, {key: bundle}, obs), 'loop', dict(total=total, mtu=mtu, n=len(arrivals)), 'loop|%d|%d|%d' % (total, mtu, case['seed']))
            # the same at a receiver whose own MTU setting is smaller than (or equal to, or far above) the datagrams it is sent
            for rx_mtu in (40, rng.choice([mtu // 2, mtu - 1, mtu, 9000])):
                note(check_receive(arrivals, {key: bundle}, obs, rx_mtu=rx_mtu), 'loop-rx-mtu', dict(total=total, mtu=mtu, rx_mtu=rx_mtu, n=len(arrivals)),
                     'loop-rx|%d|%d|%d|%d' % (total, mtu, rx_mtu, case['seed']))
        # two bundles of equal length for one peer, the peer given once by name and once by address: both leave from the same socket,
        # and a receiver that gets their segments interleaved must end up with both bundles
        total2 = rng.choice([150, 300])
        mtu2 = rng.choice([64, 80])
        node = UdpNode(mtu2)
        try:
            node.sim.net.hosts['peer.example'] = PEER[0]
            pair = [make_bundle(total2, seq=31), make_bundle(total2, seq=32)]
            spell = ['peer.example', PEER[0]]
            if rng.random() < 0.5:
                spell.reverse()
            for bundle2, addr in zip(pair, spell):
                node.call('send_bundle_data', dbus.ByteArray(bundle2), dbus.Dictionary({'address': addr, 'port': dbus.Int32(PEER[1])}, signature='sv'))
            t_start = node.sim.world.now_ns
            node.sim.run(400000, until=lambda: node.sim.world.now_ns - t_start > (2 * total2 // 5 + 600) * 10 ** 9)
            per = [[], []]
            for dgram in node.sent_datagrams():
                try:
                    xid, tot, off, data = cw.parse_all(dgram).to_python()[2]
                except Exception:  # pylint: disable=broad-except
                    continue
                which = 0 if pair[0][off:off + len(data)] == data else 1
                per[which].append((('two-spellings', which), off, off + len(data), dgram, PEER))
            obs['two_spellings_runs'] = obs.get('two_spellings_runs', 0) + 1
        finally:
            node.close()
        if per[0] and per[1] and len(pair[0]) == len(pair[1]):
            arrivals = []
            for idx in range(max(len(per[0]), len(per[1]))):
                for which in (0, 1):
                    if idx < len(per[which]):
                        arrivals.append(per[which][idx])
            note(check_receive(arrivals, {('two-spellings', 0): pair[0], ('two-spellings', 1): pair[1]}, obs), 'two-spellings',
                 dict(total=len(pair[0]), mtu=mtu2, n=len(arrivals)), 'spell|%d|%d|%d' % (total2, mtu2, case['seed']))
    elif kind == 'ranges':
        import portion
        import udpcl.agent
        for _ in range(300):
            model = set()
            intv = portion.empty()
            for _k in range(rng.randint(0, 6)):
                lo = rng.randint(0, 60)
                hi = lo + rng.randint(1, 9)
                intv |= portion.closedopen(lo, hi)
                model |= set(range(lo, hi))
            pairs = udpcl.agent.range_encode(intv)
            back = udpcl.agent.range_decode(pairs)
            obs['range_roundtrips'] += 1
            probs = []
            if set(portion.iterate(back, step=1)) != model:
                probs.append('range_decode(range_encode(x)) != x for %s (pairs %s)' % (sorted(model)[:10], pairs))
            if any(not isinstance(val, int) or val < 0 for val in pairs):
                probs.append('range_encode produced a negative or non-integer item: %s' % pairs)
            note(probs, 'ranges', dict(pairs=pairs), 'ranges|%s' % pairs, nontrivial=bool(model))
    uniq = {}
    for viol in violations:
        uniq.setdefault(viol['what'][:80], viol)
    violations = list(uniq.values())[:14]
    return dict(verdict='violated' if violations else 'held', nontrivial=bool(classes), cls=classes, obs=obs,
                violations=violations, sample=sample, evaluations=evaluations)
