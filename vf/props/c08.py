''' C08 -- block CRCs are always valid on output and always checked on input.

(out) every byte string the real agent hands to the CL observer (local sends,
forwards, fragments, status reports) is decoded by the independent decoder:
each block with CRC type != 0 must carry the CRC the bitwise oracle computes
over the block with a zeroed CRC field, type 0 must carry no CRC item.

(in) for every mutant of a valid encoding that the independent decoder judges
malformed or CRC-failing, pushing it through the agent's CL receive callback
must have no effect at all: seen-set unchanged, application observer not
reached, nothing handed to the CL, after the loop is quiescent.
'''
import random

from vf.gen import bundles as gen
from vf.oracles import bpv7

PROPERTY_ID = 'C08'
RULE = ('(in) base bundles over all CRC-type assignments of primary/extension/payload blocks x every single-bit flip of the '
        'encoding (exhaustive for bundles <= 200 octets, sampled above) x bursts of <= 16/32 bits inside CRC-protected blocks, '
        'including flips of the CRC-type and CRC-value fields; a mutant is checked when it alters an octet of a block that carried a CRC and the independent decoder '
        'finds the result malformed or CRC-failing (others are skipped and counted). (huge) payload blocks of 64 KiB-200 KB: flips at and around every 64 KiB multiple of the block offset, the same bundles sent and forwarded. (out) seeded random bundles sent locally, forwarded, fragmented, and '
        'status reports. Non-trivial = mutant judged invalid by the oracle and pushed into the real agent, or an output with '
        'at least one CRC-bearing block; distinct = distinct mutant byte string / distinct output byte string.')
ASSUMPTIONS = [
    'vf/oracles/crc.py (bitwise CRC-16/X-25, CRC-32C) and bpv7.py decide what is valid; checked against standard check values',
    'the crcmod shim used by the repository in this sandbox is a different (table-driven) implementation, cross-checked with the oracle',
    'an exception escaping the receive callback counts as "dropped" for this property (no effect observed); it is counted separately',
]
DECIDING = ['bp.encoding.blocks:AbstractBlock.check_crc', 'bp.encoding.blocks:AbstractBlock.update_crc',
            'bp.encoding.bundle:Bundle.check_all_crc', 'bp.encoding.bundle:Bundle.update_all_crc', 'bp.agent:Agent.recv_bundle']
REQUIRED_OBS = ['in_mutants_checked', 'in_crc_mismatch_mutants', 'out_checked', 'out_crc_blocks', 'huge_blocks', 'huge_outputs']

NODE = 'dtn://me/'


def _base_bundles():
    out = []
    idx = 0
    for pri_crc in (0, 1, 2):
        for ext_crc in (0, 1, 2):
            for pay_crc in (0, 1, 2):
                if pri_crc == ext_crc == pay_crc == 0:
                    continue
                idx += 1
                dest = 'dtn://me/svc' if idx % 2 else 'dtn://other/svc'
                flags = bpv7.FLAG_REQ_RECEPTION | bpv7.FLAG_REQ_DELIVERY | bpv7.FLAG_REQ_FORWARDING | bpv7.FLAG_REQ_DELETION
                frag = (idx % 5 == 0)
                pri = dict(version=7, flags=flags | (bpv7.FLAG_IS_FRAGMENT if frag else 0), crc_type=pri_crc, dest=dest, src='dtn://src/a',
                           report_to='dtn://rep/x', create_time=1000 + idx, seqno=idx, lifetime=100000,
                           frag_offset=0 if frag else None, total_adu_len=12 if frag else None, crc=None)
                blocks = [
                    dict(type=10, num=2, flags=1, crc_type=ext_crc, data=bytes.fromhex('82181e01'), crc=None),
                    dict(type=192, num=3, flags=0, crc_type=ext_crc, data=b'\x01\x02\x03', crc=None),
                    dict(type=7, num=4, flags=0, crc_type=ext_crc, data=b'\x18\x64', crc=None),
                    dict(type=6, num=5, flags=0, crc_type=pay_crc, data=bytes.fromhex('8201652f2f702f'), crc=None),
                    dict(type=200, num=6, flags=0, crc_type=ext_crc, data=b'', crc=None),
                    dict(type=1, num=1, flags=0, crc_type=pay_crc, data=bytes(range(12)), crc=None),
                ]
                out.append(dict(primary=pri, blocks=blocks))
    # administrative record bundles (status reports): the record is decoded and re-encoded by the implementation, which must not
    # launder a damaged payload into a valid one
    for (pri_crc, pay_crc, dest) in ((1, 1, 'dtn://me/'), (2, 2, 'dtn://other/svc'), (0, 2, 'dtn://me/'), (1, 2, 'dtn://other/svc')):
        idx += 1
        record = bpv7.encode_status_report([(True, 5), (False, None), (True, 7), (False, None)], 3, 'dtn://subj/x', 77, 3)
        pri = dict(version=7, flags=bpv7.FLAG_ADMIN, crc_type=pri_crc, dest=dest, src='dtn://src/a', report_to='dtn:none',
                   create_time=2000 + idx, seqno=idx, lifetime=100000, frag_offset=None, total_adu_len=None, crc=None)
        out.append(dict(primary=pri, blocks=[dict(type=10, num=2, flags=1, crc_type=pay_crc, data=bytes.fromhex('82181e01'), crc=None),
                                             dict(type=1, num=1, flags=0, crc_type=pay_crc, data=record, crc=None)]))
    # the payload block not in last place (RFC 9171 wants it last; this agent processes such a bundle, so damage to the protected
    # blocks behind the payload must be noticed like any other)
    for (crc, dest) in ((1, 'dtn://other/svc'), (2, 'dtn://me/svc')):
        idx += 1
        pri = dict(version=7, flags=bpv7.FLAG_REQ_RECEPTION | bpv7.FLAG_REQ_FORWARDING, crc_type=crc, dest=dest, src='dtn://src/a', report_to='dtn://rep/x',
                   create_time=3000 + idx, seqno=idx, lifetime=100000, frag_offset=None, total_adu_len=None, crc=None)
        out.append(dict(primary=pri, blocks=[dict(type=1, num=1, flags=0, crc_type=crc, data=bytes(range(9)), crc=None),
                                             dict(type=10, num=2, flags=0, crc_type=crc, data=bytes.fromhex('82181e01'), crc=None),
                                             dict(type=192, num=3, flags=0, crc_type=crc, data=b'\x07\x08', crc=None)]))
    return out


def _equiv_bundles():
    ''' The base bundles plus bundles with present-day creation times (eight-octet integers whose leading octets are zero). '''
    out = _base_bundles()
    now_ms = (1767225600 - 946684800) * 1000
    for (crc, dest) in ((1, 'dtn://me/svc'), (2, 'dtn://other/svc')):
        pri = dict(version=7, flags=bpv7.FLAG_REQ_RECEPTION | bpv7.FLAG_REQ_DELIVERY | bpv7.FLAG_REQ_FORWARDING, crc_type=crc, dest=dest,
                   src='dtn://src/a', report_to='dtn://rep/x', create_time=now_ms - 4000, seqno=70000 + crc, lifetime=3600000,
                   frag_offset=None, total_adu_len=None, crc=None)
        out.append(dict(primary=pri, blocks=[dict(type=7, num=2, flags=0, crc_type=crc, data=bytes.fromhex('1a00010000'), crc=None),
                                             dict(type=1, num=1, flags=0, crc_type=crc, data=bytes(range(20)), crc=None)]))
    return out


def cases(tier, seed):
    out = []
    bases = _base_bundles()
    thorough = tier == 'thorough'
    for idx, _bundle in enumerate(_equiv_bundles()):
        out.append(dict(id='equiv-%d' % idx, kind='equiv', base=idx))
    for idx, _bundle in enumerate(bases):
        out.append(dict(id='flips-%d' % idx, kind='flips', base=idx))
        out.append(dict(id='bursts-%d' % idx, kind='bursts', base=idx, seed=seed * 977 + idx, count=4500 if thorough else 300))
    # exhaustive single-octet substitution, sliced by offset so that the shards balance
    for idx in (sorted(set(range(0, len(bases), 4)) | {len(bases) - 2, len(bases) - 1}) if thorough else (1, len(bases) - 3, len(bases) - 1)):
        size = len(bpv7.encode(bases[idx]))
        step = 8
        for lo in range(0, size, step):
            out.append(dict(id='bytesub-%d-%d' % (idx, lo), kind='bytesub', base=idx, lo=lo, hi=lo + step))
    nbig = 240 if thorough else 8
    for idx in range(nbig):
        out.append(dict(id='big-%d' % idx, kind='big', seed=seed * 31337 + idx, count=800 if thorough else 250))
    # blocks longer than 64 KiB / 128 KiB (both directions)
    for idx in range(24 if thorough else 4):
        out.append(dict(id='huge-%d' % idx, kind='huge', idx=idx, seed=seed * 4099 + idx, count=120 if thorough else 40))
    nout = 240 if thorough else 8
    for idx in range(nout):
        out.append(dict(id='out-%d' % idx, kind='out', seed=seed * 7919 + idx, count=120 if thorough else 40))
    return out


def _fresh_node():
    from vf.world.sim import Sim
    from vf import bp_harness as bh
    sim = Sim(0, 'eager')
    node = bh.BpNode(sim, NODE, rx_routes=[(r'dtn://me/.*', 'deliver'), (r'dtn://other/.*', 'forward')],
                     tx_routes=[dict(pattern=r'dtn://.*')])
    return sim, node


def _protected_spans(data):
    ''' Octet spans of blocks whose CRC type is non-zero, from the independent parser. '''
    from vf.oracles import cbor_walk as cw
    outer = cw.parse_all(data)
    spans = []
    for kid in outer.children:
        vals = kid.to_python()
        crc_type = vals[2] if kid is outer.children[0] else vals[3]
        if crc_type:
            spans.append((kid.start, kid.end, crc_type))
    return spans


def classify(base_enc, mutant):
    ''' Known-finding classifier: the only change is a uint 0/1 head replaced by CBOR false/true. '''
    if base_enc is None or len(base_enc) != len(mutant):
        return None
    diff = [(left, right) for (left, right) in zip(base_enc, mutant) if left != right]
    if len(diff) == 1 and diff[0] in ((0x00, 0xf4), (0x01, 0xf5)):
        return 'C08/uint-field-flipped-to-cbor-bool-accepted'
    return None


def check_mutant(mutant, obs, expect_tag, base_enc=None):
    ''' Push one oracle-invalid mutant into a fresh agent; return violation dicts. '''
    sim, node = _fresh_node()
    err = node.recv(mutant)
    res = sim.settle(5000)
    obs['in_mutants_checked'] += 1
    if err is not None:
        obs['in_dropped_by_exception'] += 1
    effects = []
    if node.seen():
        effects.append('recorded as seen %s' % sorted(node.seen()))
    if node.observed:
        effects.append('reached the application step (actions %s)' % sorted(node.observed[0]['actions']))
    if node.cl.sent:
        effects.append('%d bundle(s) handed to the CL' % len(node.cl.sent))
    if sim.world.callback_errors:
        obs['in_callback_errors'] += 1
    if effects:
        return [dict(key=classify(base_enc, mutant), what='corrupted bundle (%s) was not dropped: %s' % (expect_tag, '; '.join(effects)),
                     detail=dict(mutant=mutant.hex(), expect=expect_tag, settle=res))]
    return []


def _oracle_invalid(mutant):
    ''' :return: tag string when the independent decoder rejects the mutant, else None. '''
    try:
        _bundle, problems = bpv7.decode(mutant)
    except bpv7.DecodeError as err:
        return 'malformed: %s' % str(err)[:60]
    bad = [item for item in problems if 'CRC mismatch' in item]
    if bad:
        return bad[0]
    return None


def _touches_protected(base_enc, mutant, spans):
    ''' True if an altered octet lies inside a block that carried a CRC in the original. '''
    for pos, (left, right) in enumerate(zip(base_enc, mutant)):
        if left != right and any(lo <= pos < hi for (lo, hi, _crc) in spans):
            return True
    return False


def _run_mutants(base_enc, mutants, obs, classes):
    violations = []
    spans = _protected_spans(base_enc)
    for mutant in mutants:
        if mutant == base_enc:
            continue
        if not _touches_protected(base_enc, mutant, spans):
            # the statement only obliges detection of corruption inside CRC-protected blocks
            obs['in_outside_protected_blocks'] += 1
            continue
        tag = _oracle_invalid(mutant)
        if tag is None:
            obs['in_skipped_valid_for_oracle'] += 1
            continue
        if 'CRC mismatch' in tag:
            obs['in_crc_mismatch_mutants'] += 1
        else:
            obs['in_malformed_mutants'] += 1
        classes.add(hash(mutant) & 0xFFFFFFFFFFFF)
        violations += check_mutant(mutant, obs, tag, base_enc)
    return violations


def check_output(data, obs, origin):
    ''' Validate the CRCs of one byte string handed to the CL (on raw block spans,
    so that other well-formedness problems, which belong to C02/C05, do not matter here).
    '''
    obs['out_checked'] += 1
    try:
        report = bpv7.crc_report(data)
    except (bpv7.DecodeError, Exception) as err:  # pylint: disable=broad-except
        obs['out_unparseable'] += 1
        return [dict(key=None, what='%s output cannot be split into blocks: %s' % (origin, err), detail=dict(data=data.hex()[:600]))]
    obs['out_crc_blocks'] += sum(1 for (_idx, crc_type, _res) in report if crc_type)
    bad = [(idx, crc_type, res) for (idx, crc_type, res) in report if res != 'ok']
    if bad:
        return [dict(key=None, what='%s output carries wrong CRC fields (block index, CRC type, finding): %s' % (origin, bad),
                     detail=dict(data=data.hex()[:600]))]
    return []


def _run_out(case, obs, classes):
    from bp.util import BundleContainer
    rng = random.Random(case['seed'])
    violations = []
    for _ in range(case['count']):
        sim, node = _fresh_node()
        mode = rng.choice(['local', 'local', 'forward', 'fragment', 'report', 'forward-fragment'])
        bundle = gen.rand_bundle(rng, hard_eids=False, allow_admin=False, max_ext=3,
                                 payload_len=rng.choice([0, 1, 30, 200, 700]))
        # outputs need at least one CRC somewhere to be interesting; keep the generator's choice otherwise
        if mode in ('local', 'fragment'):
            bundle['primary']['flags'] &= ~(bpv7.FLAG_IS_FRAGMENT)
            bundle['primary']['frag_offset'] = bundle['primary']['total_adu_len'] = None
            if mode == 'fragment':
                bundle['primary']['flags'] &= ~bpv7.FLAG_NO_FRAGMENT
                node.cfg.tx_route_table[0].mtu = len(bpv7.encode(bundle)) - rng.randint(1, 60)
            bundle['primary']['dest'] = 'dtn://far/x'
            if bundle['primary']['src'] == 'dtn:none':
                bundle['primary']['src'] = 'dtn://me/app'
            real = gen.to_real(bundle, typed=rng.random() < 0.5)
            try:
                node.send(BundleContainer(real))
            except Exception:  # pylint: disable=broad-except
                obs['out_send_raised'] += 1
        else:
            if mode == 'forward-fragment':
                # a received bundle (its blocks arrive with CRC values) that must be fragmented on the way out
                bundle['primary']['flags'] &= ~bpv7.FLAG_NO_FRAGMENT
                bundle['blocks'][-1]['data'] = bytes((idx * 11) & 0xFF for idx in range(rng.choice([200, 700])))
                node.cfg.tx_route_table[0].mtu = len(bpv7.encode(bundle)) - rng.randint(20, 150)
                obs['out_forward_fragment'] = obs.get('out_forward_fragment', 0) + 1
            bundle['primary']['dest'] = 'dtn://other/x' if mode.startswith('forward') else 'dtn://me/x'
            bundle['primary']['flags'] &= ~bpv7.FLAG_IS_FRAGMENT
            bundle['primary']['frag_offset'] = bundle['primary']['total_adu_len'] = None
            bundle['primary']['flags'] |= (bpv7.FLAG_REQ_RECEPTION | bpv7.FLAG_REQ_DELIVERY | bpv7.FLAG_REQ_FORWARDING)
            bundle['primary']['report_to'] = 'dtn://rep/q'
            if bundle['primary']['src'] in ('dtn:none', NODE):
                bundle['primary']['src'] = 'dtn://src/z'
            node.recv(bpv7.encode(bundle))
        sim.settle(5000)
        for data in node.cl.datas():
            classes.add(hash(data) & 0xFFFFFFFFFFFF)
            violations += check_output(data, obs, mode)
    return violations


def run_case(case):
    obs = dict(in_mutants_checked=0, in_crc_mismatch_mutants=0, in_malformed_mutants=0, in_skipped_valid_for_oracle=0,
               in_dropped_by_exception=0, in_callback_errors=0, in_outside_protected_blocks=0, out_checked=0, out_crc_blocks=0, out_send_raised=0, out_unparseable=0)
    classes = set()
    violations = []
    sample = None
    kind = case['kind']
    if kind in ('flips', 'bursts', 'bytesub', 'equiv'):
        base = (_equiv_bundles() if kind == 'equiv' else _base_bundles())[case['base']]
        enc = bpv7.encode(base)
        # the unmutated bundle must be accepted, otherwise the experiment is meaningless
        sim, node = _fresh_node()
        node.recv(enc)
        sim.settle(5000)
        if not node.seen():
            return dict(verdict='inconclusive', nontrivial=False, cls='x', obs=obs, violations=[],
                        inconclusive_reason='base bundle %d not accepted by the agent' % case['base'])
        if kind == 'equiv':
            # same-length substitutions that a lenient CBOR reader maps back to the original value: an unsigned integer whose
            # most significant octet is zero turned into a bignum tag + byte string (1a 00 -> c2 43, 1b 00 -> c2 47,
            # 19 00 -> c2 41): 16-bit bursts, within the guaranteed detection of both CRC widths
            mutants = []
            for (lo, hi, _crc_type) in _protected_spans(enc):
                for pos in range(lo, hi - 1):
                    for (old, new) in ((b'\x1a\x00', b'\xc2\x43'), (b'\x1b\x00', b'\xc2\x47'), (b'\x19\x00', b'\xc2\x41'),
                                       (b'\x1a\x00', b'\xc3\x43'), (b'\x1b\x00', b'\xc3\x47')):
                        if enc[pos:pos + 2] == old:
                            mutants.append(enc[:pos] + new + enc[pos + 2:])
            obs['in_equivalent_reencodings'] = len(mutants)
            if not mutants:
                return dict(verdict='held', nontrivial=False, cls=set(), obs=obs, violations=[], sample=None, evaluations=0)
        elif kind == 'flips':
            mutants = []
            for pos in range(len(enc)):
                for bit in range(8):
                    mut = bytearray(enc)
                    mut[pos] ^= (1 << bit)
                    mutants.append(bytes(mut))
        elif kind == 'bytesub':
            # every substitution of one octet inside a CRC-protected block (every burst of up to 8 bits within an octet)
            mutants = []
            for (lo, hi, _crc_type) in _protected_spans(enc):
                for pos in range(max(lo, case['lo']), min(hi, case['hi'])):
                    for val in range(256):
                        if val != enc[pos]:
                            mut = bytearray(enc)
                            mut[pos] = val
                            mutants.append(bytes(mut))
            if not mutants:
                return dict(verdict='held', nontrivial=False, cls=set(), obs=obs, violations=[], sample=None, evaluations=0)
        else:
            rng = random.Random(case['seed'])
            spans = _protected_spans(enc)
            mutants = []
            for _ in range(case['count']):
                (lo, hi, crc_type) = rng.choice(spans)
                width = 16 if crc_type == 1 else 32
                blen = rng.randint(2, width)
                start_bit = rng.randrange(lo * 8, hi * 8 - blen + 1)
                mut = bytearray(enc)
                # a burst: first and last bit flipped, the ones between at random
                for off in range(blen):
                    if off in (0, blen - 1) or rng.random() < 0.5:
                        bitpos = start_bit + off
                        mut[bitpos // 8] ^= (0x80 >> (bitpos % 8))
                mutants.append(bytes(mut))
        violations += _run_mutants(enc, mutants, obs, classes)
        sample = dict(kind=kind, base_encoding=enc.hex(), mutants=len(mutants), first_mutant=mutants[0].hex())
    elif kind == 'big':
        rng = random.Random(case['seed'])
        bundle = gen.rand_bundle(rng, allow_admin=False, max_ext=3, payload_len=rng.choice([300, 1000, 5000]))
        bundle['primary'].update(dest='dtn://me/big', src='dtn://src/b', report_to='dtn://rep/x',
                                 flags=bpv7.FLAG_REQ_DELIVERY | bpv7.FLAG_REQ_RECEPTION, frag_offset=None, total_adu_len=None)
        if not (bundle['primary']['crc_type'] or any(blk['crc_type'] for blk in bundle['blocks'])):
            bundle['primary']['crc_type'] = 2
        enc = bpv7.encode(bundle)
        spans = _protected_spans(enc)
        mutants = []
        for _ in range(case['count']):
            (lo, hi, _crc_type) = rng.choice(spans)
            pos = rng.randrange(lo, hi)
            mut = bytearray(enc)
            mut[pos] ^= (1 << rng.randrange(8))
            mutants.append(bytes(mut))
        violations += _run_mutants(enc, mutants, obs, classes)
        sample = dict(kind=kind, base_len=len(enc), mutants=len(mutants))
    elif kind == 'huge':
        from bp.util import BundleContainer
        rng = random.Random(case['seed'])
        idx = case['idx']
        plen = [65536, 70000, 131100, 65500 + 7 * idx, 200000][idx % 5] + (rng.randrange(40) if idx >= 5 else 0)
        pay_crc = 1 + idx % 2
        payload = bytes(rng.randrange(256) for _ in range(1024)) * (plen // 1024 + 1)
        pri = dict(version=7, flags=bpv7.FLAG_REQ_DELIVERY, crc_type=1 + (idx // 2) % 2, dest='dtn://me/huge', src='dtn://src/h', report_to='dtn://rep/x',
                   create_time=5000 + idx, seqno=idx, lifetime=100000, frag_offset=None, total_adu_len=None, crc=None)
        bundle = dict(primary=pri, blocks=[dict(type=7, num=2, flags=0, crc_type=pay_crc, data=b'\x18\x64', crc=None),
                                           dict(type=1, num=1, flags=0, crc_type=pay_crc, data=payload[:plen], crc=None)])
        enc = bpv7.encode(bundle)
        # (in) flips at and around the 64 KiB multiples of the payload block's own offsets, and seeded random ones
        (lo, hi, _crc_type) = _protected_spans(enc)[-1]
        positions = set()
        for mult in (1, 2, 3):
            for delta in (-2, -1, 0, 1, 2):
                pos = lo + mult * 65536 + delta
                if lo <= pos < hi:
                    positions.add(pos)
        positions.update((lo, lo + 1, hi - 1, hi - 5))
        while len(positions) < case['count']:
            positions.add(rng.randrange(lo, hi))
        mutants = []
        for pos in sorted(positions):
            mut = bytearray(enc)
            mut[pos] ^= (1 << rng.randrange(8))
            mutants.append(bytes(mut))
        violations += _run_mutants(enc, mutants, obs, classes)
        obs['huge_blocks'] = obs.get('huge_blocks', 0) + 1
        # (out) the same bundle sent locally and forwarded
        for mode in ('local', 'forward'):
            sim, node = _fresh_node()
            out_bundle = dict(primary=dict(pri, dest='dtn://far/x' if mode == 'local' else 'dtn://other/x', src='dtn://me/app' if mode == 'local' else 'dtn://src/h'),
                              blocks=bundle['blocks'])
            if mode == 'local':
                try:
                    node.send(BundleContainer(gen.to_real(out_bundle, typed=False)))
                except Exception:  # pylint: disable=broad-except
                    obs['out_send_raised'] += 1
            else:
                node.recv(bpv7.encode(out_bundle))
            sim.settle(5000)
            for data in node.cl.datas():
                classes.add(hash(data) & 0xFFFFFFFFFFFF)
                if len(data) > 65536:
                    obs['huge_outputs'] = obs.get('huge_outputs', 0) + 1
                violations += check_output(data, obs, mode + '-huge')
        sample = dict(kind=kind, base_len=len(enc), mutants=len(mutants))
    elif kind == 'out':
        violations += _run_out(case, obs, classes)
        sample = dict(kind='out', seed=case['seed'], count=case['count'])
    uniq = {}
    for viol in violations:
        uniq.setdefault(viol['what'][:90], viol)
    violations = list(uniq.values())[:20]
    return dict(verdict='violated' if violations else 'held', nontrivial=bool(classes), cls=classes, obs=obs,
                violations=violations, sample=sample,
                evaluations=obs['in_mutants_checked'] + obs['in_skipped_valid_for_oracle'] + obs['in_outside_protected_blocks'] + obs['out_checked'])
