''' C05 -- BP fragmentation keeps every fragment within the route MTU and loses nothing.

Monitor: the byte strings a CL observer receives for one send request of a
real ``bp.agent.Agent`` (loop run to quiescence, because fragments re-enter
``send_bundle`` from idle callbacks).

Oracle: the independent RFC 9171 decoder plus an integer-interval tiling model
and a no-MTU reference send of the same bundle.
'''
import random

from vf.oracles import bpv7
from vf.oracles import cbor_walk as cw

PROPERTY_ID = 'C05'
RULE = ('for each header configuration (CRC types 0/1/2 on primary and payload, 0-3 extension blocks with/without the '
        'replicate flag, do-not-fragment / already-a-fragment inputs) the MTU is set to (non-payload size + k), k = 1..40 and '
        'beyond, and to sizes around the CBOR head boundaries 23/24, 255/256, 65535/65536 of payload length and offsets; '
        'payload lengths 0..300 plus 65530..65540 and 70000; both origins (locally built object handed to send_bundle; '
        'received bytes routed "forward" over the MTU-limited route); security policy off or on; one container sent twice (MTU-limited route, then a route on which it fits). Non-trivial = a send whose '
        'MTU is smaller than the unfragmented size; distinct = distinct (origin, bundle bytes, MTU).')
ASSUMPTIONS = [
    'vf/oracles/bpv7.py decodes every output; tiling is decided on integer sets',
    'reference = the same bundle sent by a second fresh agent over a route without MTU',
    'with security policy on (COSE_Mac0 integrity at order 10) only the size bound, tiling and identity clauses are enforced, '
    'because which security blocks each fragment must carry is not stated by the property',
]
DECIDING = ['bp.app.fragment:Fragment._create', 'bp.agent:Agent.send_bundle', 'bp.agent:Agent._do_tx_step']
REQUIRED_OBS = ['stack_fragmentations_checked', 'sends', 'fragmenting_sends', 'fragments_checked', 'unchanged_sends_checked', 'impossible_sends', 'unnumbered_sends', 'resends_checked']
RULE = RULE + " Whole-stack runs (vf.stack): three hosts X-Y-Z, each a real BP agent bound through bp/cla.py and the in-process bus to real UDPCL/TCPCL agents over the simulated network (datagrams reordered and duplicated, BP and UDPCL MTUs, 2-14 bundles with report requests per scenario); judged per node, conditional on what the node's adaptor popped and what the agent handed to the adaptor's sender; the stack_* counters say what was compared."

NODE = 'dtn://me/'


def cases(tier, seed):
    out = []
    thorough = tier == 'thorough'
    nconf = 36 if thorough else 12
    for idx in range(nconf):
        out.append(dict(id='grid-%d' % idx, kind='grid', conf=idx, seed=seed, dense=thorough))
    for idx in range(96 if thorough else 6):
        out.append(dict(id='big-%d' % idx, kind='big', seed=seed * 101 + idx))
    for idx in range(600 if thorough else 16):
        out.append(dict(id='rand-%d' % idx, kind='rand', seed=seed * 7001 + idx, count=60 if thorough else 25))
    from vf import stackcases  # pylint: disable=import-outside-toplevel
    stackcases.add_cases(out, tier, seed)
    return out


def _conf(idx, rng):
    ''' Header configuration number idx. '''
    pri_crc = idx % 3
    pay_crc = (idx // 3) % 3
    next_ = (idx // 9) % 4
    exts = []
    for eidx in range(next_):
        repl = bool((idx + eidx) % 2)
        exts.append(dict(type=rng.choice([192, 10, 7]), num=2 + eidx * 3, flags=(bpv7.BLK_REPLICATE if repl else 0),
                         crc_type=rng.choice([0, 1, 2]), data=None, crc=None))
    for blk in exts:
        if blk['type'] == 10:
            blk['data'] = cw.enc([30, 2])
        elif blk['type'] == 7:
            blk['data'] = cw.enc(1000)
        else:
            blk['data'] = bytes(rng.getrandbits(8) for _ in range(rng.choice([0, 5, 30])))
    return pri_crc, pay_crc, exts


def make_bundle(pri_crc, pay_crc, exts, plen, flags=0, frag=None, dest='dtn://far/app', seq=0, clockless=False, src='dtn://orig/app'):
    pri = dict(version=7, flags=flags, crc_type=pri_crc, dest=dest, src=src, report_to='dtn:none',
               create_time=820540000000, seqno=seq, lifetime=3600000, frag_offset=None, total_adu_len=None, crc=None)
    if clockless:
        # a source without a clock: creation time 0 (and here also lifetime 0), the age travels in a Bundle Age block
        pri.update(create_time=0, lifetime=0)
        exts = [blk for blk in exts if blk['type'] != 7] + [dict(type=7, num=60, flags=bpv7.BLK_REPLICATE, crc_type=pay_crc, data=cw.enc(1000), crc=None)]
    if frag is not None:
        pri['flags'] |= bpv7.FLAG_IS_FRAGMENT
        pri['frag_offset'], pri['total_adu_len'] = frag
    payload = bytes(((i * 37) ^ (i >> 8) ^ 0x5a) & 0xFF for i in range(plen))
    blocks = [dict(blk) for blk in exts] + [dict(type=1, num=1, flags=0, crc_type=pay_crc, data=payload, crc=None)]
    return dict(primary=pri, blocks=blocks)


def check_local_clockless(bundle, mtu, obs):
    ''' A bundle sourced here without a creation time: the node may give it one, but then the same one to every fragment, and
    every fragment stays within the MTU and the payload ranges tile the payload. '''
    # (typed: the application builds the Bundle Age block from its value, as bp.app code does)
    outs, exc, loop_errs, _res = do_send(bundle, mtu, 'local', typed=True)
    problems = []
    detail = dict(bundle=bpv7.encode(bundle).hex(), mtu=mtu, outputs=[len(out) for out in outs], origin='local', security=False)
    idents = set()
    spans = []
    for out in outs:
        try:
            dec, _probs = bpv7.decode(out)
        except bpv7.DecodeError as err:
            problems.append(('undecodable', 'output does not decode: %s' % err))
            continue
        idents.add((dec['primary']['src'], dec['primary']['create_time'], dec['primary']['seqno']))
        if len(out) > mtu:
            problems.append(('oversized', 'output of %d octets on a route with MTU %d (bundle sourced here without creation time)' % (len(out), mtu)))
        if dec['primary']['flags'] & bpv7.FLAG_IS_FRAGMENT:
            size = len(bpv7.payload_of(dec)['data'])
            spans.append((dec['primary']['frag_offset'], dec['primary']['frag_offset'] + size))
    if len(idents) > 1:
        problems.append(('identity', 'the fragments of one bundle sourced here without creation time carry %d different identities %s' % (
            len(idents), sorted(idents)[:3])))
    if spans:
        obs['fragments_checked'] += len(spans)
        pos = 0
        for (lo, hi) in sorted(spans):
            if lo != pos:
                problems.append(('tiling', 'fragment ranges %s do not tile the payload' % sorted(spans)[:8]))
                break
            pos = hi
        else:
            if pos != len(bpv7.payload_of(bundle)['data']):
                problems.append(('tiling', 'fragment ranges %s do not cover the payload of %d octets' % (sorted(spans)[:8], len(bpv7.payload_of(bundle)['data']))))
    return problems, detail


def do_send(bundle, mtu, origin, security=False, typed=False):
    ''' Send one bundle through a fresh real agent.
    :return: (list of output byte strings, exception or None, loop errors, settle result)
    '''
    from vf.world.sim import Sim
    from vf import bp_harness as bh
    from vf.gen import bundles as gen
    from bp.util import BundleContainer
    sim = Sim(0, 'eager')
    node = bh.BpNode(sim, NODE, rx_routes=[(r'dtn://far/.*', 'forward')], tx_routes=[dict(pattern=r'dtn://far/.*', mtu=mtu)])
    if security:
        _enable_mac0(node)
    err = None
    if origin == 'local':
        if bundle.get('_unnumbered'):
            # the application left the numbering of its extension blocks to the agent
            bundle = dict(bundle, blocks=[dict(blk, num=None) if blk['type'] != 1 else blk for blk in bundle['blocks']])
        real = gen.to_real(bundle, typed=typed)
        try:
            node.send(BundleContainer(real))
        except Exception as exc:  # pylint: disable=broad-except
            err = exc
    else:
        node.recv(bpv7.encode(bundle))
    res = sim.settle(60000)
    loop_errs = list(sim.world.callback_errors)
    return node.cl.datas(), err, loop_errs, res


def check_resend(bundle, mtu, obs):
    ''' One container sent twice (the pattern of bp.app.sand: reset the sender, choose another route, send again): first over the
    MTU-limited route, then over a route on which it fits. The second request must hand the unchanged bundle to the CL.
    :return: (list of (kind, text), detail)
    '''
    from vf.world.sim import Sim
    from vf import bp_harness as bh
    from vf.gen import bundles as gen
    from bp.util import BundleContainer
    from bp import config as bp_config
    ref_outs, _e, _l, _r = do_send(bundle, None, 'local')
    sim = Sim(0, 'eager')
    node = bh.BpNode(sim, NODE, rx_routes=[(r'dtn://far/.*', 'forward')], tx_routes=[dict(pattern=r'dtn://far/.*', mtu=mtu)])
    ctr = BundleContainer(gen.to_real(bundle, typed=False))
    detail = dict(origin='local-resend', mtu=mtu, security=False, bundle=bpv7.encode(bundle).hex()[:600])
    problems = []
    try:
        node.send(ctr)
    except Exception as exc:  # pylint: disable=broad-except
        detail['first_send_raised'] = type(exc).__name__
    sim.settle(60000)
    first = len(node.cl.datas())
    # reset state, as the repository's own multi-interface sender does between its sends of one container
    ctr.sender = None
    ctr.route = bp_config.TxRouteItem(eid_pattern=None, next_nodeid='dtn://next/', cl_type='fake', raw_config={'route': 'second'})
    err = None
    try:
        node.agent.send_bundle(ctr)
    except Exception as exc:  # pylint: disable=broad-except
        err = exc
    res = sim.settle(60000)
    outs = node.cl.datas()[first:]
    detail['outputs'] = [len(item) for item in outs]
    detail['first_outputs'] = first
    obs['resends_checked'] = obs.get('resends_checked', 0) + 1
    if res != 'quiescent' or len(ref_outs) != 1:
        return [('budget', 'resend scenario not decidable: %s, %d reference outputs' % (res, len(ref_outs)))], detail
    if len(outs) != 1:
        problems.append(('unchanged', 'second send of one container over a route on which it fits (after a first send of %d outputs over MTU %s) '
                         'handed %d outputs to the CL%s' % (first, mtu, len(outs), ', the request raised %s' % type(err).__name__ if err else ' and raised nothing')))
    elif outs[0] != ref_outs[0]:
        problems.append(('unchanged', 'second send of one container over a route on which it fits differs from the no-MTU send at offset %d'
                         % _first_diff(outs[0], ref_outs[0])))
    return problems, detail


def _enable_mac0(node):
    from pycose import algorithms
    from pycose.keys import SymmetricKey, keyops
    import re
    from bp.app import bpsec
    ctx = node.bpsec_ctx()
    key = SymmetricKey(k=bytes(range(32)), optional_params={'KID': b'k1', 'ALG': algorithms.HMAC256, 'KEY_OPS': [keyops.MacCreateOp, keyops.MacVerifyOp]})
    ctx.sym_key_store[b'k1'] = key
    ctx.sec_assoc.append(bpsec.SecAssociation(
        src_pat=re.compile('.*'), dst_pat=re.compile('.*'), tgt_blk_types=[1],
        templates=[bpsec.SecOperation(sec_type='bib', role='source', priv_key_id=b'k1')]))


def check_send(bundle, mtu, origin, obs, security=False):
    ''' :return: (list of (kind, text), detail, nontrivial) '''
    problems = []
    outs, err, loop_errs, res = do_send(bundle, mtu, origin, security)
    ref_outs, _ref_err, _ref_loop, _ = do_send(bundle, None, origin, security)
    obs['sends'] += 1
    detail = dict(origin=origin, mtu=mtu, security=security, bundle=bpv7.encode(bundle).hex()[:600],
                  outputs=[len(item) for item in outs], send_raised=type(err).__name__ if err else None)
    if res != 'quiescent':
        return [('budget', 'loop not quiescent: %s' % res)], detail, False
    if len(ref_outs) != 1:
        return [('reference', 'reference send without MTU produced %d outputs' % len(ref_outs))], detail, False
    ref = ref_outs[0]
    ref_dec, _ = bpv7.decode(ref)
    pri = bundle['primary']
    payload = bpv7.payload_of(bundle)['data']
    fits = len(ref) <= (mtu if mtu is not None else 1 << 62)
    may_fragment = not (pri['flags'] & bpv7.FLAG_NO_FRAGMENT) and not (pri['flags'] & bpv7.FLAG_IS_FRAGMENT)
    nontrivial = not fits
    decs = []
    for data in outs:
        try:
            dec, probs = bpv7.decode(data)
        except bpv7.DecodeError as derr:
            problems.append(('altered', 'an output (%d octets) is not a decodable bundle: %s' % (len(data), derr)))
            detail['undecodable_output'] = str(derr)
            continue
        for item in probs:
            problems.append(('malformed', 'an output is not well-formed: %s' % item))
        decs.append((data, dec))

    if fits or not may_fragment:
        obs['unchanged_sends_checked'] += 1
        # sent unchanged: exactly one output, byte-equal to the same send with no MTU
        if not fits and not may_fragment:
            # do-not-fragment / already a fragment and too large: must still not be altered; whether the oversized
            # bundle may leave at all is not stated for this sub-case, only "sent unchanged"
            pass
        if len(outs) != 1:
            problems.append(('unchanged', '%d outputs for a bundle that %s' % (len(outs), 'fits the MTU' if fits else 'may not be fragmented')))
        elif outs[0] != ref:
            problems.append(('unchanged', 'a bundle that %s was not sent unchanged (differs from the no-MTU send at offset %d)' % (
                'fits the MTU' if fits else 'may not be fragmented', _first_diff(outs[0], ref))))
        return problems, detail, nontrivial

    # larger than the MTU and may be fragmented
    obs['fragmenting_sends'] += 1
    for (data, dec) in decs:
        if len(data) > mtu:
            problems.append(('oversized', 'an output of %d octets exceeds the MTU %d' % (len(data), mtu)))
            detail['oversized'] = True
    frags = [(data, dec) for (data, dec) in decs if dec['primary']['flags'] & bpv7.FLAG_IS_FRAGMENT]
    wholes = [(data, dec) for (data, dec) in decs if not dec['primary']['flags'] & bpv7.FLAG_IS_FRAGMENT]
    if not outs:
        # nothing transmitted: acceptable only when fragmentation is impossible
        obs['impossible_sends'] += 1
        detail['nothing_sent'] = True
        if _possible(ref_dec, mtu):
            problems.append(('lost', 'nothing was transmitted although fragments of at least one payload octet fit the MTU %d' % mtu))
        if origin == 'local' and err is None:
            problems.append(('silent', 'nothing was transmitted and the send request did not fail either'))
        return problems, detail, nontrivial
    if wholes:
        for (data, dec) in wholes:
            if data != ref:
                problems.append(('altered', 'a non-fragment output differs from the original bundle (payload %d octets, original %d)' % (
                    len(bpv7.payload_of(dec)['data']) if bpv7.payload_of(dec) else -1, len(payload))))
    if not frags:
        return problems, detail, nontrivial
    # tiling
    total = len(payload)
    covered = set()
    frags.sort(key=lambda item: item[1]['primary']['frag_offset'])
    first_offset_seen = False
    for (data, dec) in frags:
        obs['fragments_checked'] += 1
        fpri = dec['primary']
        fpay = bpv7.payload_of(dec)
        if fpay is None:
            problems.append(('altered', 'a fragment has no payload block'))
            continue
        off = fpri['frag_offset']
        rng_set = set(range(off, off + len(fpay['data'])))
        if fpri['total_adu_len'] != total:
            problems.append(('identity', 'fragment says total length %d, original payload is %d' % (fpri['total_adu_len'], total)))
        if covered & rng_set:
            problems.append(('tiling', 'fragment [%d,%d) overlaps earlier fragments' % (off, off + len(fpay['data']))))
        if not fpay['data']:
            problems.append(('tiling', 'empty fragment at offset %d' % off))
        covered |= rng_set
        if fpay['data'] != payload[off:off + len(fpay['data'])]:
            problems.append(('payload', 'fragment at offset %d does not carry the original octets' % off))
        for field in ('version', 'dest', 'src', 'report_to', 'create_time', 'seqno', 'lifetime'):
            if fpri[field] != ref_dec['primary'][field]:
                problems.append(('identity', 'fragment primary.%s is %r, original %r' % (field, fpri[field], ref_dec['primary'][field])))
        if fpri['flags'] != (ref_dec['primary']['flags'] | bpv7.FLAG_IS_FRAGMENT):
            problems.append(('identity', 'fragment flags 0x%x, original 0x%x' % (fpri['flags'], ref_dec['primary']['flags'])))
        if not security:
            want_blocks = [(blk['type'], blk['num'], blk['flags'], blk['data']) for blk in ref_dec['blocks']
                           if blk['type'] != 1 and (off == 0 or blk['flags'] & bpv7.BLK_REPLICATE)]
            got_blocks = [(blk['type'], blk['num'], blk['flags'], blk['data']) for blk in dec['blocks'] if blk['type'] != 1]
            if sorted(got_blocks) != sorted(want_blocks):
                problems.append(('blocks', 'fragment at offset %d carries extension blocks %s, expected %s' % (
                    off, [(b[0], b[1]) for b in got_blocks], [(b[0], b[1]) for b in want_blocks])))
        if off == 0:
            first_offset_seen = True
    if covered != set(range(total)):
        missing = sorted(set(range(total)) - covered)
        problems.append(('tiling', 'fragments do not cover the payload: %d of %d octets missing (first %s)' % (len(missing), total, missing[:3])))
    if not first_offset_seen:
        problems.append(('tiling', 'no fragment with offset 0'))
    return problems, detail, nontrivial


def _possible(ref_dec, mtu):
    ''' Could a fragment with >= 1 payload octet of every offset fit the MTU?  (conservative: size of the largest
    possible empty fragment, offset = total - 1, all blocks, plus one octet) '''
    total = len(bpv7.payload_of(ref_dec)['data'])
    if total == 0:
        return False
    probe = dict(primary=dict(ref_dec['primary'], flags=ref_dec['primary']['flags'] | bpv7.FLAG_IS_FRAGMENT,
                              frag_offset=max(0, total - 1), total_adu_len=total),
                 blocks=[dict(blk) if blk['type'] != 1 else dict(blk, data=b'\x00') for blk in ref_dec['blocks']])
    # the stated mechanism budgets the worst-case byte-string head of the payload for every fragment,
    # so sending nothing is only held against the agent when even that conservative budget leaves one octet
    slack = len(cw.enc_head(2, total)) - 1
    return len(bpv7.encode(probe)) + slack <= mtu


def _first_diff(one, two):
    for idx, (left, right) in enumerate(zip(one, two)):
        if left != right:
            return idx
    return min(len(one), len(two))


def classify(kind, detail):
    return None


def _collect(problems, detail, violations):
    for (kind, what) in problems:
        violations.append(dict(key=classify(kind, detail), what='[%s/%s%s] %s' % (kind, detail['origin'], '/sec' if detail['security'] else '', what),
                               detail=detail))


def run_case(case):
    if case.get('kind') == 'stack':
        from vf import stackcases  # pylint: disable=import-outside-toplevel
        return stackcases.run_block(PROPERTY_ID, case)
    obs = dict(sends=0, fragmenting_sends=0, fragments_checked=0, unchanged_sends_checked=0, impossible_sends=0, clockless_sends=0)
    violations = []
    classes = set()
    sample = None
    evaluations = 0

    def one(bundle, mtu, origin, security=False):
        nonlocal sample, evaluations
        problems, detail, nontrivial = check_send(bundle, mtu, origin, obs, security)
        evaluations += 1
        if nontrivial:
            classes.add(hash((origin, detail['bundle'], mtu, security)) & 0xFFFFFFFFFFFF)
            if sample is None:
                sample = dict(origin=origin, mtu=mtu, outputs=detail['outputs'], bundle=detail['bundle'][:200])
        _collect(problems, detail, violations)

    if case['kind'] == 'grid':
        rng = random.Random(case['conf'] * 13 + 5)
        pri_crc, pay_crc, exts = _conf(case['conf'], rng)
        plens = [0, 1, 2, 22, 23, 24, 25, 100, 254, 255, 256, 257, 300] if not case['dense'] else list(range(0, 301, 7)) + [23, 24, 255, 256]
        for origin in ('local', 'recv'):
            for plen in plens:
                bundle = make_bundle(pri_crc, pay_crc, exts, plen, seq=plen)
                full = len(bpv7.encode(bundle))
                nonpay = full - plen
                ks = [1, 2, 3, 5, 8, 13, 24, 40] if not case['dense'] else list(range(1, 41, 3))
                for k in ks:
                    one(bundle, nonpay + k, origin)
                one(bundle, full, origin)
                one(bundle, full - 1, origin)
                one(bundle, max(1, nonpay - 5), origin)
            if origin == 'local':
                # sourced here with creation time 0 and a Bundle Age block that is not marked for replication (only the first fragment
                # will carry it): whatever creation time the node settles on, every fragment carries the same one
                for plen in (100, 300):
                    bundle = make_bundle(pri_crc, pay_crc, exts, plen, seq=plen + 7000, clockless=True)
                    for blk in bundle['blocks']:
                        if blk['type'] == 7:
                            blk['flags'] = 0
                    full = len(bpv7.encode(bundle))
                    for mtu in (full - plen + 30, full - plen + 60):
                        obs['clockless_local_sends'] = obs.get('clockless_local_sends', 0) + 1
                        _collect(*check_local_clockless(bundle, mtu, obs), violations)
            if origin == 'recv':
                # received from a source without a clock: the fragments must keep that identity
                for plen in (24, 100, 300):
                    bundle = make_bundle(pri_crc, pay_crc, exts, plen, seq=plen + 5000, clockless=True)
                    full = len(bpv7.encode(bundle))
                    for mtu in (full - plen + 8, full - plen + 40, full - 1, full + 50):
                        obs['clockless_sends'] += 1
                        one(bundle, mtu, origin)
            # do-not-fragment and existing fragments are sent unchanged
            one(make_bundle(pri_crc, pay_crc, exts, 200, flags=bpv7.FLAG_NO_FRAGMENT, seq=901), 120, origin)
            one(make_bundle(pri_crc, pay_crc, exts, 200, frag=(10, 500), seq=902), 120, origin)
            one(make_bundle(pri_crc, pay_crc, exts, 50, seq=903), None, origin)
        # one container sent a second time over a route on which it fits
        for plen in (40, 300):
            bundle = make_bundle(pri_crc, pay_crc, exts, plen, seq=plen + 7000)
            full = len(bpv7.encode(bundle))
            for mtu in (full - plen + 12, full - 1, full + 5):
                problems, detail = check_resend(bundle, mtu, obs)
                evaluations += 1
                _collect(problems, detail, violations)
        if len(exts) >= 1:
            # locally built bundles whose extension blocks carry no number yet, with and without a security block added on the way
            for plen in (60, 200):
                bundle = dict(make_bundle(pri_crc, pay_crc, exts, plen, seq=plen + 3000), _unnumbered=True)
                full = len(bpv7.encode(bundle))
                for mtu in (full + 100, full - 10, full - plen + 20):
                    obs['unnumbered_sends'] = obs.get('unnumbered_sends', 0) + 1
                    one(bundle, mtu, 'local')
                    one(bundle, mtu + 150, 'local', security=True)
        if case['conf'] % 4 == 0:
            for plen in (30, 200):
                bundle = make_bundle(pri_crc, pay_crc, exts, plen, seq=plen + 2000)
                full = len(bpv7.encode(bundle))
                for mtu in (full + 200, full + 20, full - 10, full // 2 + 60):
                    one(bundle, mtu, 'local', security=True)
    elif case['kind'] == 'big':
        rng = random.Random(case['seed'])
        pri_crc, pay_crc, exts = _conf(rng.randrange(36), rng)
        plen = rng.choice([65530, 65535, 65536, 65540, 70000])
        bundle = make_bundle(pri_crc, pay_crc, exts, plen, seq=plen)
        for origin in ('local', 'recv'):
            for mtu in (rng.choice([30000, 65535, 65536, 65600]), rng.choice([20000, 40000])):
                one(bundle, mtu, origin)
    else:
        rng = random.Random(case['seed'])
        for _ in range(case['count']):
            pri_crc, pay_crc, exts = _conf(rng.randrange(36), rng)
            plen = rng.choice([0, 1, 10, 24, 100, 256, 1000, 3000])
            flags = rng.choice([0, 0, 0, bpv7.FLAG_NO_FRAGMENT, bpv7.FLAG_REQ_FORWARDING])
            bundle = make_bundle(pri_crc, pay_crc, exts, plen, flags=flags, seq=rng.randrange(1000),
                                 src=rng.choice(['dtn://orig/app', 'dtn://orig/app', 'ipn:7.3', 'dtn:none', 'dtn:none']))
            full = len(bpv7.encode(bundle))
            mtu = rng.choice([full - plen + rng.randint(1, 60), rng.randint(max(1, full // 4), full + 10), rng.randint(20, 120)])
            one(bundle, mtu, rng.choice(['local', 'recv']))
    uniq = {}
    for viol in violations:
        uniq.setdefault((viol['key'], viol['what'].split(']', 1)[0], viol['what'].split('] ', 1)[-1][:40]), viol)
    violations = list(uniq.values())[:20]
    return dict(verdict='violated' if violations else 'held', nontrivial=bool(classes), cls=classes, obs=obs,
                violations=violations, sample=sample, evaluations=evaluations)
