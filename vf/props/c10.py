''' C10 -- BP agent processes each received bundle at most once and routes by first match.

Monitor: application observer (inserted ahead of the built-in applications),
CL observer and the seen-identity table of a real ``bp.agent.Agent``, read
after every received bundle once the loop is quiescent.

Oracle: a reference model of the stated receive policy -- identity = (source,
creation time, sequence[, fragment offset, fragment payload length]); own-source and
already-seen bundles are ignored; the administrative endpoint is delivered;
otherwise the action of the first route whose pattern matches; no route, nothing.
'''
import random
import re

from vf.oracles import bpv7
from vf.oracles import cbor_walk as cw

PROPERTY_ID = 'C10'
RULE = ('histories of 1-40 received bundles over routing tables of 1-6 overlapping, fully anchored patterns with all three '
        'actions; sequences contain exact repeats, look-alikes differing in exactly one identity component, fragments and '
        'their repeats, own-source bundles, bundles to the administrative endpoint and bundles matching no route; after '
        'each receive the observed (deliveries, forwards, reports, seen-set) delta is compared with the reference model. '
        'Non-trivial = a history with at least one repeat or look-alike and at least two distinct actions; distinct = '
        'distinct (routing table, history) pair.')
ASSUMPTIONS = [
    'route patterns are generated fully anchored so "matches" does not depend on match/fullmatch/search',
    'delivery is observed by a chain step at order 29.5 (after security steps, before the built-in applications)',
    'vf/oracles/bpv7.py decodes what the agent hands to the CL',
]
DECIDING = ['bp.agent:Agent.recv_bundle', 'bp.agent:Agent._do_rx_step', 'bp.util:BundleContainer.bundle_ident',
            'bp.app.admin:Administrative._rx_route', 'bp.agent:Agent._do_fwd']
REQUIRED_OBS = ['stack_identities_checked', 'receives', 'repeats_ignored', 'own_source_ignored', 'first_match_decisions', 'delivered', 'forwarded', 'no_route']
RULE = RULE + " Whole-stack runs (vf.stack): three hosts X-Y-Z, each a real BP agent bound through bp/cla.py and the in-process bus to real UDPCL/TCPCL agents over the simulated network (datagrams reordered and duplicated, BP and UDPCL MTUs, 2-14 bundles with report requests per scenario); judged per node, conditional on what the node's adaptor popped and what the agent handed to the adaptor's sender; the stack_* counters say what was compared."

NODE = 'dtn://me/'
DESTS = ['dtn://a/x', 'dtn://a/xy', 'dtn://a/y', 'dtn://a/', 'dtn://b/svc', 'dtn://b/svc2', 'dtn://c/q', 'ipn:5.1', 'ipn:5.10', 'ipn:50.1',
         NODE, 'dtn://me/app', 'dtn://zz/none',
         # demux text ending in a bare '?' or '#' (RFC 9171: demux = *VCHAR): other endpoints than the ones without it
         'dtn://a/x?', 'dtn://a/y#', 'dtn://b/svc?#', 'dtn://me/?', 'dtn://me/app#',
         # the same texts in another letter case: other endpoints (patterns are matched as written)
         'dtn://A/x', 'dtn://a/X', 'dtn://B/SVC', 'dtn://ME/app', 'dtn://C/q']
PATTERNS = [r'dtn://a/x$', r'dtn://a/x.*', r'dtn://a/.*', r'dtn://a/y$', r'dtn://b/svc$', r'dtn://b/.*', r'dtn://.*', r'ipn:5\.1$',
            r'ipn:5\..*', r'ipn:.*', r'dtn://me/.*', r'dtn://c/q$', r'dtn://[ab]/.*']
ACTIONS = ['deliver', 'forward', 'delete']
SOURCES = ['dtn://s1/', 'dtn:none', 'dtn://s1/a', 'dtn://s2/', 'ipn:9.1', 'ipn:9.2', 'dtn://s1/a?', 'dtn://s1/a#', 'dtn://me/#']


def cases(tier, seed):
    out = []
    count = 200000 // 40 if tier == 'thorough' else 64
    per = 40 if tier == 'thorough' else 14
    for idx in range(count):
        out.append(dict(id='hist-%d' % idx, seed=seed * 100003 + idx, count=per, long=(idx % 16 == 0)))
    from vf import stackcases  # pylint: disable=import-outside-toplevel
    stackcases.add_cases(out, tier, seed)
    return out


def _gen_table(rng):
    size = rng.randint(1, 6)
    table = []
    for _ in range(size):
        table.append((rng.choice(PATTERNS), rng.choice(ACTIONS)))
    return table


def _gen_history(rng, length):
    ''' A list of bundle dicts with repeats and look-alikes. '''
    hist = []
    for _ in range(length):
        roll = rng.random()
        if hist and roll < 0.25:
            hist.append(dict(rng.choice(hist), tag='repeat'))
            continue
        if hist and roll < 0.5:
            base = dict(rng.choice(hist))
            comp = rng.choice(['src', 'time', 'seq', 'off', 'total', 'plen', 'dest'])
            if comp == 'src':
                base['src'] = rng.choice([src for src in SOURCES if src != base['src']])
            elif comp == 'time':
                base['time'] += rng.choice([1, -1, 1000]) if base['time'] > 1 else 1
            elif comp == 'seq':
                base['seq'] += 1
            elif comp == 'off' and base['frag'] is not None:
                base['frag'] = (base['frag'][0] + 1, base['frag'][1])
            elif comp == 'total' and base['frag'] is not None:
                # the total length is not part of a fragment's identity: still a repeat
                base['frag'] = (base['frag'][0], base['frag'][1] + 1)
            elif comp == 'plen':
                # the payload length identifies a fragment, not a whole bundle
                base['plen'] = base['plen'] + 1
            else:
                # same identity, different destination: still a repeat of the identity
                base['dest'] = rng.choice(DESTS)
            base['tag'] = 'lookalike-' + comp
            hist.append(base)
            continue
        frag = None
        if rng.random() < 0.25:
            frag = (rng.choice([0, 3, 10]), 100)
        src = NODE if rng.random() < 0.08 else rng.choice(SOURCES)
        flags = 0
        if rng.random() < 0.3:
            flags |= rng.choice([bpv7.FLAG_REQ_DELIVERY, bpv7.FLAG_REQ_FORWARDING, bpv7.FLAG_REQ_RECEPTION, bpv7.FLAG_REQ_DELETION,
                                 bpv7.FLAG_REQ_DELIVERY | bpv7.FLAG_REQ_RECEPTION | bpv7.FLAG_REQ_FORWARDING | bpv7.FLAG_REQ_DELETION])
        item = dict(src=src, time=rng.choice([1, 5, 1000, 2 ** 33]), seq=rng.randint(0, 3), frag=frag,
                    dest=rng.choice(DESTS), flags=flags, crc=rng.choice([0, 1, 2]), tag='new', plen=rng.choice([4, 9, 30]),
                    report_to=rng.choice(['dtn:none', 'dtn://rep/r']))
        if frag is None and rng.random() < 0.12:
            # flagged as administrative record, with a payload this implementation cannot take apart as a record (a reason code
            # assigned later, a record type that is no integer, too few items, no CBOR at all): routed like any other bundle
            item['admin'] = rng.choice([bpv7.encode_status_report([(True, None), (False, None), (False, None), (False, None)], 17, 'dtn://subj/x', 5, 6),
                                        cw.enc(['x', 1]), cw.enc([]), cw.enc([1]), b'\xff\x00', cw.enc([1, [[[True]], 200]]), cw.enc([7, {1: 2}])])
        if item['crc'] and rng.random() < 0.2:
            # a copy damaged in transit (CRC failure) arrives first: it is dropped and leaves no trace, the intact copy is processed
            hist.append(dict(item, tag='damaged', corrupt=True))
        hist.append(item)
    # the same bundle in a second shape: after it arrived whole, a complete set of its fragments arrives as well (a forwarder on
    # another path fragmented it).  The pieces are new identities; the bundle they add up to is not, it is acted on once.
    cands = [it for it in hist if it['frag'] is None and it.get('admin') is None and not it.get('corrupt') and it['plen'] >= 9 and it['src'] != NODE]
    if cands and rng.random() < 0.6:
        orig = rng.choice(cands)
        orig['uid'] = 'whole-%d' % hist.index(orig)
        cut = rng.randint(1, orig['plen'] - 1)
        for (lo, hi) in ((0, cut), (cut, orig['plen'])):
            hist.append(dict(orig, frag=(lo, orig['plen']), plen=hi - lo, tag='piece', piece_of=orig['uid'], whole_plen=orig['plen']))
    return hist


def _encode(item, payload):
    flags = item['flags']
    if item.get('admin') is not None:
        flags |= bpv7.FLAG_ADMIN
        payload = item['admin']
    pri = dict(version=7, flags=flags, crc_type=item['crc'], dest=item['dest'], src=item['src'], report_to=item['report_to'],
               create_time=item['time'], seqno=item['seq'], lifetime=3600000, frag_offset=None, total_adu_len=None, crc=None)
    if item['frag'] is not None:
        pri['flags'] |= bpv7.FLAG_IS_FRAGMENT
        pri['frag_offset'], pri['total_adu_len'] = item['frag']
    return bpv7.encode(dict(primary=pri, blocks=[dict(type=1, num=1, flags=0, crc_type=item['crc'], data=payload, crc=None)]))


def _ident(item):
    base = (item['src'], item['time'], item['seq'])
    if item['frag'] is not None:
        base += (item['frag'][0], item['plen'])
    return base


def model_step(table, seen, item, node_id=None):
    node_id = node_id or NODE
    ''' Reference receive policy.  :return: (decision, reason) '''
    ident = _ident(item)
    if item.get('corrupt'):
        return 'ignore', 'crc-failure'
    if item['src'] == node_id:
        return 'ignore', 'own-source'
    if ident in seen:
        return 'ignore', 'repeat'
    seen.add(ident)
    if item['dest'] == node_id:
        return 'deliver', 'admin-endpoint'
    for (pattern, action) in table:
        if re.fullmatch(pattern, item['dest']):
            return action, 'route %s' % pattern
    return 'none', 'no-route'


def run_history(table, hist, obs, node_id=None, via_file=False):
    node_id = node_id or NODE
    from vf.world.sim import Sim
    from vf import bp_harness as bh
    sim = Sim(0, 'eager')
    node = bh.BpNode(sim, node_id, rx_routes=table, tx_routes=[dict(pattern=r'.*')], via_file=via_file)
    seen_model = set()
    violations = []
    kinds = set()
    for step, item in enumerate(hist):
        payload = bytes(((pos * 17) ^ step ^ 0x33) & 0xFF for pos in range(item['plen']))
        if item.get('piece_of') is not None:
            step0 = next(idx for idx, other in enumerate(hist) if other.get('uid') == item['piece_of'] and other['frag'] is None)
            whole = bytes(((pos * 17) ^ step0 ^ 0x33) & 0xFF for pos in range(item['whole_plen']))
            payload = whole[item['frag'][0]:item['frag'][0] + item['plen']]
            obs['pieces_of_a_bundle_seen_whole'] = obs.get('pieces_of_a_bundle_seen_whole', 0) + 1
        enc = _encode(item, payload)
        if item.get('corrupt'):
            # flip one bit of the last payload octet (the payload block carries a CRC)
            raw = bytearray(enc)
            idx = len(raw) - 1 - (3 if item['crc'] == 1 else 5) - 1   # break code, CRC bstr (head + 2/4 octets), then the last data octet
            raw[idx] ^= 0x01
            enc = bytes(raw)
            assert bpv7.crc_failures(enc), 'harness: the damaged copy has no CRC failure'
            obs['damaged_copies'] = obs.get('damaged_copies', 0) + 1
        n_obs, n_cl = len(node.observed), len(node.cl.sent)
        decision, reason = model_step(table, seen_model, item, node_id)
        err = node.recv(enc)
        res = sim.settle(5000)
        obs['receives'] += 1
        kinds.add(decision)
        if reason == 'repeat':
            obs['repeats_ignored'] += 1
        elif reason == 'own-source':
            obs['own_source_ignored'] += 1
        elif reason == 'no-route':
            obs['no_route'] += 1
        elif reason.startswith('route'):
            obs['first_match_decisions'] += 1
        new_obs = node.observed[n_obs:]
        new_cl = node.cl.sent[n_cl:]
        deliveries = [rec for rec in new_obs if 'deliver' in rec['actions']]
        forwards, reports = [], []
        for (_no, _raw, data) in new_cl:
            try:
                dec, _problems = bpv7.decode(data)
            except bpv7.DecodeError:
                forwards.append(('undecodable',))
                continue
            if dec['primary']['flags'] & bpv7.FLAG_ADMIN and bpv7.ident(dec) != _ident(item):
                reports.append(dec)
            else:
                forwards.append(bpv7.ident(dec))
        problems = []
        if err is not None:
            problems.append('receive callback raised %s: %s' % (type(err).__name__, err))
        if sim.world.callback_errors:
            problems.append('loop callback raised %s' % sim.world.callback_errors[0].exc_type)
            del sim.world.callback_errors[:]
        is_frag = item['frag'] is not None
        want_deliver = 1 if (decision == 'deliver' and not is_frag) else 0
        got_deliver = len([rec for rec in deliveries if not rec['is_fragment']])
        if decision == 'deliver' and is_frag:
            # the reassembly step takes fragments; nothing is delivered while octets are missing (C06)
            if got_deliver:
                problems.append('an incomplete fragment was delivered')
        elif got_deliver != want_deliver:
            problems.append('%d deliveries, model says %d' % (got_deliver, want_deliver))
        if want_deliver and deliveries and deliveries[0]['payload'] != (item['admin'] if item.get('admin') is not None else payload):
            problems.append('delivered payload differs')
        want_fwd = [_ident(item)] if decision == 'forward' else []
        if forwards != want_fwd:
            problems.append('forwarded %s, model says %s' % (forwards, want_fwd))
        if decision == 'ignore' and reports:
            problems.append('%d status report(s) emitted for an ignored bundle' % len(reports))
        if decision == 'delete' and item['flags'] & bpv7.FLAG_REQ_DELETION and item['report_to'] != 'dtn:none':
            # the delete action was taken (whole bundle or fragment alike): its requested report says so
            obs['delete_reports_expected'] = obs.get('delete_reports_expected', 0) + 1
            deleted = []
            for rep in reports:
                try:
                    deleted.append(bpv7.decode_admin_record(bpv7.payload_of(rep)['data'])['status'][3][0])
                except (bpv7.DecodeError, KeyError, IndexError):
                    pass
            if deleted != [True]:
                problems.append('route says delete and a deletion report was requested, but %d report(s) asserting deletion %s were sent' % (len(reports), deleted))
        for rep in reports:
            try:
                rec = bpv7.decode_admin_record(bpv7.payload_of(rep)['data'])
                if (rec['subj_src'], rec['subj_time'], rec['subj_seqno']) != _ident(item)[:3]:
                    problems.append('status report about another bundle %s' % ((rec['subj_src'], rec['subj_time'], rec['subj_seqno']),))
            except bpv7.DecodeError as derr:
                problems.append('undecodable status report: %s' % derr)
        if node.seen() != seen_model:
            problems.append('seen-set differs: extra %s missing %s' % (sorted(node.seen() - seen_model)[:3], sorted(seen_model - node.seen())[:3]))
        if decision == 'deliver':
            obs['delivered'] += 1
        if decision == 'forward':
            obs['forwarded'] += 1
        if res != 'quiescent':
            problems.append('loop did not become quiescent (%s)' % res)
        if problems:
            violations.append(dict(key=None, what='step %d (%s, %s; model: %s because %s): %s' % (
                step, item['tag'], item['dest'], decision, reason, '; '.join(problems)),
                detail=dict(table=table, history=hist[:step + 1])))
            break
    return violations, kinds


def run_burst(table, hist, obs):
    ''' The same receive policy when the bundles arrive back to back, before the event loop runs anything in between. '''
    from vf.world.sim import Sim
    from vf import bp_harness as bh
    sim = Sim(0, 'eager')
    node = bh.BpNode(sim, NODE, rx_routes=table, tx_routes=[dict(pattern=r'.*')])
    seen_model = set()
    want_deliver, want_fwd = [], []
    problems = []
    for step, item in enumerate(hist):
        payload = bytes(((pos * 17) ^ step ^ 0x33) & 0xFF for pos in range(item['plen']))
        decision, _reason = model_step(table, seen_model, item)
        if decision == 'deliver' and item['frag'] is None:
            want_deliver.append(_ident(item))
        elif decision == 'forward':
            want_fwd.append(_ident(item))
        err = node.recv(_encode(item, payload))
        obs['receives'] += 1
        if err is not None:
            problems.append('receive callback raised %s: %s' % (type(err).__name__, err))
    res = sim.settle(20000)
    obs['bursts'] = obs.get('bursts', 0) + 1
    got_deliver = [tuple(rec['ident']) for rec in node.observed if 'deliver' in rec['actions'] and not rec['is_fragment']]
    got_fwd = []
    fed_idents = set(_ident(item) for item in hist)     # (an administrative bundle with one of these identities is in transit, no report)
    for (_no, _raw, data) in node.cl.sent:
        try:
            dec, _problems = bpv7.decode(data)
        except bpv7.DecodeError:
            got_fwd.append(('undecodable',))
            continue
        if not dec['primary']['flags'] & bpv7.FLAG_ADMIN or bpv7.ident(dec) in fed_idents:
            got_fwd.append(bpv7.ident(dec))
    if sim.world.callback_errors:
        problems.append('loop callback raised %s' % sim.world.callback_errors[0].exc_type)
    if sorted(map(repr, got_deliver)) != sorted(map(repr, want_deliver)):
        problems.append('delivered %s, model says %s' % (got_deliver[:4], want_deliver[:4]))
    if got_fwd != want_fwd:
        problems.append('forwarded %d bundle(s) %s, model says %d %s' % (len(got_fwd), got_fwd[:3], len(want_fwd), want_fwd[:3]))
    if node.seen() != seen_model:
        problems.append('seen-set differs: extra %s missing %s' % (sorted(node.seen() - seen_model)[:3], sorted(seen_model - node.seen())[:3]))
    if res != 'quiescent':
        problems.append('loop did not become quiescent (%s)' % res)
    if problems:
        return [dict(key=None, what='burst of %d: %s' % (len(hist), '; '.join(problems)), detail=dict(table=table, history=hist))]
    return []


def _long_history(rng):
    ''' Hundreds of distinct identities between a bundle and its repeat. '''
    hist = []
    for idx in range(rng.choice([260, 300, 520])):
        hist.append(dict(src=SOURCES[idx % len(SOURCES)], time=1000 + idx, seq=idx % 3, frag=None, dest=rng.choice(DESTS), flags=0, crc=idx % 3,
                         tag='new', plen=4, report_to='dtn:none'))
    for idx in (0, 1, 5, 100):
        hist.append(dict(hist[idx], tag='repeat'))
    return hist


def run_case(case):
    if case.get('kind') == 'stack':
        from vf import stackcases  # pylint: disable=import-outside-toplevel
        return stackcases.run_block(PROPERTY_ID, case)
    rng = random.Random(case['seed'])
    obs = dict(receives=0, repeats_ignored=0, own_source_ignored=0, first_match_decisions=0, delivered=0, forwarded=0, no_route=0)
    violations = []
    classes = set()
    sample = None
    nontrivial = 0
    for _ in range(case['count']):
        table = _gen_table(rng)
        hist = _gen_history(rng, rng.choice([1, 3, 8, 20, 40]))
        viols, kinds = run_history(table, hist, obs)
        violations += viols
        if rng.random() < 0.3:
            clean = [item for item in hist if not item.get('corrupt')]
            violations += run_burst(table, clean, obs)
        if len(kinds) >= 2 and any(item['tag'] != 'new' for item in hist):
            nontrivial += 1
            classes.add(hash((repr(table), repr(hist))) & 0xFFFFFFFFFFFF)
        if sample is None:
            sample = dict(table=table, history=[dict(item) for item in hist[:6]])
    if case.get('long') or True:
        # a node configured from a document (Config.from_file), with an ipn node id: own-source and own-endpoint rules as before
        ipn_node = 'ipn:9.0'
        table = _gen_table(rng)
        hist = []
        for item in _gen_history(rng, 12):
            item = dict(item)
            if item['src'] == NODE:
                item['src'] = ipn_node
            if item['dest'] == NODE:
                item['dest'] = ipn_node
            hist.append(item)
        hist.insert(3, dict(hist[0], src=ipn_node, tag='new', seq=9, time=77))
        hist.insert(5, dict(hist[1], dest=ipn_node, tag='new', seq=8, time=78, frag=None))
        viols, _kinds = run_history(table, hist, obs, node_id=ipn_node, via_file=True)
        violations += viols
        obs['from_file_histories'] = obs.get('from_file_histories', 0) + 1
        # the same from a file that also holds unusable entries between the good ones
        viols, _kinds = run_history(table, hist, obs, node_id=ipn_node, via_file='noisy')
        violations += [dict(viol, what='[configuration file with invalid entries between the routes] ' + viol['what']) for viol in viols]
        obs['from_file_histories'] += 1
    if case.get('long'):
        table = _gen_table(rng)
        hist = _long_history(rng)
        viols, _kinds = run_history(table, hist, obs)
        violations += viols
        obs['long_histories'] = obs.get('long_histories', 0) + 1
    uniq = {}
    for viol in violations:
        uniq.setdefault(viol['what'].split(':', 1)[-1][:80], viol)
    violations = list(uniq.values())[:12]
    return dict(verdict='violated' if violations else 'held', nontrivial=bool(classes), cls=classes, obs=obs,
                violations=violations, sample=sample, evaluations=case['count'])
