''' C15 -- TCPCL enforces its TLS and peer-authentication policy.

Monitor: a real ContactHandler whose Config.get_ssl_context() returns a fake
context (pass-through "secured" socket whose handshake succeeds or fails by
scenario choice and which presents a scenario-chosen DER certificate built with
``cryptography``); a scripted peer writes the contact header / SESS_INIT; the
monitor records whether SESS_INIT is emitted, whether the state becomes
established, whether SESS_TERM(contact failure) is sent, whether the connection
closes, the authn_* parameters, and whether transfer data is sent or accepted
afterwards.

Oracle: an independent decision function written from the statement.
'''
import datetime
import ipaddress
import itertools

import dbus

from vf.oracles import tcpcl_wire as tw

PROPERTY_ID = 'C15'
RULE = ('the decision table: local TLS capability x peer TLS capability x require-TLS in {unset, true, false} x handshake ok/fail x '
        'role/naming in {passive, active by address, active by DNS name} x certificate IP SAN in {absent, match, mismatch, '
        'match+mismatch} x DNS SAN likewise x URI (node id) SAN likewise x require-host x require-node; rows in which no TLS is '
        'attempted or the handshake fails are collapsed over the certificate dimensions. every row is run in both tiers (exhaustive). Non-trivial = a row in which TLS was attempted; distinct = distinct row.')
ASSUMPTIONS = [
    'the TLS handshake and record protection are simulated (fake context); only the repository\'s decisions around them are judged',
    'certificates are real X.509 DER built with the cryptography package and parsed by the repository with the same package',
    'for a failed handshake with require-TLS unset, both "closed" and "continue in the clear" are accepted (the statement is silent)',
]
DECIDING = ['tcpcl.session:Messenger.merge_session_params', 'tcpcl.session:match_id', 'tcpcl.session:Messenger.merge_contact_params',
            'tcpcl.session:Connection.secure']
REQUIRED_OBS = ['rows', 'tls_attempted', 'established_secure', 'contact_failures', 'policy_closures', 'post_failure_probes', 'cleartext_sess_init_probes']

PEER_IP = '10.0.0.2'
OTHER_IP = '10.9.9.9'
PEER_DNS = 'peer.example'
OTHER_DNS = 'other.example'
PEER_NODE = 'dtn://peer-node/'
# node ids a peer may announce instead of the one in its certificate: every one of them is another text than the URI identifier
ANNOUNCE = {'empty': b'', 'nul': PEER_NODE.encode('utf8') + b'\x00', 'nul3': PEER_NODE.encode('utf8') + b'\x00\x00\x00', 'other-scheme': b'ipn:9.0',
            'longer': PEER_NODE.encode('utf8') + b'x', 'space': PEER_NODE.encode('utf8') + b' ',
            # octets that are no UTF-8 text at all (only used where the certificate carries a URI identifier: it cannot equal that)
            'non-utf8': PEER_NODE.encode('utf8') + b'\xff', 'latin1': b'dtn://n\xe9ud/'}
OTHER_NODE = 'dtn://someone-else/'
SAN4 = ('absent', 'match', 'mismatch', 'both')

_CERT_CACHE = {}
_KEY = None


def make_cert(ip, dns, uri, peer_ip=PEER_IP):
    ''' DER certificate with the chosen subject alternative names. '''
    global _KEY  # pylint: disable=global-statement
    key = (ip, dns, uri, peer_ip)
    if key in _CERT_CACHE:
        return _CERT_CACHE[key]
    from cryptography import x509
    from cryptography.hazmat.primitives import hashes, serialization
    from cryptography.hazmat.primitives.asymmetric import ec
    if _KEY is None:
        _KEY = ec.generate_private_key(ec.SECP256R1())
    sans = []
    if ip in ('match', 'both', 'both6'):
        sans.append(x509.IPAddress(ipaddress.ip_address(peer_ip)))
    if ip in ('mismatch', 'both'):
        sans.append(x509.IPAddress(ipaddress.ip_address(OTHER_IP)))
    if ip in ('mismatch6', 'both6'):
        # an address of the other family than the connection's: an identifier all the same, and not this peer's address
        sans.append(x509.IPAddress(ipaddress.ip_address('2001:db8::bad')))
    if dns in ('match', 'both'):
        sans.append(x509.DNSName(PEER_DNS))
    if dns in ('mismatch', 'both'):
        sans.append(x509.DNSName(OTHER_DNS))
    if uri in ('match', 'both'):
        sans.append(x509.UniformResourceIdentifier(PEER_NODE))
    if uri in ('mismatch', 'both'):
        sans.append(x509.UniformResourceIdentifier(OTHER_NODE))
    name = x509.Name([x509.NameAttribute(x509.oid.NameOID.COMMON_NAME, 'vf test')])
    builder = (x509.CertificateBuilder().subject_name(name).issuer_name(name).public_key(_KEY.public_key())
               .serial_number(1000 + len(_CERT_CACHE))
               .not_valid_before(datetime.datetime(2025, 1, 1)).not_valid_after(datetime.datetime(2035, 1, 1)))
    if sans:
        builder = builder.add_extension(x509.SubjectAlternativeName(sans), critical=False)
    cert = builder.sign(_KEY, hashes.SHA256())
    der = cert.public_bytes(serialization.Encoding.DER)
    _CERT_CACHE[key] = der
    return der


def all_rows():
    rows = []
    for local_can, peer_can, require, hs_ok, naming in itertools.product((True, False), (True, False), (None, True, False), (True, False),
                                                                         ('passive', 'active-addr', 'active-dns')):
        attempt = local_can and peer_can
        blocked = require is not None and attempt != require
        # contact header and SESS_INIT arriving in the same read
        rows.append(dict(local_can=local_can, peer_can=peer_can, require=require, hs_ok=hs_ok, naming=naming,
                         ip='match', dns='absent', uri='match', req_host=False, req_node=False, pipelined=True))
        # the same policy read from a configuration document by Config.from_file() (false / null / true as written there)
        rows.append(dict(local_can=local_can, peer_can=peer_can, require=require, hs_ok=hs_ok, naming=naming,
                         ip='match', dns='absent', uri='match', req_host=False, req_node=False, via_file=True))
        if not attempt or blocked or not hs_ok:
            rows.append(dict(local_can=local_can, peer_can=peer_can, require=require, hs_ok=hs_ok, naming=naming,
                             ip='match', dns='absent', uri='match', req_host=False, req_node=False))
            continue
        for ip, dns, uri, req_host, req_node in itertools.product(SAN4, SAN4, SAN4, (False, True), (False, True)):
            rows.append(dict(local_can=local_can, peer_can=peer_can, require=require, hs_ok=hs_ok, naming=naming,
                             ip=ip, dns=dns, uri=uri, req_host=req_host, req_node=req_node))
        # reserved bits in the peer's contact header flags are ignored: same outcome as without them
        for extra in (0x02, 0x80, 0xfe):
            rows.append(dict(local_can=local_can, peer_can=peer_can, require=require, hs_ok=hs_ok, naming=naming,
                             ip='match', dns='absent', uri='match', req_host=False, req_node=(extra == 0x80), extra_flags=extra))
        if naming == 'passive':
            # a TLS client that presents no certificate at all (permitted by the handshake): every identifier is absent
            for req_host, req_node in itertools.product((False, True), (False, True)):
                rows.append(dict(local_can=local_can, peer_can=peer_can, require=require, hs_ok=hs_ok, naming=naming,
                                 ip='absent', dns='absent', uri='absent', req_host=req_host, req_node=req_node, cert='none'))
        # iPAddress identifiers of the other address family
        for ip6, uri, req_host, req_node in itertools.product(('mismatch6', 'both6'), ('match', 'absent'), (False, True), (False, True)):
            rows.append(dict(local_can=local_can, peer_can=peer_can, require=require, hs_ok=hs_ok, naming=naming,
                             ip=ip6, dns='absent', uri=uri, req_host=req_host, req_node=req_node))
        # a peer that announces a zero-length node ID: any URI identifier in its certificate then contradicts the announcement
        for uri, req_node in itertools.product(SAN4, (False, True)):
            for announce in sorted(ANNOUNCE):
                if announce in ('non-utf8', 'latin1') and uri == 'absent':
                    continue
                rows.append(dict(local_can=local_can, peer_can=peer_can, require=require, hs_ok=hs_ok, naming=naming,
                                 ip='match', dns='absent', uri=uri, req_host=False, req_node=req_node, announce=announce))
    return rows


def decide(row):
    ''' Expected outcome from the statement.
    :return: dict(outcome in 'closed-no-init' | 'established' | 'contact-failure' | 'closed-or-plain', secure=bool)
    '''
    attempt = row['local_can'] and row['peer_can']
    require = row['require']
    if require is not None and attempt != require:
        return dict(outcome='closed-no-init', secure=False)
    if not attempt:
        return dict(outcome='established', secure=False)
    if not row['hs_ok']:
        if require is True:
            return dict(outcome='closed-no-init', secure=False)
        return dict(outcome='closed-or-plain', secure=False)
    # secured: certificate identifiers against the references
    has_dns_ref = row['naming'] == 'active-dns'

    def verdict(state, has_ref=True):
        if state == 'absent':
            return 'absent'
        if not has_ref:
            return 'unverifiable'
        return 'match' if state in ('match', 'both', 'both6') else 'mismatch'

    ip_v = verdict(row['ip'])
    dns_v = verdict(row['dns'], has_dns_ref)
    node_v = verdict(row['uri'])
    if row.get('announce') and row['uri'] != 'absent':
        node_v = 'mismatch'
    if row.get('announce') in ('nul', 'nul3', 'non-utf8', 'latin1'):
        # octets that are no URI text (not UTF-8, or with NUL characters) cannot be matched against anything nor reported to the
        # application: the only consistent outcome is a refusal
        node_v = 'mismatch'
    contradiction = ip_v == 'mismatch' or dns_v == 'mismatch' or node_v == 'mismatch'
    host_ok = ip_v == 'match' or dns_v == 'match'
    node_ok = node_v == 'match'
    if contradiction or (row['req_host'] and not host_ok) or (row['req_node'] and not node_ok):
        return dict(outcome='contact-failure', secure=True, host_ok=host_ok, node_ok=node_ok)
    return dict(outcome='established', secure=True, host_ok=host_ok, node_ok=node_ok)


def run_row(row, obs):
    from vf.world.sim import Sim
    from vf.world import net as vnet
    from vf import tcpcl_harness as th
    sim = Sim(seed=0, policy='eager')
    passive = row['naming'] == 'passive'
    peer_ip = '10.0.0.1' if passive else PEER_IP
    cfg = th.make_config('dtn://under-test/', tls_enable=row['local_can'], require_tls=row['require'],
                         require_host_authn=row['req_host'], require_node_authn=row['req_node'], segment_size_tx_initial=10,
                         via_file=bool(row.get('via_file')))
    ctx = vnet.FakeSslContext(handshake_fails=not row['hs_ok'], peer_cert_der=(None if row.get('cert') == 'none' else make_cert(row['ip'], row['dns'], row['uri'], peer_ip)))
    cfg.get_ssl_context = lambda: ctx
    if passive:
        sock_peer, sock_e = sim.net.tcp_pair('P', 'E', ('10.0.0.1', 40001), ('10.0.0.9', 4556))
        end = th.Endpoint(sim, 'E', cfg, sock_e, passive=True, peer_addr=('10.0.0.1', 40001))
    else:
        sock_e, sock_peer = sim.net.tcp_pair('E', 'P', ('10.0.0.9', 40001), (PEER_IP, 4556))
        name = PEER_DNS if row['naming'] == 'active-dns' else PEER_IP
        end = th.Endpoint(sim, 'E', cfg, sock_e, passive=False, peer_addr=(name, 4556))
    end.start()
    sim.settle(20000)

    def write(data):
        if not sock_peer.closed:
            try:
                sock_peer.tx.write(data)
            except Exception:  # pylint: disable=broad-except
                pass

    def seen():
        msgs, _pos, status = tw.parse_stream(sock_e.tx.all_bytes())
        return [m for (m, _e) in msgs], status

    write(tw.encode(dict(type='contact', flags=(tw.CAN_TLS if row['peer_can'] else 0) | row.get('extra_flags', 0))))
    if not row.get('pipelined'):
        sim.settle(20000)
    write(tw.encode(dict(type='SESS_INIT', keepalive=0, segment_mru=2 ** 20, transfer_mru=2 ** 30, nodeid=(ANNOUNCE[row['announce']] if row.get('announce') else PEER_NODE.encode('utf8')), ext=[])))
    sim.settle(20000)
    msgs, status = seen()
    obs['rows'] += 1
    want = decide(row)
    attempt = row['local_can'] and row['peer_can']
    if attempt:
        obs['tls_attempted'] += 1
    problems = []
    if row.get('pipelined') and attempt and row['hs_ok'] and want['outcome'] == 'established' and not sim.world.callback_errors:
        # that SESS_INIT reached the endpoint in the clear, ahead of the handshake (someone on the path can put it there): nothing
        # may be negotiated from it.  The peer's real SESS_INIT follows inside the secured channel and is the one that counts.
        obs['cleartext_sess_init_probes'] = obs.get('cleartext_sess_init_probes', 0) + 1
        if end.state() == 'established' or (passive and any(m['type'] == 'SESS_INIT' for m in msgs)):
            problems.append(('cleartext', 'a SESS_INIT received in the clear, before the TLS handshake, was acted on after it: state %s, SESS_INIT %s' % (
                end.state(), 'answered' if passive else 'accepted'), {}))
            return problems, want
        write(tw.encode(dict(type='SESS_INIT', keepalive=0, segment_mru=2 ** 20, transfer_mru=2 ** 30, nodeid=PEER_NODE.encode('utf8'), ext=[])))
        sim.settle(20000)
        msgs, status = seen()
    errs = sim.world.callback_errors
    if errs:
        problems.append(('raised', 'callback %s raised %s: %s' % (errs[0].source, errs[0].exc_type, str(errs[0].exc)[:90]),
                         dict(exc_type=errs[0].exc_type, exc=str(errs[0].exc)[:60])))
        return problems, want
    sent_init = any(m['type'] == 'SESS_INIT' for m in msgs)
    terms = [m for m in msgs if m['type'] == 'SESS_TERM']
    state = end.state()
    closed = sock_e.closed
    secure = end.hdl.get_secure_socket() is not None or bool(ctx.wrapped and ctx.wrapped[0]._handshaken)
    tried = ctx.handshakes > 0
    if tried != attempt and not (want['outcome'] == 'closed-no-init' and not tried):
        problems.append(('attempt', 'TLS handshake %s although local capability is %s and the peer %s it' % (
            'was attempted' if tried else 'was not attempted', row['local_can'], 'offers' if row['peer_can'] else 'does not offer'), {}))
    outcome = want['outcome']
    if outcome == 'closed-no-init':
        obs['policy_closures'] += 1
        if sent_init or state == 'established':
            problems.append(('policy', 'require_tls=%s with TLS %s: the endpoint %s' % (
                row['require'], 'attempted' if attempt else 'not attempted',
                'sent SESS_INIT' if sent_init else 'became established'), {}))
        if not closed:
            problems.append(('policy', 'policy violated but the connection was not closed (state %s)' % state, {}))
    elif outcome == 'closed-or-plain':
        if state == 'established' and secure:
            problems.append(('policy', 'handshake failed but the session counts as secured', {}))
    elif outcome == 'established':
        if state != 'established' or not sent_init or terms or closed:
            problems.append(('establish', 'expected an established %s session, got state %s, SESS_INIT sent %s, SESS_TERM %s, closed %s' % (
                'secured' if want['secure'] else 'plain', state, sent_init, [t['reason'] for t in terms], closed), {}))
        elif want['secure'] != bool(end.call('is_secure')):
            problems.append(('establish', 'is_secure() is %s, expected %s' % (not want['secure'], want['secure']), {}))
        else:
            if want['secure']:
                obs['established_secure'] += 1
                params = dict(end.call('get_session_parameters'))
                if want.get('node_ok') and str(params.get('authn_nodeid')) != PEER_NODE:
                    problems.append(('authn', 'node id authenticated by the certificate but authn_nodeid is %r' % params.get('authn_nodeid'), {}))
                if not want.get('node_ok') and params.get('authn_nodeid'):
                    problems.append(('authn', 'authn_nodeid is %r although the certificate does not carry the announced node id' % params.get('authn_nodeid'), {}))
    elif outcome == 'contact-failure':
        obs['contact_failures'] += 1
        if state == 'established':
            problems.append(('authn', 'session established although the certificate %s' % _why(row, want), {}))
        elif not (terms and terms[0]['reason'] == 4):
            problems.append(('authn', 'authentication failed (%s) but no SESS_TERM(contact failure) was sent: SESS_TERM reasons %s, closed %s' % (
                _why(row, want), [t['reason'] for t in terms], closed), {}))
    # after a refusal no transfer may flow
    if outcome in ('contact-failure', 'closed-no-init') and not closed and not problems:
        obs['post_failure_probes'] += 1
        n_before = len(msgs)
        try:
            end.call('send_bundle_data', dbus.ByteArray(b'own-data-after-refusal'))
        except Exception:  # pylint: disable=broad-except
            pass
        write(tw.encode(dict(type='XFER_SEGMENT', flags=3, transfer_id=77, ext=[tw.transfer_length_ext(4)], data=b'evil')))
        sim.settle(20000)
        # ... nor may the refused peer simply try its SESS_INIT again
        write(tw.encode(dict(type='SESS_INIT', keepalive=0, segment_mru=2 ** 20, transfer_mru=2 ** 30, nodeid=PEER_NODE.encode('utf8'), ext=[])))
        sim.settle(20000)
        write(tw.encode(dict(type='XFER_SEGMENT', flags=3, transfer_id=78, ext=[tw.transfer_length_ext(4)], data=b'evi2')))
        sim.settle(20000)
        if end.state() == 'established':
            problems.append(('leak', 'a repeated SESS_INIT turned a refused session (%s) into an established one' % outcome, {}))
        msgs2, _status = seen()
        new = msgs2[n_before:]
        if any(m['type'] == 'XFER_SEGMENT' for m in new):
            problems.append(('leak', 'own transfer data was sent on a session that was refused (%s)' % outcome, {}))
        got = [ev for ev in sim.hist.signals('recv_bundle_finished')]
        if got:
            problems.append(('leak', 'a transfer from the peer was accepted and announced on a session that was refused (%s)' % outcome, {}))
        if sim.world.callback_errors:
            err = sim.world.callback_errors[0]
            problems.append(('raised', 'after the refusal: callback %s raised %s: %s' % (err.source, err.exc_type, str(err.exc)[:80]), {}))
    # a later SESS_INIT on the same connection announcing another node id: judged afresh against the certificate, never accepted on the
    # strength of the first one
    if outcome == 'established' and want['secure'] and row['uri'] != 'absent' and not problems and not row.get('announce'):
        obs['second_sess_init_probes'] = obs.get('second_sess_init_probes', 0) + 1
        write(tw.encode(dict(type='SESS_INIT', keepalive=0, segment_mru=2 ** 20, transfer_mru=2 ** 30, nodeid=b'dtn://victim/', ext=[])))
        sim.settle(20000)
        if sim.world.callback_errors:
            err = sim.world.callback_errors[0]
            problems.append(('raised', 'second SESS_INIT: callback %s raised %s: %s' % (err.source, err.exc_type, str(err.exc)[:80]), {}))
        elif not sock_e.closed and end.state() == 'established':
            try:
                params = dict(end.call('get_session_parameters'))
            except Exception:  # pylint: disable=broad-except
                params = {}
            if str(params.get('peer_nodeid')) == 'dtn://victim/':
                problems.append(('authn', 'a second SESS_INIT announcing dtn://victim/ was accepted: the session is established with peer_nodeid %r although '
                                 'the certificate names %r' % (params.get('peer_nodeid'), PEER_NODE), {}))
    # what the endpoint reported about the session (authenticated identifiers included) must fit the declared D-Bus types
    for viol in sim.hist.sig_violations:
        problems.append(('type', '%s %s.%s%s does not marshal as %r: %s %s' % (viol.kind, viol.iface, viol.member, viol.args_repr[:80], viol.signature,
                                                                            viol.exc_type, viol.msg[:70]), {}))
    return problems, want


def _why(row, want):
    parts = []
    for kind, key in (('IP', 'ip'), ('DNS', 'dns'), ('node id', 'uri')):
        parts.append('%s SAN %s' % (kind, row[key]))
    return '%s; naming %s; require host %s node %s' % (', '.join(parts), row['naming'], row['req_host'], row['req_node'])


def cases(tier, seed):
    rows = all_rows()
    out = []
    # the whole table is small enough to run in both tiers
    idxs = list(range(len(rows)))
    block = 80
    for pos in range(0, len(idxs), block):
        out.append(dict(id='rows-%d' % pos, idxs=idxs[pos:pos + block]))
    return out


def classify(kind, text, extra):
    if kind == 'raised' and extra.get('exc_type') == 'AttributeError' and 'match_hostname' in extra.get('exc', ''):
        return 'C15/ssl-match-hostname-removed-in-python-3.12'
    return None


def run_case(case):
    obs = dict(rows=0, tls_attempted=0, established_secure=0, contact_failures=0, policy_closures=0, post_failure_probes=0)
    rows = all_rows()
    violations = []
    classes = set()
    sample = None
    for idx in case['idxs']:
        row = rows[idx]
        problems, want = run_row(row, obs)
        if row['local_can'] and row['peer_can']:
            classes.add(idx)
        if sample is None:
            sample = dict(row=row, expected=want)
        for (kind, text, extra) in problems:
            violations.append(dict(key=classify(kind, text, extra), what='[%s] %s  {row: %s}' % (kind, text, _short(row)), detail=dict(row=row, expected=want)))
    uniq = {}
    for viol in violations:
        uniq.setdefault((viol['key'], viol['what'].split('  {row')[0][:90]), viol)
    violations = list(uniq.values())[:16]
    return dict(verdict='violated' if violations else 'held', nontrivial=bool(classes), cls=classes, obs=obs,
                violations=violations, sample=sample, evaluations=len(case['idxs']))


def _short(row):
    return 'can %s/%s req %s hs %s %s ip:%s dns:%s uri:%s host:%s node:%s' % (
        row['local_can'], row['peer_can'], row['require'], row['hs_ok'], row['naming'], row['ip'], row['dns'], row['uri'], row['req_host'], row['req_node']) + (
        ' announce:%s' % row['announce'] if row.get('announce') else '') + (' flags+0x%02x' % row['extra_flags'] if row.get('extra_flags') else '') + (
        ' cert:none' if row.get('cert') == 'none' else '') + (' via-file' if row.get('via_file') else '') + (' pipelined' if row.get('pipelined') else '')
