''' C18 -- the D-Bus view of transfers is type-correct and consistent with reality.

Monitor: every signal emission and method return of the real TCPCL contacts,
the TCPCL agent and the UDPCL agent passes through the dbus shim, which checks
the arguments against the declared signature with a calibrated model of
dbus-python's marshalling; object state is peeked after every event-loop
callback and every boundary call.

Oracle: (types) no emission/return may fail to marshal.  (consistency) shadow
model built from the boundary history: receive queue = announced finished -
popped; pop returns exactly that transfer's data once; send queue = queued -
finished; <= 1 finished signal per transfer, exactly 1 after a graceful end;
is_sess_idle() implies nothing queued / in progress / unacknowledged and an
empty receive buffer, and holds at world quiescence once everything drained.
'''
import random

import dbus

from vf.gen import tcpcl_scen as scen
from vf.props import c09
from vf.tcpcl_run import payload_for

PROPERTY_ID = 'C18'
RULE = ('C01/C09 scenarios of two real TCPCL endpoints with boundary calls (send, pop, both queue queries, idle query, terminate) '
        'interleaved at seeded random scheduler steps and the invariant evaluated after EVERY callback; C17-style scripted-peer '
        'refusals / rejects so that every signal of the contact interface is emitted; two real tcpcl.agent.Agent objects over '
        'the simulated listen/accept/connect path incl. shutdown(); the real UDPCL agent fed benign and hostile datagrams '
        '(segment transfers, polling with odd node ids and intervals). Non-trivial = a run with at least one signal checked and '
        'one invariant evaluation; distinct = distinct (scenario, interleaving hash).')
ASSUMPTIONS = [
    'vf/oracles/dbus_sig.py models dbus-python 1.3.2 Message.append; calibrated on 857 rows produced by the real library',
    'conformance is judged at emission even when the object has left the bus',
    'the invariant is evaluated at callback boundaries (the program is single-threaded and cooperative, every boundary is a quiescent point)',
]
DECIDING = ['tcpcl.session:ContactHandler.is_sess_idle', 'tcpcl.session:ContactHandler.recv_bundle_pop_data',
            'tcpcl.session:ContactHandler.send_bundle_get_queue', 'tcpcl.session:ContactHandler.recv_bundle_get_queue',
            'tcpcl.agent:Agent.shutdown', 'tcpcl.agent:Agent.connect', 'udpcl.agent:Agent._add_rx_item',
            'udpcl.agent:Agent._recv_ext_map']
REQUIRED_OBS = ['stack_pops_compared', 'runs', 'signals_checked', 'returns_checked', 'invariant_evaluations', 'idle_true_checked', 'pops_checked',
                'agent_scenarios', 'udpcl_datagrams', 'refuse_signals', 'agent_transfers_checked', 'tls_param_reports']
RULE = RULE + " Whole-stack runs (vf.stack): three hosts X-Y-Z, each a real BP agent bound through bp/cla.py and the in-process bus to real UDPCL/TCPCL agents over the simulated network (datagrams reordered and duplicated, BP and UDPCL MTUs, 2-14 bundles with report requests per scenario); judged per node, conditional on what the node's adaptor popped and what the agent handed to the adaptor's sender; the stack_* counters say what was compared."


class Shadow(object):
    ''' Shadow model of one contact built from the boundary history only. '''

    def __init__(self):
        self.queued = []        # tids in call order
        self.finished = {}      # tid -> count
        self.started = set()
        self.rx_announced = []  # tids with recv_bundle_finished success
        self.rx_started = set()
        self.rx_finished = set()
        self.popped = set()
        self.closed = False


def install_monitor(run, obs, problems):
    ''' Invariant at every callback boundary. '''
    shadows = {'A': Shadow(), 'B': Shadow()}
    paths = {run.ends[side].path: side for side in ('A', 'B')}

    def on_event(event):
        side = paths.get(event.get('path'))
        if side is None:
            return
        sh = shadows[side]
        if event['kind'] == 'signal' and not event.get('exported', True):
            # emitted on an object that is no longer exported: dbus-python sends nothing, nobody on the bus sees it
            obs['signals_on_unexported_object'] = obs.get('signals_on_unexported_object', 0) + 1
            return
        if event['kind'] == 'signal':
            obs['signals_checked'] += 1
            args = event['args']
            member = event['member']
            if member == 'send_bundle_started':
                sh.started.add(str(args[0]))
            elif member == 'send_bundle_finished':
                tid = str(args[0])
                sh.finished[tid] = sh.finished.get(tid, 0) + 1
                if sh.finished[tid] > 1:
                    problems.append(('finished-twice', '%s: transfer %s got a second send_bundle_finished (%r)' % (side, tid, args[2])))
                if isinstance(args[2], str) and args[2].startswith('refused'):
                    obs['refuse_signals'] += 1
            elif member == 'recv_bundle_started':
                sh.rx_started.add(str(args[0]))
            elif member == 'recv_bundle_finished':
                sh.rx_finished.add(str(args[0]))
                if args[2] == 'success':
                    sh.rx_announced.append(str(args[0]))
        elif event['kind'] == 'return':
            obs['returns_checked'] += 1
            if event['member'] == 'send_bundle_data':
                sh.queued.append(str(event['retval']))

    run.sim.hist.listeners.append(on_event)

    def invariant(where, full=True):
        for side in ('A', 'B'):
            sh = shadows[side]
            hdl = run.ends[side].hdl
            if run.closed(side):
                continue
            obs['invariant_evaluations'] += 1
            # send queue
            want_tx = [tid for tid in sh.queued if tid not in sh.finished]
            got_tx = [str(tid) for tid in (hdl.send_bundle_get_queue() if full else hdl._tx_map.keys())]
            if sorted(got_tx) != sorted(want_tx):
                problems.append(('send-queue', '%s %s: send queue %s, queued-minus-finished is %s' % (side, where, got_tx, want_tx)))
            # receive queue
            want_rx = [tid for tid in sh.rx_announced if tid not in sh.popped]
            got_rx = [str(tid) for tid in (hdl.recv_bundle_get_queue() if full else hdl._rx_map.keys())]
            if got_rx != want_rx:
                problems.append(('recv-queue', '%s %s: receive queue %s, announced-minus-popped is %s' % (side, where, got_rx, want_rx)))
            # idle indication
            if hdl.is_sess_idle():
                obs['idle_true_checked'] += 1
                busy = []
                if want_tx:
                    busy.append('transfers %s queued/in progress/unacknowledged' % want_tx)
                if sh.rx_started - sh.rx_finished:
                    busy.append('transfer %s being received' % sorted(sh.rx_started - sh.rx_finished))
                if hdl.recv_buffer_used():
                    busy.append('%d received octets unprocessed' % hdl.recv_buffer_used())
                if busy:
                    problems.append(('idle-lie', '%s %s: is_sess_idle() is true although %s' % (side, where, '; '.join(busy))))

    def after_callback(node, desc):
        if len(problems) < 5:
            invariant('after %s:%s' % (node.name, desc), full=False)

    run.sim.world.after_callback_hooks.append(after_callback)
    return shadows, invariant


def interleaved_run(scn, rng, obs):
    ''' A scenario with random boundary calls at random steps. '''
    problems = []
    holder = {}
    want_data = {}

    def user(run, step):
        if 'mon' not in holder:
            holder['mon'] = install_monitor(run, obs, problems)
        shadows, invariant = holder['mon']
        if rng.random() > 0.25 or len(problems) >= 5 or step > 3000:
            return
        side = rng.choice(['A', 'B'])
        other = 'B' if side == 'A' else 'A'
        if run.closed(side):
            return
        roll = rng.random()
        if roll < 0.25:
            run.call(side, 'send_bundle_get_queue')
            run.call(side, 'recv_bundle_get_queue')
        elif roll < 0.45:
            run.call(side, 'is_sess_idle')
            run.call(side, 'get_session_state')
            run.call(side, 'is_secure')
            if run.ends[side].hdl._in_sess:
                run.call(side, 'get_session_parameters')
        elif roll < 0.8:
            queue = run.call(side, 'recv_bundle_get_queue')
            if not isinstance(queue, Exception) and len(queue):
                tid = str(rng.choice(list(queue)))
                data = run.call(side, 'recv_bundle_pop_data', tid)
                shadows[side].popped.add(tid)
                obs['pops_checked'] += 1
                sent = {t: p for (t, p, _no) in run.queued[other]}
                if isinstance(data, Exception):
                    problems.append(('pop', '%s: popping announced transfer %s failed: %s' % (side, tid, data)))
                elif bytes(data) != sent.get(tid):
                    problems.append(('pop', '%s: pop of transfer %s returned %d octets that are not what %s queued' % (side, tid, len(data), other)))
                again = run.call(side, 'recv_bundle_get_queue')
                if not isinstance(again, Exception) and tid in [str(x) for x in again]:
                    problems.append(('pop', '%s: transfer %s still listed after it was popped' % (side, tid)))
        elif holder.setdefault('extra_sends', 0) < 5:
            holder['extra_sends'] += 1
            idx = len(run.queued[side]) + 50
            run.send(side, payload_for(side, idx, rng.choice([0, 1, 30, 700])))
        invariant('after boundary call at step %d' % step)

    def created(run):
        holder['mon'] = install_monitor(run, obs, problems)

    run, result = scen.execute(scn, on_step=user, max_steps=120000, on_create=created)
    obs['runs'] += 1
    if 'mon' not in holder:
        holder['mon'] = install_monitor(run, obs, problems)
    shadows, invariant = holder['mon']
    if result != 'quiescent':
        return None, run
    # type conformance
    for viol in run.sim.hist.sig_violations:
        problems.append(('type', '%s %s.%s%r does not marshal as %r: %s %s' % (viol.kind, viol.iface, viol.member, viol.args_repr[:80], viol.signature,
                                                                               viol.exc_type, viol.msg[:60])))
    errs = run.callback_errors()
    if errs:
        problems.append(('raised', 'callback %s of %s raised %s: %s' % (errs[0].source, errs[0].node, errs[0].exc_type, str(errs[0].exc)[:80])))
    # at quiescence, everything drained => idle
    for side in ('A', 'B'):
        if run.closed(side):
            continue
        sh = shadows[side]
        unfinished = [tid for tid in sh.queued if tid not in sh.finished]
        if not unfinished and not (sh.rx_started - sh.rx_finished):
            if not run.ends[side].hdl.is_sess_idle():
                hdl = run.ends[side].hdl
                problems.append(('never-idle', '%s: world is quiescent, every transfer finished, but is_sess_idle() is false '
                                 '(receive buffer %d octets, transmit buffer %d)' % (side, hdl.recv_buffer_used(), hdl.send_buffer_used())))
    return problems, run


# ---------------------------------------------------------------- scripted peer: every contact signal incl. refusal

def refusal_run(role, variant, obs):
    from vf.props import c17
    from vf.oracles import tcpcl_wire as tw
    peer = c17.Peer(role, 'idle')
    problems = []
    # the endpoint queues two bundles; the peer refuses the first (while in progress or after its end), acknowledges the second
    tid1 = peer.queue_own()
    tid2 = peer.queue_own()
    peer.settle()
    segs = [m for m in peer.seen if m['type'] == 'XFER_SEGMENT']
    if variant == 'refuse-in-progress' and segs:
        peer.write(tw.encode(dict(type='XFER_ACK', flags=segs[0]['flags'], transfer_id=segs[0]['transfer_id'], length=len(segs[0]['data']))))
        peer.acked[segs[0]['transfer_id']] = len(segs[0]['data'])
    peer.write(tw.encode(dict(type='XFER_REFUSE', reason=variant.endswith('2') and 3 or 2, transfer_id=int(tid1))))
    peer.settle()
    peer.write(tw.encode(dict(type='MSG_REJECT', reason=3, rej_msg_id=1)))
    peer.cooperate()
    obs['runs'] += 1
    for viol in peer.sim.hist.sig_violations:
        problems.append(('type', '%s %s.%s%r does not marshal as %r: %s %s' % (viol.kind, viol.iface, viol.member, viol.args_repr[:80], viol.signature,
                                                                               viol.exc_type, viol.msg[:60])))
    errs = peer.sim.world.callback_errors
    if errs:
        problems.append(('raised', 'callback %s raised %s: %s' % (errs[0].source, errs[0].exc_type, str(errs[0].exc)[:80])))
    fins = {}
    for ev in peer.sim.hist.signals('send_bundle_finished'):
        obs['signals_checked'] += 1
        fins.setdefault(str(ev['args'][0]), []).append(ev['args'][2])
        if isinstance(ev['args'][2], str) and ev['args'][2].startswith('refused'):
            obs['refuse_signals'] += 1
    if len(fins.get(tid1, [])) != 1 or not str(fins.get(tid1, [''])[0]).startswith('refused'):
        problems.append(('refuse', 'refused transfer %s finished with %s' % (tid1, fins.get(tid1))))
    if not errs and fins.get(tid2) != ['success'] and not peer.closed():
        problems.append(('refuse', 'transfer %s behind the refused one finished with %s' % (tid2, fins.get(tid2))))
    if not peer.closed() and not errs:
        queue = [str(x) for x in peer.end.hdl.send_bundle_get_queue()]
        if queue:
            problems.append(('send-queue', 'send queue still lists %s after both transfers finished' % queue))
        elif len(fins) == 2 and not peer.end_sock.rx.used():
            # everything has drained: one transfer refused, the other acknowledged to its end, nothing received is waiting
            idle = peer.end.call('is_sess_idle')
            obs['idle_checked'] = obs.get('idle_checked', 0) + 1
            if not bool(idle):
                problems.append(('idle', 'is_sess_idle() is %r after every transfer finished (%s) and the send queue is empty' % (
                    bool(idle), dict((tid, res[0]) for (tid, res) in fins.items()))))
    return problems


def peer_lengths_run(role, total, obs):
    ''' Incoming transfers whose START segment announces a total length across the integer widths a variant can carry; every
    receive signal must marshal and the transfers behind it must still be announced. '''
    from vf.props import c17
    from vf.oracles import tcpcl_wire as tw
    peer = c17.Peer(role, 'idle')
    problems = []
    peer.write(tw.encode(dict(type='XFER_SEGMENT', flags=tw.FLAG_START, transfer_id=301, ext=[tw.transfer_length_ext(total)] if total is not None else [],
                              data=b'abc')))
    peer.settle()
    peer.write(tw.encode(dict(type='XFER_SEGMENT', flags=tw.FLAG_END, transfer_id=301, data=b'def')))
    peer.settle()
    peer.write(tw.encode(dict(type='XFER_SEGMENT', flags=tw.FLAG_START | tw.FLAG_END, transfer_id=302, ext=[tw.transfer_length_ext(4)], data=b'wxyz')))
    peer.settle()
    obs['runs'] += 1
    for viol in peer.sim.hist.sig_violations:
        problems.append(('type', '%s %s.%s%r does not marshal as %r: %s %s' % (viol.kind, viol.iface, viol.member, viol.args_repr[:80], viol.signature,
                                                                               viol.exc_type, viol.msg[:60])))
    errs = peer.sim.world.callback_errors
    if errs:
        problems.append(('raised', 'callback %s raised %s: %s (announced total length %r)' % (errs[0].source, errs[0].exc_type, str(errs[0].exc)[:80], total)))
    started = [str(ev['args'][0]) for ev in peer.sim.hist.signals('recv_bundle_started')]
    finished = [str(ev['args'][0]) for ev in peer.sim.hist.signals('recv_bundle_finished')]
    obs['signals_checked'] += len(started) + len(finished)
    if not peer.closed() and (started != ['301', '302'] or finished != ['301', '302']):
        problems.append(('recv-signals', 'two incoming transfers (first announces total length %r): started %s, finished %s' % (total, started, finished)))
    return problems


def pop_file_fails_run(role, obs):
    ''' recv_bundle_pop_file() to a path that cannot be written answers with an error: nothing was handed out, so the transfer is
    still listed and its data can still be popped (once). '''
    import os
    import tempfile
    from vf.props import c17
    from vf.oracles import tcpcl_wire as tw
    peer = c17.Peer(role, 'idle')
    problems = []
    data = b'kept-until-really-popped'
    peer.write(tw.encode(dict(type='XFER_SEGMENT', flags=tw.FLAG_START | tw.FLAG_END, transfer_id=77, ext=[tw.transfer_length_ext(len(data))], data=data)))
    peer.settle()
    obs['runs'] += 1
    if peer.closed() or '77' not in [str(x) for x in peer.end.call('recv_bundle_get_queue')]:
        return None
    scratch = tempfile.mkdtemp(prefix='vf-pop-')
    try:
        failed = False
        try:
            peer.end.call('recv_bundle_pop_file', '77', os.path.join(scratch, 'no-such-dir', 'out.bin'))
        except Exception:  # pylint: disable=broad-except
            failed = True
        if not failed:
            return None
        obs['pops_checked'] += 1
        queue = [str(x) for x in peer.end.call('recv_bundle_get_queue')]
        if queue != ['77']:
            problems.append(('pop', 'recv_bundle_pop_file() failed (unwritable path) and handed nothing out, but the receive queue now lists %s '
                             'instead of the announced transfer 77' % queue))
        else:
            good = os.path.join(scratch, 'out.bin')
            peer.end.call('recv_bundle_pop_file', '77', good)
            import gc
            gc.collect()
            if open(good, 'rb').read() != data:
                problems.append(('pop', 'after a failed and then a successful recv_bundle_pop_file() the file holds %d octets, the transfer had %d' % (
                    os.path.getsize(good), len(data))))
    finally:
        import shutil
        shutil.rmtree(scratch, ignore_errors=True)
    return problems


def peer_reuse_run(role, pop_between, obs):
    ''' The peer uses a transfer id twice (a peer bug or a restart): whatever the endpoint makes of the second transfer, its own
    announcements and its receive queue stay consistent: ids announced and not yet popped == ids listed, each pop returns what was
    announced under that id, exactly once. '''
    from vf.props import c17
    from vf.oracles import tcpcl_wire as tw
    peer = c17.Peer(role, 'idle')
    problems = []
    datas = [b'first-bundle', b'second-bundle-longer']
    popped = []
    for idx, data in enumerate(datas):
        peer.write(tw.encode(dict(type='XFER_SEGMENT', flags=tw.FLAG_START | tw.FLAG_END, transfer_id=301, ext=[tw.transfer_length_ext(len(data))], data=data)))
        peer.settle()
        if idx == 0 and pop_between and not peer.closed():
            popped.append(bytes(peer.end.call('recv_bundle_pop_data', '301')))
    obs['runs'] += 1
    errs = peer.sim.world.callback_errors
    if errs:
        return [('raised', 'callback %s raised %s: %s' % (errs[0].source, errs[0].exc_type, str(errs[0].exc)[:80]))]
    for viol in peer.sim.hist.sig_violations:
        problems.append(('type', '%s %s.%s does not marshal: %s' % (viol.kind, viol.iface, viol.member, viol.msg[:60])))
    announced = [str(ev['args'][0]) for ev in peer.sim.hist.signals('recv_bundle_finished')]
    obs['signals_checked'] += len(announced)
    if peer.closed():
        return problems
    queue = [str(x) for x in peer.end.call('recv_bundle_get_queue')]
    want = list(announced)
    for _ in popped:
        want.remove('301')
    if sorted(queue) != sorted(want):
        problems.append(('recv-queue', 'the peer used transfer id 301 twice%s: announced as finished %s, popped %d, but the receive queue lists %s' % (
            ' (popped in between)' if pop_between else '', announced, len(popped), queue)))
        return problems
    for tid in queue:
        popped.append(bytes(peer.end.call('recv_bundle_pop_data', tid)))
    obs['pops_checked'] += len(popped)
    if sorted(popped) != sorted(datas[:len(popped)]) and sorted(popped) != sorted(datas[-len(popped):]):
        problems.append(('pop', 'pops returned %s for transfers %s' % ([p[:14] for p in popped], [d[:14] for d in datas])))
    return problems


# ---------------------------------------------------------------- two real tcpcl agents

def agent_run(params, obs):
    import tcpcl.agent
    from vf.world.sim import Sim
    from vf.world import net as vnet
    from vf import tcpcl_harness as th
    sim = Sim(seed=params['seed'], policy=params['policy'])
    fake = vnet.FakeSocketModule(sim.net)
    orig = tcpcl.agent.socket
    tcpcl.agent.socket = fake
    problems = []
    try:
        sim.net.node_addr.update({'A': '10.0.0.1', 'B': '10.0.0.2'})
        cfgs = {}
        agents = {}
        stops = {'A': [], 'B': []}
        for name in ('A', 'B'):
            cfg = th.make_config('dtn://agent-%s/' % name.lower(), segment_size_tx_initial=50, stop_on_close=bool(params.get('stop_on_close')))
            cfg.bus_service = None
            cfgs[name] = cfg
            with sim.as_node(name):
                agents[name] = tcpcl.agent.Agent(cfg, bus_kwargs=dict(conn=cfg.bus_conn, object_path='/org/ietf/dtn/tcpcl/Agent'))
                agents[name].set_on_stop(lambda name=name: stops[name].append(sim.world.event_no))
        with sim.as_node('B'):
            th._bus_call(sim, 'B', agents['B'], '/org/ietf/dtn/tcpcl/Agent', type(agents['B']).listen, 'listen', ('10.0.0.2', dbus.UInt16(4556)))
        paths = []
        for _ in range(params['contacts']):
            path = th._bus_call(sim, 'A', agents['A'], '/org/ietf/dtn/tcpcl/Agent', type(agents['A']).connect, 'connect',
                                ('10.0.0.2', dbus.UInt16(4556)))
            paths.append(str(path))
            if params['stagger']:
                sim.run(params['stagger'])
        # some traffic on each contact
        sim.run(params['pre_steps'])
        for idx, path in enumerate(paths):
            hdl = agents['A'].handler_for_path(path) if path in agents['A']._path_to_handler else None
            if params.get('asym') and idx != params['asym'] - 1:
                continue    # the other contacts stay idle: they finish their termination while this one is still busy
            if hdl is not None and params['bundles']:
                for bidx in range(params['bundles']):
                    th._bus_call(sim, 'A', hdl, path, type(hdl).send_bundle_data, 'send_bundle_data',
                                 (dbus.ByteArray(payload_for('A', idx * 7 + bidx, 6000 if params.get('asym') else 120)),))
        sim.run(params['mid_steps'])
        if params.get('pre_terminate'):
            # a contact is already terminating (its user asked for that) when the agent is told to shut down
            for path in paths[:1]:
                hdl = agents['A'].handler_for_path(path) if path in agents['A']._path_to_handler else None
                if hdl is not None:
                    try:
                        th._bus_call(sim, 'A', hdl, path, type(hdl).terminate, 'terminate', (dbus.Byte(0),))
                    except Exception:  # pylint: disable=broad-except
                        pass
            sim.run(params['pre_terminate'])
        conns = th._bus_call(sim, 'A', agents['A'], '/org/ietf/dtn/tcpcl/Agent', type(agents['A']).get_connections, 'get_connections', ())
        n_open_before = len(list(conns))
        shutdown_err = None
        try:
            if params.get('stop'):
                # the immediate way: every session of the agent is disconnected
                res = th._bus_call(sim, params['who'], agents[params['who']], '/org/ietf/dtn/tcpcl/Agent', type(agents['A']).stop, 'stop', ())
            else:
                res = th._bus_call(sim, params['who'], agents[params['who']], '/org/ietf/dtn/tcpcl/Agent', type(agents['A']).shutdown, 'shutdown', ())
        except Exception as err:  # pylint: disable=broad-except
            shutdown_err = err
            res = None
        result = sim.run(200000)
        obs['agent_scenarios'] += 1
        obs['runs'] += 1
        for viol in sim.hist.sig_violations:
            problems.append(('type', '%s %s.%s%r does not marshal as %r: %s %s' % (viol.kind, viol.iface, viol.member, viol.args_repr[:80],
                                                                                   viol.signature, viol.exc_type, viol.msg[:60])))
        obs['signals_checked'] += len([ev for ev in sim.hist.events if ev['kind'] == 'signal'])
        obs['returns_checked'] += len([ev for ev in sim.hist.events if ev['kind'] == 'return'])
        if sim.world.callback_errors:
            err = sim.world.callback_errors[0]
            problems.append(('raised', 'callback %s of %s raised %s: %s' % (err.source, err.node, err.exc_type, str(err.exc)[:80])))
        if result != 'quiescent':
            return None
        who = params['who']
        if shutdown_err is not None:
            # the agent accepted the call; an exception that leaves contacts open is a half-open failure
            still = [hdl for hdl in agents[who]._handlers]
            if still:
                problems.append(('shutdown', 'shutdown() of agent %s raised %s: %s and %d contact(s) stayed open' % (
                    who, type(shutdown_err).__name__, str(shutdown_err)[:60], len(still))))
        else:
            for name in ('A', 'B'):
                if agents[name]._handlers:
                    states = [hdl._state for hdl in agents[name]._handlers]
                    problems.append(('shutdown', 'world is quiescent after %s of agent %s but agent %s still has %d open contact(s) in states %s' % (
                        'stop()' if params.get('stop') else 'shutdown()', who, name, len(states), states)))
            if not stops[who]:
                problems.append(('shutdown', 'agent %s never ran its stop callback after shutdown()' % who))
            opened = [ev for ev in sim.hist.events if ev['kind'] == 'signal' and ev['member'] == 'connection_opened' and ev['node'] == who]
            closed = [ev for ev in sim.hist.events if ev['kind'] == 'signal' and ev['member'] == 'connection_closed' and ev['node'] == who]
            opened_paths = sorted(str(ev['args'][0]) for ev in opened)
            closed_paths = sorted(str(ev['args'][0]) for ev in closed)
            if opened_paths != closed_paths:
                problems.append(('shutdown', 'agent %s: connection_opened for %s, connection_closed for %s' % (who, opened_paths, closed_paths)))
            # shutdown() is the graceful end of every session: whatever was started on any contact is finished exactly once
            for (started, finished) in () if params.get('stop') else (('send_bundle_started', 'send_bundle_finished'), ('recv_bundle_started', 'recv_bundle_finished')):
                begun = {}
                for ev in sim.hist.events:
                    if ev['kind'] == 'signal' and ev.get('exported', True) and ev['member'] in (started, finished):
                        key = (ev['node'], ev['path'], str(ev['args'][0]))
                        rec = begun.setdefault(key, [0, 0])
                        rec[0 if ev['member'] == started else 1] += 1
                for key, (n_start, n_fin) in sorted(begun.items()):
                    obs['agent_transfers_checked'] = obs.get('agent_transfers_checked', 0) + 1
                    if n_start and n_fin != 1:
                        problems.append(('shutdown', 'after shutdown() of agent %s (%d contacts): transfer %s on %s of node %s has %d %s and %d %s signal(s)' % (
                            who, params['contacts'], key[2], key[1].rsplit('/', 1)[-1], key[0], n_start, started, n_fin, finished)))
    finally:
        tcpcl.agent.socket = orig
    return problems


# ---------------------------------------------------------------- UDPCL agent

def udpcl_run(params, obs):
    import cbor2
    import udpcl.agent
    import udpcl.config
    from vf.world.sim import Sim, install_clock
    from vf.world import net as vnet
    from vf import tcpcl_harness as th
    sim = Sim(seed=params['seed'], policy='eager')
    fake = vnet.FakeSocketModule(sim.net)
    orig = udpcl.agent.socket
    udpcl.agent.socket = fake
    install_clock()
    problems = []
    try:
        cfg = udpcl.config.Config(node_id='dtn://udp-a/', mtu_default=params.get('mtu'), default_tx_address='10.0.0.1', default_tx_port=24556)
        cfg._bus_conn = dbus.bus.BusConnection('vf-udp')
        with sim.as_node('U'):
            agent = udpcl.agent.Agent(cfg, bus_kwargs=dict(conn=cfg.bus_conn, object_path='/org/ietf/dtn/udpcl/Agent'))
        path = '/org/ietf/dtn/udpcl/Agent'
        th._bus_call(sim, 'U', agent, path, type(agent).listen, 'listen', ('10.0.0.1', dbus.Int32(4556), dbus.Dictionary({}, signature='sv')))
        lsock = list(agent._bindsocks.values())[0]
        conv_from = ('10.0.0.9', 5555)
        rng = random.Random(params['seed'])
        for dgram in params['datagrams'](rng, cbor2):
            lsock.queue.append((dgram, [], conv_from))
            obs['udpcl_datagrams'] += 1
            sim.settle(2000)
        # outgoing transfers through the D-Bus method
        for length in params.get('sends', []):
            th._bus_call(sim, 'U', agent, path, type(agent).send_bundle_data, 'send_bundle_data',
                         (dbus.ByteArray(b'\x9f' + bytes(length) + b'\xff'), dbus.Dictionary({'address': '10.0.0.9', 'port': dbus.Int32(4556)}, signature='sv')))
        # and to a destination the kernel refuses every datagram for (the limited broadcast address): whatever the agent makes of it, no
        # transfer gets more than one finished signal
        for length in params.get('sends', [])[:1]:
            th._bus_call(sim, 'U', agent, path, type(agent).send_bundle_data, 'send_bundle_data',
                         (dbus.ByteArray(b'\x9f' + bytes(length) + b'\xff'), dbus.Dictionary({'address': '255.255.255.255', 'port': dbus.Int32(4556)}, signature='sv')))
            obs['udpcl_refused_destinations'] = obs.get('udpcl_refused_destinations', 0) + 1
        sim.run(200000)
        del sim.world.callback_errors[:]
        fin_count = {}
        for ev in sim.hist.events:
            if ev['kind'] == 'signal' and ev['member'] == 'send_bundle_finished' and ev.get('exported', True):
                fin_count[str(ev['args'][0])] = fin_count.get(str(ev['args'][0]), 0) + 1
        for tid, num in sorted(fin_count.items()):
            if num > 1:
                problems.append(('udp-finished', 'udpcl: transfer %s got %d send_bundle_finished signals %s' % (
                    tid, num, [str(ev['args'][2]) for ev in sim.hist.events if ev['kind'] == 'signal' and ev['member'] == 'send_bundle_finished'
                               and str(ev['args'][0]) == tid]), 'send_bundle_finished'))
        queue = th._bus_call(sim, 'U', agent, path, type(agent).recv_bundle_get_queue, 'recv_bundle_get_queue', ())
        # consistency of the receive view: ids announced as finished are distinct, the queue lists exactly those not yet popped,
        # every pop returns one of the bundles that arrived, each exactly once
        announced = [str(ev['args'][0]) for ev in sim.hist.events if ev['kind'] == 'signal' and ev['member'] == 'recv_bundle_finished'
                     and ev.get('exported', True)]
        if len(set(announced)) != len(announced):
            problems.append(('udp-queue', 'udpcl: recv_bundle_finished announced ids %s (an id is used twice)' % announced, 'recv_bundle_finished'))
        if [str(tid) for tid in queue] != announced:
            problems.append(('udp-queue', 'udpcl: receive queue %s, announced and not popped %s' % ([str(tid) for tid in queue], announced), 'recv_bundle_get_queue'))
        expect = list(params.get('expect_bundles', []))
        popped = []
        if list(queue):
            # a pop to a path that cannot be written fails and hands nothing out: the transfer stays listed and can still be popped
            import os
            import tempfile
            scratch = tempfile.mkdtemp(prefix='vf-c18-')
            try:
                try:
                    th._bus_call(sim, 'U', agent, path, type(agent).recv_bundle_pop_file, 'recv_bundle_pop_file',
                                 (str(list(queue)[0]), os.path.join(scratch, 'no-such-dir', 'out.bin')))
                    problems.append(('udp-queue', 'udpcl: recv_bundle_pop_file() to an unwritable path did not fail', 'recv_bundle_pop_file'))
                except Exception:  # pylint: disable=broad-except
                    pass
                obs['udpcl_failed_pops'] = obs.get('udpcl_failed_pops', 0) + 1
                still = th._bus_call(sim, 'U', agent, path, type(agent).recv_bundle_get_queue, 'recv_bundle_get_queue', ())
                if [str(tid) for tid in still] != [str(tid) for tid in queue]:
                    problems.append(('udp-queue', 'udpcl: recv_bundle_pop_file() failed (unwritable path) and handed nothing out, but the receive queue now '
                                     'lists %s instead of %s' % ([str(tid) for tid in still], [str(tid) for tid in queue]), 'recv_bundle_pop_file'))
                    queue = still
            finally:
                os.rmdir(scratch)
        for tid in list(queue):
            popped.append(bytes(th._bus_call(sim, 'U', agent, path, type(agent).recv_bundle_pop_data, 'recv_bundle_pop_data', (str(tid),))))
        if 'expect_bundles' in params:
            obs['udpcl_queue_checks'] = obs.get('udpcl_queue_checks', 0) + 1
            if sorted(popped) != sorted(expect):
                problems.append(('udp-queue', 'udpcl: popped bundles of lengths %s, arrived complete were %s' % (
                    sorted(len(item) for item in popped), sorted(len(item) for item in expect)), 'recv_bundle_pop_data'))
        left = th._bus_call(sim, 'U', agent, path, type(agent).recv_bundle_get_queue, 'recv_bundle_get_queue', ())
        if list(left):
            problems.append(('udp-queue', 'udpcl: receive queue still lists %s after every id was popped' % list(left), 'recv_bundle_get_queue'))
        obs['runs'] += 1
        obs['signals_checked'] += len([ev for ev in sim.hist.events if ev['kind'] == 'signal'])
        obs['returns_checked'] += len([ev for ev in sim.hist.events if ev['kind'] == 'return'])
        for viol in sim.hist.sig_violations:
            problems.append(('type', 'udpcl %s %s%r does not marshal as %r: %s %s' % (viol.kind, viol.member, viol.args_repr[:90], viol.signature,
                                                                                       viol.exc_type, viol.msg[:60]), viol.member))
    finally:
        udpcl.agent.socket = orig
    return problems


def _udp_benign(rng, cbor2):
    out = [cbor2.dumps({3: 60000, 4: 'dtn://peer/'}), b'\x9f\x01\x02\xff', cbor2.dumps({2: [7, 10, 0, b'01234']}), cbor2.dumps({2: [7, 10, 5, b'56789']})]
    rng.shuffle(out)
    return out


def _bundle(tag, length):
    return b'\x9f' + bytes([tag]) * length + b'\xff'


def _udp_mixed_ids(order):
    ''' Whole bundles and segmented transfers whose peer-chosen transfer ids coincide with local receive ids. '''
    def make(rng, cbor2):
        big1, big2, big3 = _bundle(0x11, 40), _bundle(0x12, 30), _bundle(0x13, 43)
        parts = {
            'w1': [_bundle(0x01, 5)], 'w2': [_bundle(0x02, 6)], 'w3': [_bundle(0x03, 7)],
            's1': [cbor2.dumps({2: [1, len(big1), 0, big1[:20]]}), cbor2.dumps({2: [1, len(big1), 20, big1[20:]]})],
            's0': [cbor2.dumps({2: [0, len(big2), 0, big2[:10]]}), cbor2.dumps({2: [0, len(big2), 10, big2[10:]]})],
            # three segments, the middle one last
            't7': [cbor2.dumps({2: [7, len(big3), 0, big3[:15]]}), cbor2.dumps({2: [7, len(big3), 30, big3[30:]]}), cbor2.dumps({2: [7, len(big3), 15, big3[15:30]]})],
        }
        out = []
        for name in order:
            out += parts[name]
        return out
    return make


_UDP_MIXED = {'w1': _bundle(0x01, 5), 'w2': _bundle(0x02, 6), 'w3': _bundle(0x03, 7), 's1': _bundle(0x11, 40), 's0': _bundle(0x12, 30), 't7': _bundle(0x13, 43)}


def _udp_hostile(rng, cbor2):
    return [
        cbor2.dumps({3: 1000, 4: 12345}),                 # node id not text
        cbor2.dumps({3: 1000, 4: b'\xff\xfe'}),           # node id not UTF-8
        cbor2.dumps({3: 2 ** 40, 4: 'dtn://x/'}),         # interval beyond int32
        cbor2.dumps({3: 1000}),                           # node id absent
        cbor2.dumps({3: 1000, 4: ['a']}),
        cbor2.dumps({3: 1000, 4: None}),
    ]


def cases(tier, seed):
    out = []
    thorough = tier == 'thorough'
    for idx in range(600 if thorough else 40):
        out.append(dict(id='mix-%d' % idx, kind='mix', seed=seed * 6007 + idx, count=10))
    for role in ('passive', 'active'):
        for variant in ('refuse-after-end', 'refuse-in-progress', 'refuse-after-end2'):
            out.append(dict(id='refuse-%s-%s' % (role, variant), kind='refuse', role=role, variant=variant))
    for role in ('passive', 'active'):
        for total in (None, 0, 6, 2 ** 31 - 1, 2 ** 31, 2 ** 32 + 5, 2 ** 63, 2 ** 64 - 1):
            out.append(dict(id='peerlen-%s-%s' % (role, total), kind='peerlen', role=role, total=total))
    for role in ('passive', 'active'):
        out.append(dict(id='pop-file-%s' % role, kind='pop-file', role=role))
        out.append(dict(id='early-final-ack-%s' % role, kind='early-final-ack', role=role))
    for role in ('passive', 'active'):
        for pop_between in (False, True):
            out.append(dict(id='peer-reuse-%s-%s' % (role, pop_between), kind='peer-reuse', role=role, pop_between=pop_between))
    idx = 0
    for contacts in (0, 1, 2, 3):
        for who in ('A', 'B'):
            for pre in ((0, 0), (40, 0), (40, 30), (200, 200)):
                for bundles in (0, 2):
                    if not thorough and (idx % 3) and contacts:
                        idx += 1
                        continue
                    out.append(dict(id='agent-%d' % idx, kind='agent', contacts=contacts, who=who, pre_steps=pre[0], mid_steps=pre[1],
                                    bundles=bundles, seed=seed + idx, policy=['fair', 'rr', 'burst'][idx % 3], stagger=(idx % 2) * 15))
                    idx += 1
    # one busy contact (a long multi-segment transfer under way), the others idle: they finish their termination first
    for contacts in (2, 3):
        for who in ('A', 'B'):
            for asym in (1, contacts):
                for policy in ('fair', 'rr'):
                    out.append(dict(id='agent-asym-%d-%s-%d-%s' % (contacts, who, asym, policy), kind='agent', contacts=contacts, who=who, pre_steps=60,
                                    mid_steps=25, bundles=1, asym=asym, seed=seed + contacts, policy=policy, stagger=0,
                                    stop_on_close=(policy == 'rr')))
    for who in ('A', 'B'):
        for steps in (1, 4, 12):
            out.append(dict(id='agent-preterm-%s-%d' % (who, steps), kind='agent', contacts=2, who=who, pre_steps=60, mid_steps=25, bundles=1, asym=1,
                            seed=seed + steps, policy='fair', stagger=0, pre_terminate=steps))
    for who in ('A', 'B'):
        for contacts in (1, 2, 3, 4):
            out.append(dict(id='agent-stop-%s-%d' % (who, contacts), kind='agent', contacts=contacts, who=who, pre_steps=60, mid_steps=10, bundles=1,
                            seed=seed + contacts, policy='fair', stagger=0, stop=True))
    # secured sessions: the parameters reported about them carry the identifiers taken from the peer certificate
    out.append(dict(id='tls-params', kind='tls-params'))
    out.append(dict(id='udp-benign', kind='udp', which='benign', seed=seed, mtu=None, sends=[10, 500]))
    out.append(dict(id='udp-benign-mtu', kind='udp', which='benign', seed=seed + 1, mtu=100, sends=[10, 99, 100, 400]))
    out.append(dict(id='udp-hostile', kind='udp', which='hostile', seed=seed + 2, mtu=None, sends=[]))
    for oidx, order in enumerate((['w1', 's1', 'w2'], ['s0', 'w1'], ['w1', 'w2', 's1', 's0', 'w3'], ['s1', 's0', 'w1', 'w2'], ['w1', 's0', 's1'], ['t7'], ['w1', 't7', 's1'])):
        out.append(dict(id='udp-ids-%d' % oidx, kind='udp', which='ids', order=order, seed=seed + 10 + oidx, mtu=None, sends=[]))
    from vf import stackcases  # pylint: disable=import-outside-toplevel
    stackcases.add_cases(out, tier, seed)
    return out


def classify(kind, text, extra=None):
    if kind == 'type' and extra == 'polling_received':
        return 'C18/udpcl-polling-received-peer-supplied-values-unchecked'
    return None


def run_case(case):
    if case.get('kind') == 'stack':
        from vf import stackcases  # pylint: disable=import-outside-toplevel
        return stackcases.run_block(PROPERTY_ID, case)
    obs = dict(runs=0, signals_checked=0, returns_checked=0, invariant_evaluations=0, idle_true_checked=0, pops_checked=0,
               agent_scenarios=0, udpcl_datagrams=0, refuse_signals=0, budget_exhausted=0)
    violations = []
    classes = set()
    sample = None
    evaluations = 0

    def note(problems, tag, desc, cls):
        nonlocal sample, evaluations
        evaluations += 1
        if problems is None:
            obs['budget_exhausted'] += 1
            return
        classes.add(cls)
        if sample is None:
            sample = dict(kind=tag, what=desc)
        for item in problems:
            kind, text = item[0], item[1]
            extra = item[2] if len(item) > 2 else None
            violations.append(dict(key=classify(kind, text, extra), what='[%s/%s] %s' % (tag, kind, text), detail=dict(case=desc)))

    if case['kind'] == 'mix':
        rng = random.Random(case['seed'])
        for idx in range(case['count']):
            scn = scen.random_scenario(rng, idx)
            if scn['policy'] == 'octet':
                scn['policy'] = 'fair'
            term = None
            if rng.random() < 0.4:
                term = dict(cut=rng.choice([5, 20, 60, 150, 300]), who=rng.choice(['A', 'B', 'both']))
            sub_rng = random.Random(rng.randrange(1 << 30))
            if term:
                # run with a termination request on top of the interleaved boundary calls
                scn2 = dict(scn)
                record = []
                acts_holder = {}

                def do_term(run, term=term, record=record):
                    c09._do_action(run, term['who'], 'terminate', record)
                problems = []
                holder = {}
                def created(run, holder=holder, problems=problems):
                    holder['mon'] = install_monitor(run, obs, problems)
                run, result = scen.execute(scn2, actions=[dict(at=term['cut'], fn=do_term)],
                                           on_step=_make_user(sub_rng, obs, problems, holder), max_steps=120000, on_create=created)
                obs['runs'] += 1
                if result != 'quiescent':
                    note(None, 'mix', scn, 'x')
                    continue
                _final(run, holder, obs, problems, graceful=any(rec[2] for rec in record))
                note(problems, 'mix', dict(scenario=scn, terminate=term), '%s|%s' % (hash(repr(scn)) & 0xFFFFFFFF, run.sim.world.sched_hash))
            else:
                problems, run = interleaved_run(scn, sub_rng, obs)
                note(problems, 'mix', dict(scenario=scn), '%s|%s' % (hash(repr(scn)) & 0xFFFFFFFF, run.sim.world.sched_hash))
    elif case['kind'] == 'refuse':
        note(refusal_run(case['role'], case['variant'], obs), 'refuse', dict(role=case['role'], variant=case['variant']),
             'refuse|%s|%s' % (case['role'], case['variant']))
    elif case['kind'] == 'early-final-ack':
        # a final XFER_ACK naming an own bundle that is still waiting in the queue (the C17 history): the signals about that bundle
        # stay in order - no finished signal ahead of its being sent - and the view drains (idle) in the end
        from vf.props import c17
        from vf.oracles import tcpcl_wire as tw
        import collections
        obs17 = collections.defaultdict(int)
        for extra in (1, 2):
            for flags in (tw.FLAG_END, tw.FLAG_START | tw.FLAG_END):
                problems17, _oop = c17.run_early_ack(case['role'], extra, flags, obs17)
                obs['runs'] += 1
                note([(kind, text) for (kind, text, _d) in problems17 if kind in ('own-transfer', 'raised')], 'early-final-ack',
                     dict(role=case['role'], extra=extra, flags=flags), 'early-final-ack|%s|%d|%d' % (case['role'], extra, flags))
    elif case['kind'] == 'pop-file':
        note(pop_file_fails_run(case['role'], obs), 'pop-file', dict(role=case['role']), 'pop-file|%s' % case['role'])
    elif case['kind'] == 'peer-reuse':
        note(peer_reuse_run(case['role'], case['pop_between'], obs), 'peer-reuse', dict(role=case['role'], pop_between=case['pop_between']),
             'peer-reuse|%s|%s' % (case['role'], case['pop_between']))
    elif case['kind'] == 'peerlen':
        note(peer_lengths_run(case['role'], case['total'], obs), 'peerlen', dict(role=case['role'], total=case['total']),
             'peerlen|%s|%s' % (case['role'], case['total']))
    elif case['kind'] == 'agent':
        params = {k: case[k] for k in ('contacts', 'who', 'pre_steps', 'mid_steps', 'bundles', 'seed', 'policy', 'stagger', 'asym', 'stop_on_close', 'pre_terminate', 'stop') if k in case}
        note(agent_run(params, obs), 'agent', params, 'agent|%s' % sorted(params.items()))
    elif case['kind'] == 'tls-params':
        # the C15 harness (fake TLS layer, real certificates) drives sessions to 'established'; here only the types of what the
        # endpoint then reports over the bus are judged
        from vf.props import c15
        import collections
        obs15 = collections.defaultdict(int)
        for naming in ('passive', 'active-addr', 'active-dns'):
            for (ip, dns, uri) in (('match', 'absent', 'match'), ('match', 'match', 'match'), ('absent', 'match', 'absent'), ('both', 'both', 'both'),
                                   ('absent', 'absent', 'match'), ('match', 'absent', 'absent')):
                row = dict(local_can=True, peer_can=True, require=None, hs_ok=True, naming=naming, ip=ip, dns=dns, uri=uri, req_host=False, req_node=False)
                problems15, _want = c15.run_row(row, obs15)
                obs['runs'] += 1
                obs['tls_param_reports'] = obs.get('tls_param_reports', 0) + 1
                note([(kind, text) for (kind, text, _d) in problems15 if kind in ('type', 'raised')], 'tls-params', dict(row=c15._short(row)),
                     'tls|%s|%s|%s|%s' % (naming, ip, dns, uri))
    else:
        params = dict(seed=case['seed'], mtu=case['mtu'], sends=case['sends'],
                      datagrams=_udp_benign if case['which'] == 'benign' else _udp_hostile)
        if case['which'] == 'ids':
            params['datagrams'] = _udp_mixed_ids(case['order'])
            params['expect_bundles'] = [_UDP_MIXED[name] for name in case['order']]
        note(udpcl_run(params, obs), 'udp', dict(which=case['which'], mtu=case['mtu'], order=case.get('order')),
             'udp|%s|%s|%s' % (case['which'], case['mtu'], case.get('order')))
    uniq = {}
    for viol in violations:
        uniq.setdefault((viol['key'], viol['what'][:90]), viol)
    violations = list(uniq.values())[:14]
    return dict(verdict='violated' if violations else 'held', nontrivial=bool(classes), cls=classes, obs=obs,
                violations=violations, sample=sample, evaluations=evaluations)


def _make_user(rng, obs, problems, holder):
    def user(run, step):
        if 'mon' not in holder:
            holder['mon'] = install_monitor(run, obs, problems)
        shadows, invariant = holder['mon']
        if rng.random() > 0.2 or len(problems) >= 5 or step > 3000:
            return
        side = rng.choice(['A', 'B'])
        other = 'B' if side == 'A' else 'A'
        if run.closed(side):
            return
        roll = rng.random()
        if roll >= 0.8 and holder.setdefault('extra_sends', 0) >= 5:
            roll = 0.1
        if roll < 0.3:
            run.call(side, 'send_bundle_get_queue')
            run.call(side, 'recv_bundle_get_queue')
            run.call(side, 'is_sess_idle')
        elif roll < 0.8:
            queue = run.call(side, 'recv_bundle_get_queue')
            if not isinstance(queue, Exception) and len(queue):
                tid = str(rng.choice(list(queue)))
                data = run.call(side, 'recv_bundle_pop_data', tid)
                shadows[side].popped.add(tid)
                obs['pops_checked'] += 1
                sent = {t: p for (t, p, _no) in run.queued[other]}
                if isinstance(data, Exception) or bytes(data) != sent.get(tid):
                    problems.append(('pop', '%s: pop of transfer %s did not return what %s queued' % (side, tid, other)))
        else:
            holder['extra_sends'] = holder.get('extra_sends', 0) + 1
            run.send(side, payload_for(side, len(run.queued[side]) + 50, rng.choice([0, 1, 30, 700])))
        invariant('after boundary call at step %d' % step)
    return user


def _final(run, holder, obs, problems, graceful):
    if 'mon' not in holder:
        holder['mon'] = install_monitor(run, obs, problems)
    shadows, _invariant = holder['mon']
    for viol in run.sim.hist.sig_violations:
        problems.append(('type', '%s %s.%s%r does not marshal as %r: %s %s' % (viol.kind, viol.iface, viol.member, viol.args_repr[:80], viol.signature,
                                                                               viol.exc_type, viol.msg[:60])))
    errs = run.callback_errors()
    if errs:
        problems.append(('raised', 'callback %s of %s raised %s: %s' % (errs[0].source, errs[0].node, errs[0].exc_type, str(errs[0].exc)[:80])))
    if graceful and not errs:
        # the session ended gracefully: exactly one finished signal per queued transfer
        for side in ('A', 'B'):
            sh = shadows[side]
            for tid in sh.queued:
                if sh.finished.get(tid, 0) != 1:
                    problems.append(('finished-count', '%s: after a graceful end transfer %s has %d finished signals' % (side, tid, sh.finished.get(tid, 0))))
