''' C02 -- BPv7 bundle encoding round-trips and is RFC 9171 well-formed.

Three differentials per generated bundle (values in the oracle's dict form):
 (1) values -> real encoder -> independent decoder/validator: fields equal, structure valid, CRCs valid;
 (2) real decoder on those bytes: same values, re-encoding byte-identical;
 (3) independent encoder -> real decoder: same values (incl. typed block data and status reports),
     no CRC failure reported, re-encoding byte-identical; and the two encoders agree byte for byte.
'''
import random

from vf.gen import bundles as gen
from vf.oracles import bpv7
from vf.oracles import cbor_walk as cw
from vf.oracles import cose_bpsec as cb

PROPERTY_ID = 'C02'
RULE = ('[directed corpus also holds bundles of 21..300 canonical blocks across the CBOR head-size boundaries] ' +
        'seeded random bundles with explicit boundary sampling (every uint field at 0, 23/24, 255/256, 65535/65536, '
        '2^32-1/2^32, 2^63, 2^64-1; all flag subsets incl. fragment/admin; CRC type per block; dtn:none, dtn://node/demux '
        'over the RFC 9171 demux alphabet, ipn:N.S; 0-4 extension blocks of types 6/7/10 and unknown types, arbitrary '
        'block numbers; status-report payloads with every assertion subset, with/without times and fragment fields) plus '
        'a directed corpus; each is run through three differentials. Non-trivial = a bundle for which all three '
        'differentials executed; distinct = distinct encoded byte string.')
ASSUMPTIONS = [
    'vf/oracles/bpv7.py + cbor_walk.py + crc.py are a correct reading of RFC 9171 / RFC 8949 (known-answer self-tests)',
    'cbor2 (third party, used by the repository) is not under test',
    '"byte strings an independent encoder can produce" = preferred (shortest-form) serialization with definite-length inner items',
]
DECIDING = ['bp.encoding.bundle:Bundle.__bytes__', 'scapy_cbor.packets:CborArray.self_build', 'scapy_cbor.packets:CborArray.do_dissect',
            'bp.encoding.fields:EidField.i2m', 'bp.encoding.fields:EidField.m2i', 'bp.encoding.blocks:AbstractBlock.update_crc',
            'bp.encoding.bundle:Bundle.post_dissect']
REQUIRED_OBS = ['d1_real_to_oracle', 'd2_real_roundtrip', 'd3_oracle_to_real', 'status_reports', 'fragments', 'typed_blocks', 'crc_recomputed_roundtrips', 'secblocks_built', 'crc_histories_failing']


def cases(tier, seed):
    out = [dict(id='directed', kind='directed')]
    for idx in range(8 if tier == 'thorough' else 2):
        out.append(dict(id='times-%d' % idx, kind='times', seed=seed * 7901 + idx, count=4000 if tier == 'thorough' else 800))
    nblocks = 320 if tier == 'thorough' else 48
    per = 1000 if tier == 'thorough' else 250
    for idx in range(nblocks):
        out.append(dict(id='rand-%d' % idx, kind='random', seed=seed * 1000003 + idx, count=per))
    return out


ASSIGNED_REASONS = set(range(0, 12)) | {12, 13, 14, 15, 16}   # the codes the repository's enumeration knows (RFC 9171 + RFC 9172)


def _directed():
    out = []
    base_pri = dict(version=7, flags=0, crc_type=0, dest='dtn://dst/', src='dtn://src/', report_to='dtn:none',
                    create_time=1, seqno=0, lifetime=1000, frag_offset=None, total_adu_len=None, crc=None)
    pay = dict(type=1, num=1, flags=0, crc_type=0, data=b'hello', crc=None)
    out.append(dict(primary=dict(base_pri), blocks=[dict(pay)]))
    for val in gen.U64_EDGES:
        for field in ('create_time', 'seqno', 'lifetime'):
            out.append(dict(primary=dict(base_pri, **{field: val}), blocks=[dict(pay)]))
        out.append(dict(primary=dict(base_pri, flags=bpv7.FLAG_IS_FRAGMENT, frag_offset=val, total_adu_len=2 ** 64 - 1 - val, crc_type=2),
                        blocks=[dict(pay, crc_type=1)]))
        out.append(dict(primary=dict(base_pri, dest='ipn:%d.%d' % (val, 2 ** 64 - 1 - val), src='ipn:%d.0' % val), blocks=[dict(pay)]))
        out.append(dict(primary=dict(base_pri), blocks=[
            dict(type=max(192, gen.U64_EDGES[(gen.U64_EDGES.index(val) + 3) % len(gen.U64_EDGES)]), num=val if val > 1 else 77,
                 flags=0, crc_type=2, data=b'\x00' * (val if val < 70000 else 3), crc=None),
            dict(pay)]))
    for flags in (0x7fffff & ~bpv7.FLAG_ADMIN, bpv7.FLAG_ADMIN, 0x40 | 0x4000 | 0x10000 | 0x20000 | 0x40000, 0x04, 0x20):
        if flags & bpv7.FLAG_IS_FRAGMENT:
            out.append(dict(primary=dict(base_pri, flags=flags, frag_offset=0, total_adu_len=5), blocks=[dict(pay)]))
        elif flags & bpv7.FLAG_ADMIN:
            adm = dict(status=[(True, 5), (False, None), (True, 0), (True, 2 ** 40)], reason=15, src='dtn://s/', create_time=3, seqno=4,
                       frag_offset=None, payload_len=None)
            item = dict(primary=dict(base_pri, flags=flags), blocks=[dict(pay, data=bpv7.encode_status_report(**adm))], admin=adm)
            out.append(item)
        else:
            out.append(dict(primary=dict(base_pri, flags=flags), blocks=[dict(pay)]))
    # many canonical blocks: the item count of the bundle crosses the one-octet CBOR head (23/24) and the two-octet one (255/256)
    for nblk in (21, 22, 23, 24, 25, 30, 254, 255, 256, 300):
        blocks = [dict(type=192 + (idx % 5), num=idx + 2, flags=0, crc_type=idx % 3, data=bytes([idx & 0xFF]) * (idx % 4), crc=None) for idx in range(nblk - 1)]
        out.append(dict(primary=dict(base_pri, crc_type=nblk % 3), blocks=blocks + [dict(pay)]))
    # blocks of known types whose data is not what the type says (e.g. encrypted by a confidentiality block): kept opaque, never an error
    for btype in (6, 7, 10, 11, 12):
        for data in (b'\x40', b'\x80', b'\x00', b'\x41\x00', b'\xa0', b'\xf6', b'\x82\x01', b'\x18', b'\xff', b'', bytes(range(40, 75))):
            out.append(dict(primary=dict(base_pri), blocks=[dict(type=btype, num=4, flags=0, crc_type=1, data=data, crc=None), dict(pay)], _typed=False, _opaque=True))
    # abstract security blocks (types 11 and 12) with and without parameters, with reserved context-flag bits, several targets/results
    for btype in (11, 12):
        for flags, params in ((0, []), (1, [(5, {0: 1, -1: 1})]), (3, [(5, {0: 1})]), (0x81, [(3, b'\xa0'), (4, b'\xa1\x04\x41k')]), (0x80, []), (1, [])):
            for targets, results in (([1], [[(17, b'r1')]]), ([1, 4], [[(17, b'r1')], [(16, b'r2'), (96, b'')]])):
                asb = cb.encode_asb(dict(targets=targets, context_id=3, flags=flags, source=('dtn://sec/' if flags != 0x80 else 'ipn:5.6'), params=params, results=results))
                out.append(dict(primary=dict(base_pri), blocks=[dict(type=btype, num=7, flags=0, crc_type=1, data=asb, crc=None),
                                                               dict(type=192, num=4, flags=0, crc_type=0, data=b'x', crc=None), dict(pay)], _typed=False))
    # administrative records other than status reports, including "falsy" contents; unassigned and large reason codes
    for content in (0, False, [], {}, b'', '', None, 7, [1, 2], {1: 2}, 'text'):
        for rtype in (2, 9, 65536):
            out.append(dict(primary=dict(base_pri, flags=bpv7.FLAG_ADMIN), blocks=[dict(pay, data=cw.enc([rtype, content]))]))
    # records whose content is valid CBOR that a "canonicalising" re-encoder would rewrite: map keys out of order, a float wider than needed
    for raw in ('8209a202010102', '8209a20a0002a205010302', '8209fb3ff8000000000000', '820282fa3fc00000a2616201616101', '8209a218640101f5'):
        out.append(dict(primary=dict(base_pri, flags=bpv7.FLAG_ADMIN), blocks=[dict(pay, data=bytes.fromhex(raw))]))
    for reason in list(range(0, 20)) + [255, 256, 2 ** 32]:
        adm = dict(status=[(True, None), (False, None), (False, None), (True, None)], reason=reason, src='dtn://s/', create_time=3, seqno=4,
                   frag_offset=None, payload_len=None)
        out.append(dict(primary=dict(base_pri, flags=bpv7.FLAG_ADMIN), blocks=[dict(pay, data=bpv7.encode_status_report(**adm))], admin=adm,
                        _skip_d1=reason not in ASSIGNED_REASONS))
    # a fragment of an administrative record bundle carries a slice of the record
    adm = dict(status=[(True, 5), (False, None), (True, 0), (True, 2 ** 40)], reason=1, src='dtn://s/', create_time=3, seqno=4, frag_offset=None, payload_len=None)
    record = bpv7.encode_status_report(**adm)
    for (lo, hi) in ((0, 5), (5, len(record)), (3, 9)):
        out.append(dict(primary=dict(base_pri, flags=bpv7.FLAG_ADMIN | bpv7.FLAG_IS_FRAGMENT, frag_offset=lo, total_adu_len=len(record)),
                        blocks=[dict(pay, data=record[lo:hi])]))
    for eid in ('dtn:none', 'dtn://a/', 'dtn://a/b', 'dtn://node.example-1_x/svc/sub~!$&\'()*+,;=:@', 'ipn:0.0', 'ipn:1.2'):
        out.append(dict(primary=dict(base_pri, dest=eid, src=eid, report_to=eid), blocks=[dict(pay)]))
    return out


def check_bundle(bundle, obs, typed):
    ''' Run the three differentials; return a list of (kind, what, detail). '''
    from bp.encoding import Bundle
    viols = []
    want = gen.strip_crc(bundle)
    want.pop('admin', None)
    is_frag = bool(bundle['primary']['flags'] & bpv7.FLAG_IS_FRAGMENT)

    opaque = bool(bundle.pop('_opaque', False))
    skip_d1 = bool(bundle.pop('_skip_d1', False))
    # (1) values -> real encoder -> oracle decoder
    enc_real = None
    try:
        if skip_d1:
            raise _Skip()
        real = gen.to_real(bundle, typed=typed)
        real.fill_fields()
        real.update_all_crc()
        enc_real = bytes(real)
        obs['d1_real_to_oracle'] += 1
        try:
            dec, problems = bpv7.decode(enc_real)
        except bpv7.DecodeError as err:
            viols.append(('d1', 'independent decoder rejects the real encoding: %s' % err, dict(enc=enc_real.hex()[:400])))
            dec = None
        if dec is not None:
            if problems:
                viols.append(('d1', 'real encoding is not well-formed: %s' % problems, dict(enc=enc_real.hex()[:400])))
            if gen.strip_crc(dec) != want:
                viols.append(('d1', 'fields decoded from the real encoding differ: %s' % _diff(want, gen.strip_crc(dec)),
                              dict(enc=enc_real.hex()[:400])))
    except _Skip:
        pass
    except Exception as err:  # pylint: disable=broad-except
        viols.append(('d1', 'real encoder raised %s: %s' % (type(err).__name__, err), {}))

    # (2) real decoder on the real encoding
    if enc_real is not None:
        try:
            back = Bundle(enc_real)
            obs['d2_real_roundtrip'] += 1
            got = gen.strip_crc(gen.from_real(back))
            if got != want:
                viols.append(('d2', 'real decode of real encoding differs: %s' % _diff(want, got), dict(enc=enc_real.hex()[:400])))
            again = bytes(back)
            if again != enc_real:
                viols.append(('d2', 're-encoding a decoded bundle changed the bytes at offset %d' % _first_diff(again, enc_real),
                              dict(enc=enc_real.hex()[:400], again=again.hex()[:400])))
        except Exception as err:  # pylint: disable=broad-except
            viols.append(('d2', 'real decoder raised %s: %s' % (type(err).__name__, err), dict(enc=enc_real.hex()[:400])))

    # (3) oracle encoder -> real decoder
    enc_orc = bpv7.encode(bundle)
    try:
        back = Bundle(enc_orc)
        obs['d3_oracle_to_real'] += 1
        dec, problems = bpv7.decode(enc_orc)
        assert not problems, problems
        got = gen.from_real(back)
        if got != dec:
            viols.append(('d3', 'real decode of independent encoding differs: %s' % _diff(dec, got), dict(enc=enc_orc.hex()[:400])))
        bad_crc = back.check_all_crc()
        if bad_crc:
            viols.append(('d3', 'real decoder reports CRC failure %s on a valid bundle' % sorted(bad_crc), dict(enc=enc_orc.hex()[:400])))
        again = bytes(back)
        if again != enc_orc:
            viols.append(('d3', 're-encoding the decoded independent encoding changed the bytes at offset %d' % _first_diff(again, enc_orc),
                          dict(enc=enc_orc.hex()[:400], again=again.hex()[:400])))
        elif not bad_crc:
            # what a forwarding agent does before it re-encodes: fill defaults and compute every CRC again, on blocks that already
            # hold one.  Nothing was changed, so the octets must come out as they came in.
            redo = Bundle(enc_orc)
            redo.fill_fields()
            redo.update_all_crc()
            again = bytes(redo)
            obs['crc_recomputed_roundtrips'] = obs.get('crc_recomputed_roundtrips', 0) + 1
            if again != enc_orc and bundle['primary'].get('create_time') and bundle['primary'].get('lifetime'):
                viols.append(('d3', 'decode, recompute all CRCs, encode changed the bytes of an unchanged bundle at offset %d' % _first_diff(again, enc_orc),
                              dict(enc=enc_orc.hex()[:400], again=again.hex()[:400])))
        # typed views of known blocks
        view = gen.typed_view(back)
        for blk in bundle['blocks']:
            if blk['type'] in (6, 7, 10) and not opaque:
                obs['typed_blocks'] += 1
                val = cw.parse_all(blk['data']).to_python()
                if blk['type'] == 6:
                    exp = ('prev', bpv7.eid_from_item(val))
                elif blk['type'] == 7:
                    exp = ('age', val)
                else:
                    exp = ('hop', val[0], val[1])
                if view.get(blk['num']) != exp:
                    viols.append(('d3', 'typed block %d decoded as %r, expected %r' % (blk['num'], view.get(blk['num']), exp),
                                  dict(enc=enc_orc.hex()[:400])))
        # security blocks: the abstract security block fields as decoded
        for bidx, blk in enumerate(bundle['blocks']):
            if blk['type'] in (11, 12) and not opaque:
                try:
                    asb = cb.parse_asb(blk['data'])
                except cb.SecError:
                    continue
                obs['security_blocks'] = obs.get('security_blocks', 0) + 1
                real_sec = back.blocks[bidx].payload
                try:
                    got = (list(real_sec.targets), int(real_sec.context_id), int(real_sec.context_flags), str(real_sec.source),
                           [(int(par.type_code), par.value) for par in (real_sec.parameters or [])],
                           [[(int(res.type_code), res.value) for res in tres.results] for tres in real_sec.results])
                except Exception as err:  # pylint: disable=broad-except
                    got = 'not decoded as a security block (%s: %s)' % (type(real_sec).__name__, type(err).__name__)
                want_asb = (asb['targets'], asb['context_id'], asb['flags'], asb['source'], asb['params'], asb['results'])
                if got != want_asb:
                    viols.append(('d3', 'security block %d decoded as %r, expected %r' % (blk['num'], got, want_asb), dict(enc=enc_orc.hex()[:400])))
        # other administrative records: record type and content as decoded
        if bundle['primary']['flags'] & bpv7.FLAG_ADMIN and not is_frag and 'admin' not in bundle:
            try:
                rec = cw.parse_all(bpv7.payload_of(bundle)['data']).to_python()
            except cw.CborError:
                rec = None
            if isinstance(rec, list) and len(rec) == 2 and isinstance(rec[0], int) and rec[0] != 1:
                obs['other_admin_records'] = obs.get('other_admin_records', 0) + 1
                real_rec = back.blocks[-1].payload
                got_type = getattr(real_rec, 'type_code', None)
                inner = getattr(real_rec, 'payload', None)
                got = inner.fields.get('item', 'absent') if hasattr(inner, 'fields') and type(inner).__name__ == 'CborItem' else 'no content layer (%s)' % type(inner).__name__
                want_content = rec[1]
                same = (got_type == rec[0]) and (got == want_content and type(got) is type(want_content) or (isinstance(want_content, float) and got == want_content))
                if not same:
                    viols.append(('d3', 'administrative record [%r, %r] decoded as type %r content %r' % (rec[0], want_content, got_type, got), dict(enc=enc_orc.hex()[:400])))
        if 'admin' in bundle:
            obs['status_reports'] += 1
            adm = bundle['admin']
            exp = ('status', [(flag, when) for (flag, when) in adm['status']], adm['reason'], adm['src'], adm['create_time'],
                   adm['seqno'], adm['frag_offset'], adm['payload_len'])
            if view.get(1) != exp and (adm['reason'] in ASSIGNED_REASONS or view.get(1) is not None):
                # (a report with an unassigned reason code may stay opaque; it must still decode and re-encode unchanged, see above)
                viols.append(('d3', 'status report decoded as %r, expected %r' % (view.get(1), exp), dict(enc=enc_orc.hex()[:400])))
    except Exception as err:  # pylint: disable=broad-except
        viols.append(('d3', 'real decoder raised %s: %s' % (type(err).__name__, err), dict(enc=enc_orc.hex()[:400])))
    if enc_real is not None and enc_real != enc_orc and not viols:
        viols.append(('enc', 'real and independent encodings differ at offset %d' % _first_diff(enc_real, enc_orc),
                      dict(real=enc_real.hex()[:400], oracle=enc_orc.hex()[:400])))
    if is_frag:
        obs['fragments'] += 1
    return viols, enc_orc


class _Skip(Exception):
    pass


def _first_diff(one, two):
    for idx, (left, right) in enumerate(zip(one, two)):
        if left != right:
            return idx
    return min(len(one), len(two))


def _diff(want, got):
    out = []
    for key in want['primary']:
        if want['primary'][key] != got['primary'].get(key):
            out.append('primary.%s: %r != %r' % (key, want['primary'][key], got['primary'].get(key)))
    if len(want['blocks']) != len(got['blocks']):
        out.append('%d blocks != %d' % (len(want['blocks']), len(got['blocks'])))
    for idx, (left, right) in enumerate(zip(want['blocks'], got['blocks'])):
        for key in left:
            if left[key] != right.get(key):
                lval, rval = left[key], right.get(key)
                if isinstance(lval, bytes) and len(lval) > 24:
                    lval = '%d octets' % len(lval)
                if isinstance(rval, bytes) and len(rval) > 24:
                    rval = '%d octets' % len(rval)
                out.append('block[%d].%s: %r != %r' % (idx, key, lval, rval))
    return '; '.join(out[:6])


def classify(kind, what, bundle):
    ''' Known-finding classifiers (mechanism keys). '''
    eids = [bundle['primary']['dest'], bundle['primary']['src'], bundle['primary']['report_to']]
    if 'admin' in bundle:
        eids.append(bundle['admin']['src'])
    for blk in bundle['blocks']:
        if blk['type'] == 6:
            try:
                eids.append(bpv7.eid_from_item(cw.parse_all(blk['data']).to_python()))
            except Exception:  # pylint: disable=broad-except
                pass
    if kind in ('d1', 'enc') and any(('?' in eid or '#' in eid) for eid in eids) and 'raised' not in what:
        return 'C02/dtn-demux-query-or-fragment-dropped-on-encode'
    return None


def check_times(case, obs):
    ''' Times assigned as calendar values (datetime / ISO text) must reach the wire as exactly that many milliseconds since
    2000-01-01T00:00:00Z, and decode back to the same instant; expected values by integer arithmetic only. '''
    import datetime
    from bp.encoding import Bundle, PrimaryBlock, CanonicalBlock, Timestamp
    rng = random.Random(case['seed'])
    epoch = datetime.datetime(2000, 1, 1, tzinfo=datetime.timezone.utc)
    values = set()
    for exp in range(1, 48):
        for delta in (-3, -2, -1, 0, 1, 2, 3, 1001, -999):
            values.add((1 << exp) + delta)
    values |= {1, 999, 1000, 1001, 1003, 2006, 86400000, 820540000123, 1072915200001}
    values |= {rng.randrange(1, 1 << rng.randrange(8, 47)) for _ in range(case['count'])}
    viols = []
    for val in sorted(v for v in values if 0 < v < 2 ** 47):
        when = epoch + datetime.timedelta(milliseconds=val)
        # the same instant written on the clock of another zone (every 7th value, to keep the run short)
        zone = datetime.timezone(datetime.timedelta(minutes=[120, -330, 765, -1][val % 4]))
        for form in ('datetime', 'text') + (('datetime in zone', 'text with offset') if val % 7 == 0 or val < 3000 else ()):
            given = {'datetime': when, 'text': when.replace(tzinfo=None).isoformat(timespec='milliseconds'),
                     'datetime in zone': when.astimezone(zone), 'text with offset': when.astimezone(zone).isoformat(timespec='milliseconds')}[form]
            obs['time_conversions'] = obs.get('time_conversions', 0) + 1
            try:
                real = Bundle(primary=PrimaryBlock(destination='dtn://d/', source='dtn://s/', report_to='dtn:none',
                                                   create_ts=Timestamp(dtntime=given, seqno=7), lifetime=5, crc_type=0),
                              blocks=[CanonicalBlock(type_code=1, block_num=1, btsd=b'x')])
                real.fill_fields()
                enc = bytes(real)
                dec, _problems = bpv7.decode(enc)
                back = Bundle(enc).primary.create_ts.dtntime
            except Exception as err:  # pylint: disable=broad-except
                viols.append(('time', 'creation time %s given as %s: %s: %s' % (when.isoformat(), form, type(err).__name__, err), {}))
                continue
            if dec['primary']['create_time'] != val:
                viols.append(('time', 'creation time %s (%d ms after the epoch) given as %s is encoded as %d' % (when.isoformat(), val, form, dec['primary']['create_time']), {}))
            elif back != when:
                viols.append(('time', 'creation time %s decodes back to %s' % (when.isoformat(), back), {}))
    return viols


def check_bytes_like(obs):
    ''' Block data handed over as bytearray or memoryview (what a reassembly buffer or a received frame is) reaches the wire as the
    same byte string as bytes would. '''
    from bp.encoding import Bundle, PrimaryBlock, CanonicalBlock, Timestamp
    viols = []
    for plen in (0, 1, 23, 24, 300):
        data = bytes((i * 5 + 1) & 0xFF for i in range(plen))
        encs = {}
        for form, value in (('bytes', data), ('bytearray', bytearray(data)), ('memoryview', memoryview(data))):
            obs['bytes_like_blocks'] = obs.get('bytes_like_blocks', 0) + 1
            try:
                real = Bundle(primary=PrimaryBlock(destination='dtn://d/', source='dtn://s/', report_to='dtn:none',
                                                   create_ts=Timestamp(dtntime=5, seqno=7), lifetime=5, crc_type=0),
                              blocks=[CanonicalBlock(type_code=200, block_num=4, crc_type=1, btsd=value), CanonicalBlock(type_code=1, block_num=1)])
                real.blocks[1].setfieldval('btsd', value)
                real.fill_fields()
                real.update_all_crc()
                encs[form] = bytes(real)
                dec, problems = bpv7.decode(encs[form])
                if problems or [blk['data'] for blk in dec['blocks']] != [data, data]:
                    viols.append(('bytes-like', 'block data of %d octets given as %s is encoded as %s %s' % (
                        plen, form, [None if blk['data'] is None else len(blk['data']) for blk in dec['blocks']], problems[:1]), {}))
            except Exception as err:  # pylint: disable=broad-except
                viols.append(('bytes-like', 'block data of %d octets given as %s: %s: %s' % (plen, form, type(err).__name__, str(err)[:80]), {}))
    return viols


def check_secblocks(case, obs):
    ''' Security blocks (types 11/12) built from field values, as the BPSec application builds them: the block data must be the
    RFC 9172 CBOR *sequence* an independent encoder writes for those values, and decoding the bundle must give the values back. '''
    from bp.encoding import Bundle, PrimaryBlock, CanonicalBlock, Timestamp
    from bp.encoding.bpsec import BlockIntegrityBlock, BlockConfidentialityBlock, TypeValuePair, TargetResultList
    rng = random.Random(case['seed'] + 77)
    viols = []
    for idx in range(24):
        cls, btype = ((BlockIntegrityBlock, 11), (BlockConfidentialityBlock, 12))[idx % 2]
        targets = rng.sample([1, 2, 3, 4, 23, 24, 300], rng.randint(1, 3))
        ctx = rng.choice([1, 3, 24, 99, 65536])
        src = rng.choice(['dtn://sec/src', 'ipn:5.9', 'dtn:none', 'dtn://a/'])
        params = [(rng.choice([1, 2, 3, 5, 300]), rng.choice([5, 0, b'', b'\x01\x02', bytes(range(30)), 2 ** 32])) for _ in range(rng.randint(0, 3))]
        with_params = bool(params) or idx % 3 == 0
        results = [[(rng.choice([1, 17, 18, 97]), bytes(rng.randrange(256) for _ in range(rng.choice([0, 16, 32, 64]))))
                    for _ in range(rng.randint(1, 2))] for _ in targets]
        # a target may have no result at all (the tag stays inside the cipher text): the empty array keeps its place
        if idx % 4 == 1:
            results[-1] = []
        if idx % 8 == 3:
            results = [[] for _ in targets]
        if not all(results):
            obs['secblocks_with_empty_result_array'] = obs.get('secblocks_with_empty_result_array', 0) + 1
        kwargs = dict(targets=targets, context_id=ctx, context_flags=1 if with_params else 0, source=src,
                      results=[TargetResultList(results=[TypeValuePair(type_code=tid, value=val) for (tid, val) in res]) for res in results])
        if with_params:
            kwargs['parameters'] = [TypeValuePair(type_code=pid, value=val) for (pid, val) in params]
        want = cw.enc(targets) + cw.enc(ctx) + cw.enc(1 if with_params else 0) + cw.enc(bpv7.eid_to_item(src))
        if with_params:
            want += cw.enc([[pid, val] for (pid, val) in params])
        want += cw.enc([[[tid, val] for (tid, val) in res] for res in results])
        obs['secblocks_built'] = obs.get('secblocks_built', 0) + 1
        try:
            real = Bundle(primary=PrimaryBlock(destination='dtn://d/', source='dtn://s/', report_to='dtn:none',
                                               create_ts=Timestamp(dtntime=5, seqno=idx), lifetime=5, crc_type=0),
                          blocks=[CanonicalBlock(type_code=btype, block_num=7, crc_type=idx % 3) / cls(**kwargs),
                                  CanonicalBlock(type_code=1, block_num=1, btsd=b'payload')])
            real.fill_fields()
            real.update_all_crc()
            enc = bytes(real)
            dec, problems = bpv7.decode(enc)
            got = dec['blocks'][0]['data']
            back = Bundle(enc).blocks[0].payload
            back_vals = None
            if isinstance(back, cls):
                back_vals = (list(back.getfieldval('targets')), back.getfieldval('context_id'), int(back.getfieldval('context_flags')), back.getfieldval('source'),
                             [(par.getfieldval('type_code'), par.getfieldval('value')) for par in (back.getfieldval('parameters') or [])],
                             [[(r.getfieldval('type_code'), r.getfieldval('value')) for r in (trl.getfieldval('results') or [])] for trl in back.getfieldval('results')])
        except Exception as err:  # pylint: disable=broad-except
            viols.append(('secblock', 'type %d block built from fields: %s: %s' % (btype, type(err).__name__, str(err)[:100]), {}))
            continue
        if problems:
            viols.append(('secblock', 'bundle with a type %d block built from fields is not well-formed: %s' % (btype, problems[:2]), dict(encoded=enc.hex())))
        if got != want:
            viols.append(('secblock', 'type %d block built from fields (targets %s, context %d): block data is %s..., the RFC 9172 sequence for those values is %s...'
                          % (btype, targets, ctx, (got or b'').hex()[:40], want.hex()[:40]), dict(encoded=enc.hex())))
        want_vals = (targets, ctx, 1 if with_params else 0, src, params if with_params else [], results)
        if back_vals != want_vals:
            viols.append(('secblock', 'type %d block built from fields decodes to %r, built from %r' % (btype, back_vals, want_vals), dict(encoded=enc.hex())))
    return viols


def check_fragment_field_history(case, obs):
    ''' A primary block whose fragment bit was cleared by the program while the two fragment fields still hold values (what
    reassembly does with a copy of a fragment's primary block) is a non-fragment: 8 or 9 items, flags as set. '''
    from bp.encoding import Bundle, PrimaryBlock
    rng = random.Random(case['seed'] + 991)
    viols = []
    for idx in range(12):
        crc = idx % 3
        total = rng.choice([12, 24, 300, 70000])
        offset = rng.randrange(0, total - 5)
        flags = rng.choice([0, bpv7.FLAG_REQ_DELIVERY, bpv7.FLAG_ADMIN if hasattr(bpv7, 'FLAG_ADMIN') else 2])
        pri = dict(version=7, flags=flags | bpv7.FLAG_IS_FRAGMENT, crc_type=crc, dest='dtn://d/x', src='dtn://s/y', report_to='dtn:none',
                   create_time=1000 + idx, seqno=idx, lifetime=5000, frag_offset=offset, total_adu_len=total, crc=None)
        enc = bpv7.encode(dict(primary=pri, blocks=[dict(type=1, num=1, flags=0, crc_type=crc, data=bytes(range(5)), crc=None)]))
        obs['fragment_field_histories'] = obs.get('fragment_field_histories', 0) + 1
        try:
            bundle = Bundle(enc)
            if idx % 2:
                primary = bundle.primary.copy()
            else:
                primary = bundle.primary
            primary.bundle_flags &= ~PrimaryBlock.Flag.IS_FRAGMENT
            primary.crc_value = None
            primary.update_crc()
            bundle.primary = primary
            out = bytes(bundle)
            dec, problems = bpv7.decode(out)
        except Exception as err:  # pylint: disable=broad-except
            viols.append(('fragment-fields', 'clearing the fragment bit of a decoded fragment and encoding: %s: %s' % (type(err).__name__, str(err)[:100]), {}))
            continue
        if problems:
            viols.append(('fragment-fields', 'primary block with the fragment bit cleared encodes to a bundle that is not well-formed: %s' % (problems[:2],),
                          dict(encoded=out.hex())))
        elif dec['primary']['flags'] != flags or dec['primary']['frag_offset'] is not None:
            viols.append(('fragment-fields', 'primary block set to flags %#x (not a fragment) is encoded with flags %#x and fragment fields %r/%r' % (
                flags, dec['primary']['flags'], dec['primary']['frag_offset'], dec['primary']['total_adu_len']), dict(encoded=out.hex())))
    return viols


def check_crc_history(case, obs):
    ''' Verifying the CRCs of a decoded bundle must not change it: whatever the verdict, re-encoding gives the received octets and
    the field values stay what was decoded (the agent checks every received bundle before anything else looks at it). '''
    from bp.encoding import Bundle
    rng = random.Random(case['seed'] + 99)
    viols = []
    for idx in range(40):
        bundle = gen.rand_bundle(rng, hard_eids=False, allow_admin=False, max_ext=2, payload_len=rng.choice([1, 10, 40]))
        if not (bundle['primary']['crc_type'] or any(blk['crc_type'] for blk in bundle['blocks'])):
            bundle['blocks'][-1]['crc_type'] = 1 + idx % 2
        enc = bytearray(bpv7.encode(bundle))
        if idx % 4:
            # damage one octet of the payload data (the CBOR structure stays intact)
            enc[-2 - (4 if bundle['blocks'][-1]['crc_type'] == 2 else 2 if bundle['blocks'][-1]['crc_type'] == 1 else 0) - 1] ^= 0x10
        enc = bytes(enc)
        obs['crc_histories'] = obs.get('crc_histories', 0) + 1
        try:
            real = Bundle(enc)
            before = gen.from_real(real)
            failed = real.check_all_crc()
            if failed:
                obs['crc_histories_failing'] = obs.get('crc_histories_failing', 0) + 1
            after = gen.from_real(real)
            again = bytes(real)
        except Exception as err:  # pylint: disable=broad-except
            if idx % 4 == 0:
                viols.append(('crc-history', 'decode / check_all_crc / encode of a valid bundle: %s: %s' % (type(err).__name__, str(err)[:80]), dict(encoded=enc.hex())))
            continue
        if before != after:
            viols.append(('crc-history', 'check_all_crc() changed the decoded field values: %s' % _diff(before, after), dict(encoded=enc.hex())))
        if again != enc:
            viols.append(('crc-history', 'after check_all_crc() (blocks failing: %s) the decoded bundle re-encodes differently at offset %d'
                          % (sorted(failed) if failed else 'none', _first_diff(again, enc)), dict(encoded=enc.hex())))
    return viols


def run_case(case):
    obs = dict(d1_real_to_oracle=0, d2_real_roundtrip=0, d3_oracle_to_real=0, status_reports=0, fragments=0, typed_blocks=0)
    violations = []
    classes = set()
    if case['kind'] == 'times':
        viols = check_times(case, obs) + check_bytes_like(obs) + check_secblocks(case, obs) + check_crc_history(case, obs) + check_fragment_field_history(case, obs)
        violations = [dict(key=None, what='%s: %s' % (kind, what), detail=detail) for (kind, what, detail) in viols[:10]]
        return dict(verdict='violated' if violations else 'held', nontrivial=True, cls={'times|%d' % case['seed']}, obs=obs,
                    violations=violations, sample=dict(kind='times'), evaluations=obs.get('time_conversions', 0))
    if case['kind'] == 'directed':
        items = [(bundle, bundle.pop('_typed', idx % 2 == 0)) for idx, bundle in enumerate(_directed())]
    else:
        rng = random.Random(case['seed'])
        items = []
        for _ in range(case['count']):
            items.append((gen.rand_bundle(rng, hard_eids=(rng.random() < 0.5), allow_admin=True), rng.random() < 0.5))
    sample = None
    for (bundle, typed) in items:
        viols, enc = check_bundle(bundle, obs, typed)
        classes.add(hash(enc) & 0xFFFFFFFFFFFF)
        if sample is None:
            sample = dict(encoded=enc.hex()[:300], primary={k: v for k, v in bundle['primary'].items()},
                          blocks=[dict(type=b['type'], num=b['num'], flags=b['flags'], crc_type=b['crc_type'], len=len(b['data']))
                                  for b in bundle['blocks']])
        for (kind, what, detail) in viols:
            violations.append(dict(key=classify(kind, what, bundle), what='%s: %s' % (kind, what), detail=detail))
    uniq = {}
    for viol in violations:
        uniq.setdefault((viol['key'], viol['what'][:60]), viol)
    violations = list(uniq.values())[:20]
    return dict(verdict='violated' if violations else 'held', nontrivial=True, cls=classes, obs=obs,
                violations=violations, sample=sample, evaluations=len(items))
