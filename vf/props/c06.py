''' C06 -- fragments reassemble to the original bundle once, in any arrival order.

Monitor: application observer records and the reassembly table of a real
``bp.agent.Agent`` after each fragment is pushed through the CL receive
callback and the loop is quiescent.

Oracle: per identity (source, creation time, sequence) an integer coverage
model: exactly one delivery, at the first arrival that completes [0,total),
none before; delivered payload equals the original (position-coded pattern);
extension blocks equal those of the offset-0 fragment; nothing afterwards.
'''
import itertools
import random

from vf.oracles import bpv7
from vf.oracles import cbor_walk as cw

PROPERTY_ID = 'C06'
RULE = ('fragment sets built by the independent encoder (uniform, uneven, nested/overlapping, with zero-length pieces) and by the '
        'real fragmenter; all permutations of sets of <= 5 fragments (thorough: 6) with each single duplicate inserted at every '
        'position for <= 4, seeded random permutations up to 200 fragments; 2-3 bundles interleaved that differ in exactly one '
        'identity component. After every arrival the delivery delta is compared with the coverage model. Non-trivial = a '
        'history with >= 2 fragments in which a delivery was due; distinct = distinct arrival sequence.')
ASSUMPTIONS = [
    'delivery is observed by a chain step at order 29.5 with action "deliver" and a non-fragment bundle',
    'fragments whose range exceeds the announced total or with disagreeing totals are malformed input and not generated',
    'vf/shims/portion.py (integer interval sets, self-tested) stands in for the portion package',
]
DECIDING = ['bp.app.fragment:Fragment._reassemble', 'bp.agent:Agent.recv_bundle']
REQUIRED_OBS = ['stack_reassemblies_checked', 'arrivals', 'deliveries_due', 'deliveries_seen', 'duplicates_injected', 'interleaved_histories', 'overlapping_sets', 'signed_histories', 'burst_histories', 'whole_adu_histories', 'damaged_copies_injected', 'replayed_histories', 'damaged_primary_copies_injected']
RULE = RULE + " Whole-stack runs (vf.stack): three hosts X-Y-Z, each a real BP agent bound through bp/cla.py and the in-process bus to real UDPCL/TCPCL agents over the simulated network (datagrams reordered and duplicated, BP and UDPCL MTUs, 2-14 bundles with report requests per scenario); judged per node, conditional on what the node's adaptor popped and what the agent handed to the adaptor's sender; the stack_* counters say what was compared."

NODE = 'dtn://me/'
DEST = 'dtn://me/app'


def pattern(bid, total):
    ''' Position-dependent payload: any misplacement or cross-bundle mixing is visible. '''
    return bytes(((pos * 131) ^ (bid * 29) ^ (pos >> 8) ^ 0xA5) & 0xFF for pos in range(total))


def make_fragment(ident, total, lo, hi, payload, exts, crc=0):
    (src, ctime, seq) = ident
    pri = dict(version=7, flags=bpv7.FLAG_IS_FRAGMENT, crc_type=crc, dest=DEST, src=src, report_to='dtn:none', create_time=ctime,
               seqno=seq, lifetime=3600000, frag_offset=lo, total_adu_len=total, crc=None)
    blocks = []
    for blk in exts:
        if lo == 0 or blk['flags'] & bpv7.BLK_REPLICATE:
            blocks.append(dict(blk))
    blocks.append(dict(type=1, num=1, flags=0, crc_type=crc, data=payload[lo:hi], crc=None))
    return bpv7.encode(dict(primary=pri, blocks=blocks))


EXTS = [
    dict(type=192, num=5, flags=bpv7.BLK_REPLICATE, crc_type=1, data=b'\x01\x02', crc=None),
    dict(type=10, num=3, flags=0, crc_type=0, data=cw.enc([30, 4]), crc=None),
    dict(type=200, num=9, flags=0, crc_type=2, data=b'first-only', crc=None),
]


def splits(kind, total, rng):
    ''' List of (lo, hi) ranges that together cover [0,total). '''
    if kind == 'uniform':
        size = max(1, total // rng.choice([2, 3, 4, 5]))
        return [(lo, min(total, lo + size)) for lo in range(0, total, size)]
    if kind == 'uneven':
        cuts = sorted(set(rng.sample(range(1, total), min(total - 1, rng.randint(1, 5))))) if total > 1 else []
        bounds = [0] + cuts + [total]
        return list(zip(bounds[:-1], bounds[1:]))
    if kind == 'overlap':
        base = splits('uneven', total, rng)
        out = []
        for (lo, hi) in base:
            out.append((max(0, lo - rng.choice([0, 1, 3])), min(total, hi + rng.choice([0, 1, 3]))))
        return out
    if kind == 'nested':
        base = splits('uneven', total, rng)
        lo = rng.randrange(0, total)
        hi = rng.randrange(lo, total) + 1
        return base + [(lo, hi)]
    if kind == 'same-offset':
        # two fragments that start at the same offset with different lengths, plus the rest
        mid = rng.randrange(1, total - 1)
        short = rng.randrange(1, mid + 1)
        return [(0, short), (0, mid), (mid, total)]
    if kind == 'zero':
        base = splits('uneven', total, rng)
        pos = rng.choice([0, total // 2, total])
        return base + [(pos, pos)]
    raise ValueError(kind)


def cases(tier, seed):
    out = []
    thorough = tier == 'thorough'
    kinds = ['uniform', 'uneven', 'overlap', 'nested', 'same-offset', 'zero']
    idx = 0
    for kind in kinds:
        for rep in range(6 if thorough else 2):
            out.append(dict(id='perm-%s-%d' % (kind, rep), kind='perm', split=kind, seed=seed * 811 + idx, maxn=6 if thorough else 5))
            idx += 1
    for rep in range(240 if thorough else 10):
        out.append(dict(id='dups-%d' % rep, kind='dups', seed=seed * 613 + rep))
    for rep in range(1200 if thorough else 24):
        out.append(dict(id='rand-%d' % rep, kind='rand', seed=seed * 977 + rep, count=20 if thorough else 8))
    for rep in range(720 if thorough else 16):
        out.append(dict(id='inter-%d' % rep, kind='inter', seed=seed * 331 + rep, count=12 if thorough else 6))
    for rep in range(40 if thorough else 6):
        out.append(dict(id='real-%d' % rep, kind='real', seed=seed * 457 + rep, count=6))
    for rep in range(12 if thorough else 2):
        out.append(dict(id='many-%d' % rep, kind='many', seed=seed * 523 + rep, count=2))
    for rep in range(180 if thorough else 6):
        out.append(dict(id='refrag-%d' % rep, kind='refrag', seed=seed * 541 + rep, count=10))
    for rep in range(12 if thorough else 3):
        out.append(dict(id='signed-%d' % rep, kind='signed', seed=seed * 587 + rep, count=6))
    from vf import stackcases  # pylint: disable=import-outside-toplevel
    stackcases.add_cases(out, tier, seed)
    return out


def run_history_bursts(arrivals, originals, obs, group):
    ''' As run_history, but ``group`` fragments arrive back to back before the event loop runs again (one read of a busy
    convergence layer); the deliveries due are compared after each group. '''
    from vf.world.sim import Sim
    from vf import bp_harness as bh
    sim = Sim(0, 'eager')
    node = bh.BpNode(sim, NODE, rx_routes=[(r'dtn://me/.*', 'deliver')], tx_routes=[dict(pattern=r'.*')])
    coverage = {key: set() for key in originals}
    done = set()
    problems = []
    for start in range(0, len(arrivals), group):
        n_before = len(node.delivered())
        due = []
        for (key, lo, hi, enc) in arrivals[start:start + group]:
            err = node.recv(enc)
            obs['arrivals'] += 1
            if err is not None:
                return ['arrival in group at %d: receive raised %s: %s' % (start, type(err).__name__, err)]
            coverage[key] |= set(range(lo, hi))
            if key not in done and coverage[key] == set(range(originals[key][0])):
                due.append(key)
                done.add(key)
                obs['deliveries_due'] += 1
        res = sim.settle(20000)
        if sim.world.callback_errors:
            cerr = sim.world.callback_errors[0]
            return ['group at %d: loop callback raised %s: %s' % (start, cerr.exc_type, cerr.exc)]
        if res != 'quiescent':
            return ['group at %d: loop not quiescent (%s)' % (start, res)]
        new = node.delivered()[n_before:]
        got = [tuple(rec['ident'][:3]) for rec in new]
        if sorted(got) != sorted(due):
            problems.append('%d fragments arriving back to back (arrivals %d..%d): delivered %s, model says %s' % (
                group, start, start + group - 1, got, due))
            break
        for rec in new:
            obs['deliveries_seen'] += 1
            if rec['payload'] != originals[tuple(rec['ident'][:3])][1]:
                problems.append('group at %d: reassembled payload differs from the original' % start)
    obs['burst_histories'] = obs.get('burst_histories', 0) + 1
    return problems


def run_history(arrivals, originals, obs, verifying=None):
    ''' arrivals: list of (bundle key, lo, hi, encoded fragment); originals: key -> (total, payload, exts).
    verifying: None, or dict(accept=bool): the destination is an agent that holds the keys and verifies security blocks
    :return: problems list
    '''
    from vf.world.sim import Sim
    from vf import bp_harness as bh
    sim = Sim(0, 'eager')
    if verifying is not None:
        from vf import sec_harness as sh
        node = sh.receiver_node(sim, 'all', accept=verifying['accept'])
    else:
        node = bh.BpNode(sim, NODE, rx_routes=[(r'dtn://me/.*', 'deliver')], tx_routes=[dict(pattern=r'.*')])
    coverage = {key: set() for key in originals}
    done = set()
    problems = []
    for step, (key, lo, hi, enc) in enumerate(arrivals):
        total, payload, exts = originals[key]
        n_before = len(node.delivered())
        err = node.recv(enc)
        res = sim.settle(20000)
        obs['arrivals'] += 1
        if err is not None:
            problems.append('arrival %d: receive raised %s: %s' % (step, type(err).__name__, err))
            break
        if sim.world.callback_errors:
            cerr = sim.world.callback_errors[0]
            problems.append('arrival %d: loop callback raised %s: %s' % (step, cerr.exc_type, cerr.exc))
            break
        if res != 'quiescent':
            problems.append('arrival %d: loop not quiescent (%s)' % (step, res))
            break
        coverage[key] |= set(range(lo, hi))
        new = node.delivered()[n_before:]
        due = []
        if key not in done and coverage[key] == set(range(total)):
            due = [key]
            done.add(key)
            obs['deliveries_due'] += 1
        got = [tuple(rec['ident'][:3]) for rec in new]
        if got != due:
            state = 'complete' if key in done else 'incomplete (%d of %d octets)' % (len(coverage[key]), total)
            problems.append('arrival %d (bundle %s range [%d,%d)): delivered %s, model says %s; coverage %s' % (
                step, key, lo, hi, got, due, state))
            break
        for rec in new:
            obs['deliveries_seen'] += 1
            if rec['payload'] != payload:
                bad = [pos for pos in range(min(len(payload), len(rec['payload'] or b''))) if rec['payload'][pos] != payload[pos]]
                problems.append('arrival %d: reassembled payload differs from the original (len %s vs %d, first bad offset %s)' % (
                    step, len(rec['payload']) if rec['payload'] is not None else None, len(payload), bad[:1]))
            want_blocks = sorted((blk['type'], blk['num'], blk['flags'], blk['data']) for blk in exts)
            got_blocks = sorted((blk[0], blk[1], blk[2], blk[3]) for blk in rec['blocks'] if blk[0] != 1)
            if got_blocks != want_blocks:
                problems.append('arrival %d: reassembled bundle has extension blocks %s, first fragment had %s' % (
                    step, [(b[0], b[1]) for b in got_blocks], [(b[0], b[1]) for b in want_blocks]))
            if rec['flags'] & bpv7.FLAG_IS_FRAGMENT:
                problems.append('arrival %d: delivered bundle still flagged as fragment' % step)
    # a stale partial entry created by fragments that arrive after completion is only counted
    table = node.fragment_app()._reassembly
    obs['stale_table_entries_after_completion'] = obs.get('stale_table_entries_after_completion', 0) + sum(1 for key in done if key in table)
    return problems


def _bundle_set(rng, nbundles, one_component=True):
    ''' Identities that differ in exactly one component. '''
    base = ('dtn://src/a', 820540000000 + rng.randrange(1000), rng.randrange(5))
    style = rng.random()
    if style < 0.2:
        # a source without a clock: creation time 0 (its bundles are told apart by the sequence number alone)
        base = (base[0], 0, base[2])
    elif style < 0.4:
        # three-element ipn node ids (allocator, node, service) that differ in the node number only; also without a clock
        base = ('ipn:0.5.1', rng.choice([0, base[1]]), base[2])
    keys = [base]
    comps = ['src', 'time', 'seq']
    rng.shuffle(comps)
    for idx in range(nbundles - 1):
        comp = comps[idx % 3]
        if comp == 'src':
            if base[0].startswith('ipn:'):
                keys.append(('ipn:0.%d.1' % (6 + idx), base[1], base[2]))
            else:
                keys.append(('dtn://src/b' if idx == 0 else 'ipn:4.%d' % idx, base[1], base[2]))
        elif comp == 'time':
            keys.append((base[0], base[1] + idx + 1, base[2]))
        else:
            keys.append((base[0], base[1], base[2] + idx + 1))
    return keys


def _make_arrivals(rng, keys, split_kind, total_choices=(12, 30, 64, 300)):
    originals = {}
    arrivals = []
    for bid, key in enumerate(keys):
        total = rng.choice(total_choices)
        payload = pattern(bid + rng.randrange(50), total)
        exts = [dict(blk) for blk in rng.sample(EXTS, rng.randint(0, len(EXTS)))]
        originals[key] = (total, payload, exts)
        for (lo, hi) in splits(split_kind if isinstance(split_kind, str) else rng.choice(split_kind), total, rng):
            arrivals.append((key, lo, hi, make_fragment(key, total, lo, hi, payload, exts, crc=rng.choice([0, 1, 2]))))
    return originals, arrivals


def run_case(case):
    if case.get('kind') == 'stack':
        from vf import stackcases  # pylint: disable=import-outside-toplevel
        return stackcases.run_block(PROPERTY_ID, case)
    obs = dict(arrivals=0, deliveries_due=0, deliveries_seen=0, duplicates_injected=0, interleaved_histories=0, overlapping_sets=0,
               real_fragmenter_sets=0)
    rng = random.Random(case['seed'])
    violations = []
    classes = set()
    sample = None
    evaluations = 0

    def play(arrivals, originals, tag):
        nonlocal sample, evaluations
        problems = run_history(arrivals, originals, obs)
        evaluations += 1
        if len(arrivals) >= 2:
            classes.add(hash(tuple((a[0], a[1], a[2]) for a in arrivals)) & 0xFFFFFFFFFFFF)
        if sample is None:
            sample = dict(kind=tag, arrivals=[(str(a[0]), a[1], a[2]) for a in arrivals[:8]])
        for item in problems:
            same_offset = len({(a[0], a[1]) for a in arrivals}) < len({(a[0], a[1], a[2]) for a in arrivals})
            violations.append(dict(key=classify(item, same_offset), what='[%s] %s' % (tag, item),
                                   detail=dict(arrivals=[(str(a[0]), a[1], a[2]) for a in arrivals][:40], same_offset_pair=same_offset)))

    kind = case['kind']
    if kind == 'signed':
        # the bundle carries an integrity block made by a real source agent (it travels in the first fragment like any other
        # extension block); the destination holds the key and verifies: the fragments still reassemble to ONE delivered bundle
        from vf.props import c03
        for rep in range(case['count']):
            crc = (rep + case['seed']) % 3
            plen = rng.choice([12, 30, 64])
            seq = 500 + rep
            bundle = c03.base_bundle(rng, plen, next_=rng.choice([0, 1]), crc=crc, seq=seq)
            bundle['primary']['flags'] = 0
            data = c03.produce('mac0-256', bundle)
            if data is None:
                continue
            dec = bpv7.decode(data)[0]
            payload = [blk for blk in dec['blocks'] if blk['type'] == 1][0]['data']
            accept = bool(rep % 2)
            exts = [dict(blk, crc=None) for blk in dec['blocks'] if blk['type'] != 1]
            key = (dec['primary']['src'], dec['primary']['create_time'], dec['primary']['seqno'])
            cuts = sorted(set([0, plen] + rng.sample(range(1, plen), rng.choice([1, 2, 3]))))
            arrivals = []
            for lo, hi in zip(cuts, cuts[1:]):
                pri = dict(dec['primary'], flags=dec['primary']['flags'] | bpv7.FLAG_IS_FRAGMENT, frag_offset=lo, total_adu_len=plen, crc=None)
                blocks = [dict(blk) for blk in exts if lo == 0 or blk['flags'] & bpv7.BLK_REPLICATE]
                blocks.append(dict(type=1, num=1, flags=0, crc_type=crc, data=payload[lo:hi], crc=None))
                arrivals.append((key, lo, hi, bpv7.encode(dict(primary=pri, blocks=blocks))))
            rng.shuffle(arrivals)
            # (an accepted integrity block is removed from the delivered bundle)
            want_exts = [blk for blk in exts if not (accept and blk['type'] == 11)]
            problems = run_history(arrivals, {key: (plen, payload, want_exts)}, obs, verifying=dict(accept=accept))
            obs['signed_histories'] = obs.get('signed_histories', 0) + 1
            evaluations += 1
            classes.add(hash(('signed', crc, accept, tuple((a[1], a[2]) for a in arrivals))) & 0xFFFFFFFFFFFF)
            if sample is None:
                sample = dict(kind='signed', arrivals=[(str(a[0]), a[1], a[2]) for a in arrivals[:8]])
            for item in problems:
                violations.append(dict(key=None, what='[signed, primary CRC type %d, accept=%s] %s' % (crc, accept, item),
                                       detail=dict(arrivals=[(str(a[0]), a[1], a[2]) for a in arrivals], crc=crc, accept=accept)))
    elif kind == 'perm':
        keys = _bundle_set(rng, 1)
        while True:
            originals, arrivals = _make_arrivals(rng, keys, case['split'], total_choices=(12, 30))
            if 2 <= len(arrivals) <= case['maxn']:
                break
        if case['split'] in ('overlap', 'nested', 'same-offset'):
            obs['overlapping_sets'] += 1
        for perm in itertools.permutations(arrivals):
            play(list(perm), originals, 'perm-' + case['split'])
    elif kind == 'dups':
        keys = _bundle_set(rng, 1)
        while True:
            originals, arrivals = _make_arrivals(rng, keys, ['uniform', 'uneven', 'overlap'], total_choices=(12, 30))
            if 2 <= len(arrivals) <= 4:
                break
        for perm in itertools.permutations(arrivals):
            for dup in perm:
                for pos in range(len(perm) + 1):
                    seq = list(perm)
                    seq.insert(pos, dup)
                    obs['duplicates_injected'] += 1
                    play(seq, originals, 'dup')
        # a copy damaged in transit (payload block CRC fails) arrives before the intact fragment: it is no fragment at all
        for perm in list(itertools.permutations(arrivals))[:6]:
            for victim in perm:
                (vkey, vlo, vhi, venc) = victim
                crc_type = bpv7.decode(venc)[0]['blocks'][-1]['crc_type']
                if not crc_type or vhi <= vlo:
                    continue
                pos = len(venc) - (5 if crc_type == 1 else 7)
                bad = venc[:pos] + bytes([venc[pos] ^ 0x10]) + venc[pos + 1:]
                if bpv7.crc_failures(bad) == []:
                    continue
                seq = list(perm)
                seq.insert(seq.index(victim), (vkey, vlo, vlo, bad))
                obs['damaged_copies_injected'] = obs.get('damaged_copies_injected', 0) + 1
                play(seq, originals, 'damaged-copy-first')
        # a copy damaged in its PRIMARY block only (the fragment offset moved onto a later fragment's place; the primary CRC no longer
        # matches, no other block has a CRC that could fail): no fragment at all either, whatever it claims to cover
        import copy
        for perm in list(itertools.permutations(arrivals))[:6]:
            if len(perm) < 2:
                break
            (vkey, vlo, vhi, venc) = perm[0]
            dec = bpv7.decode(venc)[0]
            for blk in dec['blocks']:
                blk['crc_type'], blk['crc'] = 0, None
            dec['primary']['crc_type'], dec['primary']['crc'] = 1 + (vlo % 2), None
            good = bpv7.encode(dec)
            bad_dec = copy.deepcopy(bpv7.decode(good)[0])
            others = [arr[1] for arr in perm[1:] if arr[1] != vlo]
            if not others or vhi <= vlo:
                continue
            bad_dec['primary']['frag_offset'] = others[-1]
            bad = bpv7.encode(bad_dec, fix_crc=False)
            if bpv7.crc_failures(bad) == []:
                continue
            for where in (0, len(perm) - 1):
                seq = [(vkey, vlo, vhi, good)] + list(perm[1:])
                seq.insert(where, (vkey, vlo, vlo, bad))
                if where:
                    # ... and the fragment it pretends to be never arrives: nothing may be delivered
                    seq = [arr for arr in seq if arr[1] != others[-1] or arr[3] is bad]
                obs['damaged_primary_copies_injected'] = obs.get('damaged_primary_copies_injected', 0) + 1
                play(seq, originals, 'damaged-primary-copy')
    elif kind == 'refrag':
        # the same bundle arrives as two DIFFERENT complete fragmentations (fragmented twice on different paths), one whole set
        # after the other or interleaved, optionally with another bundle in between: still exactly one delivery
        for _ in range(case['count']):
            keys = _bundle_set(rng, 2)
            total = rng.choice([40, 64, 300])
            payload = pattern(rng.randrange(100), total)
            exts = [dict(blk) for blk in rng.sample(EXTS, rng.randint(0, len(EXTS)))]
            originals = {keys[0]: (total, payload, exts)}
            sets = []
            for _cut in range(2):
                nfrag = rng.choice([2, 3, 4])
                cuts = sorted(set(rng.sample(range(1, total), nfrag - 1)))
                bounds = [0] + cuts + [total]
                one = [(keys[0], lo, hi, make_fragment(keys[0], total, lo, hi, payload, exts)) for lo, hi in zip(bounds[:-1], bounds[1:])]
                rng.shuffle(one)
                sets.append(one)
            if set((a[1], a[2]) for a in sets[0]) & set((a[1], a[2]) for a in sets[1]):
                continue
            mode = rng.choice(['sequential', 'sequential', 'interleaved'])
            arrivals = sets[0] + sets[1]
            if mode == 'interleaved':
                rng.shuffle(arrivals)
            obs['refragmented_histories'] = obs.get('refragmented_histories', 0) + 1
            play(arrivals, originals, 'refragmented-' + mode)
            # one cover is a single fragment that carries the whole payload (offset 0, length = total), or the bundle arrives
            # unfragmented as well (another path did not need to fragment it): still exactly one delivery
            whole = (keys[0], 0, total, make_fragment(keys[0], total, 0, total, payload, exts))
            pri = dict(version=7, flags=0, crc_type=1, dest=DEST, src=keys[0][0], report_to='dtn:none', create_time=keys[0][1], seqno=keys[0][2],
                       lifetime=3600000, frag_offset=None, total_adu_len=None, crc=None)
            unfrag = (keys[0], 0, total, bpv7.encode(dict(primary=pri, blocks=[dict(blk) for blk in exts] +
                                                          [dict(type=1, num=1, flags=0, crc_type=0, data=payload, crc=None)])))
            for single in (whole, unfrag):
                for arrivals2 in (sets[0] + [single], [single] + sets[0], [single, single], [whole, unfrag], [unfrag, whole],
                                  sets[0][:1] + [single] + sets[0][1:]):
                    obs['whole_adu_histories'] = obs.get('whole_adu_histories', 0) + 1
                    play(list(arrivals2), originals, 'whole-adu-fragment' if single is whole else 'unfragmented-copy')
    elif kind == 'rand':
        for _ in range(case['count']):
            keys = _bundle_set(rng, 1)
            total = rng.choice([64, 300, 1000, 4000])
            payload = pattern(rng.randrange(100), total)
            exts = [dict(blk) for blk in rng.sample(EXTS, rng.randint(0, len(EXTS)))]
            originals = {keys[0]: (total, payload, exts)}
            nfrag = rng.choice([2, 7, 30, 200])
            cuts = sorted(set(rng.sample(range(1, total), min(total - 1, nfrag - 1))))
            bounds = [0] + cuts + [total]
            arrivals = [(keys[0], lo, hi, make_fragment(keys[0], total, lo, hi, payload, exts)) for lo, hi in zip(bounds[:-1], bounds[1:])]
            rng.shuffle(arrivals)
            for _dup in range(rng.choice([0, 1, 3])):
                arrivals.insert(rng.randrange(len(arrivals) + 1), rng.choice(arrivals))
                obs['duplicates_injected'] += 1
            play(arrivals, originals, 'rand')
    elif kind == 'inter':
        for _ in range(case['count']):
            keys = _bundle_set(rng, rng.choice([2, 3]))
            originals, arrivals = _make_arrivals(rng, keys, ['uniform', 'uneven', 'overlap', 'nested'])
            rng.shuffle(arrivals)
            obs['interleaved_histories'] += 1
            play(arrivals, originals, 'interleaved')
            # every fragment arrives a second time after the bundles were reassembled (a retransmitting neighbour): no second delivery
            again = list(arrivals)
            rng.shuffle(again)
            obs['replayed_histories'] = obs.get('replayed_histories', 0) + 1
            obs['duplicates_injected'] += len(again)
            play(arrivals + again, originals, 'interleaved-then-replayed')
            # the same fragments, several per loop turn (the completing fragments of two bundles can arrive in one burst)
            group = rng.choice([2, 3, len(arrivals)])
            for item in run_history_bursts(arrivals, originals, obs, group):
                violations.append(dict(key=None, what='[interleaved-bursts] %s' % item,
                                       detail=dict(arrivals=[(str(a[0]), a[1], a[2]) for a in arrivals][:40], group=group)))
            evaluations += 1
    elif kind == 'many':
        # many bundles in reassembly at the same time: all first halves, then all second halves (or one straggler at the very end)
        for _ in range(case['count']):
            nbundles = rng.choice([17, 20, 33, 70])
            keys = _bundle_set(rng, nbundles)
            originals, arrivals = _make_arrivals(rng, keys, ['uniform'])
            firsts = [arr for arr in arrivals if arr[1] == 0]
            rest = [arr for arr in arrivals if arr[1] != 0]
            if rng.random() < 0.5:
                rng.shuffle(rest)
            obs['interleaved_histories'] += 1
            obs['many_pending_histories'] = obs.get('many_pending_histories', 0) + 1
            play(firsts + rest, originals, 'many-pending')
    elif kind == 'real':
        from vf.props import c05
        for _ in range(case['count']):
            pri_crc, pay_crc, exts = c05._conf(rng.randrange(36), rng)
            plen = rng.choice([60, 200, 700])
            bundle = c05.make_bundle(pri_crc, pay_crc, exts, plen, dest=DEST, seq=rng.randrange(1000))
            bundle['primary']['dest'] = 'dtn://far/app'
            full = len(bpv7.encode(bundle))
            outs, _err, _loop, _res = c05.do_send(bundle, full - plen + rng.randint(8, 60), 'local')
            frags = []
            for data in outs:
                dec, _ = bpv7.decode(data)
                if dec['primary']['flags'] & bpv7.FLAG_IS_FRAGMENT:
                    # readdress to the receiving node (the destination is not part of the identity)
                    dec['primary']['dest'] = DEST
                    pay = bpv7.payload_of(dec)
                    frags.append((dec['primary']['frag_offset'], dec['primary']['frag_offset'] + len(pay['data']), bpv7.encode(dec)))
            if len(frags) < 2:
                continue
            key = (bundle['primary']['src'], bundle['primary']['create_time'], bundle['primary']['seqno'])
            payload = bpv7.payload_of(bundle)['data']
            originals = {key: (len(payload), payload, [dict(blk, crc=None) for blk in bundle['blocks'] if blk['type'] != 1])}
            arrivals = [(key, lo, hi, enc) for (lo, hi, enc) in frags]
            rng.shuffle(arrivals)
            obs['real_fragmenter_sets'] += 1
            play(arrivals, originals, 'real-fragmenter')
    uniq = {}
    for viol in violations:
        uniq.setdefault((viol['key'], viol['what'].split(']')[0], viol['what'].split(': ', 1)[-1][:40]), viol)
    violations = list(uniq.values())[:16]
    return dict(verdict='violated' if violations else 'held', nontrivial=bool(classes), cls=classes, obs=obs,
                violations=violations, sample=sample, evaluations=evaluations)


def classify(problem, same_offset_pair):
    return None
