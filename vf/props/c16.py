''' C16 -- COSE confidentiality blocks encrypt, bind context and decrypt exactly.

Monitors: (a) the octets the real source agent hands to the CL, decoded by the independent RFC 9171 decoder: the target
block data must be the AES-GCM encryption of the plaintext under the configured key, the IV in the message and the
external AAD built independently (decided by independent decryption + authentication and, for direct keys, by
re-encryption and octet equality), and the plaintext must not appear in the transmitted octets; (b) a real receiver with
the key and acceptance on must hand exactly the plaintext to the application step, with the BCB removed; (c) every
single-bit flip / field edit is classified by the octet spans that the authenticated context covers and by the
independent verdict, and pushed through a real receiver: no delivery and no plaintext at the application step.
'''
import random

from vf.oracles import bpv7
from vf.oracles import cbor_walk as cw
from vf.oracles import cose_bpsec as cb
from vf.props import c03

PROPERTY_ID = 'C16'
RULE = ('plaintexts of 0,1,2,15,16,17,31,32,33,64,100,255,256,300,1000 and random lengths x bundles with 0-2 extension blocks '
        'and CRC types x modes COSE_Encrypt0 A256GCM / A128GCM (direct key) and COSE_Encrypt A256GCM with an A256KW-wrapped '
        'content key x one or two targets per confidentiality block x oracle-built COSE_Encrypt with 1-3 recipients (the usable one first, last, in the middle, none) x fixed and generated IVs x receiver accept on/off; status reports generated and encrypted by the real agent (administrative record as plaintext); mutations: EVERY single-bit flip of the encoding for '
        'bundles <= 300 octets (sampled above), field-level edits with CRCs recomputed (primary fields, target flags/data, '
        'security source, scope map, protected header, IV, key id, wrapped key, GCM tag octets), wrong and missing keys. '
        'Non-trivial = a bundle carrying a confidentiality block for which oracle and receiver both produced a verdict; '
        'distinct = distinct byte string.')
ASSUMPTIONS = [
    'vf/oracles/cose_bpsec.py is an independent implementation of the AAD, Enc_structure, AES-GCM (cryptography AESGCM) and RFC 3394 key wrap',
    'a mutant whose security block is no longer recognisable as one (type code changed) carries no obligation',
    'plaintext release is judged at the application step (chain order 29.5) for plaintexts of at least 4 octets',
]
DECIDING = ['bp.app.bpsec:CoseContext.apply_bcb', 'bp.app.bpsec:CoseContext.verify_bcb', 'bp.app.bpsec:CoseContext.verify_bcb_target',
            'bp.app.bpsec:CoseSecOpCtx.get_external_aad', 'bp.app.bpsec:CoseSecOpCtx.decode_msg']
REQUIRED_OBS = ['wire_ciphertext_confirmed', 'reencrypt_equal', 'plaintext_recovered', 'empty_plaintexts', 'kw_bundles',
                'mutants_expect_reject', 'mutants_expect_accept', 'verify_fail_seen', 'wrong_key_runs', 'multi_target_bcbs', 'multi_recipient_recovered', 'admin_reports_confirmed', 'admin_reports_recovered', 'typed_target_runs', 'adjacent_bcb_runs', 'handed_bundles_reencoded']

KINDS = ['enc0-256', 'enc0-128', 'enc-kw']
LENGTHS = [0, 1, 2, 15, 16, 17, 31, 32, 33, 64, 100, 255, 256, 300, 1000]


def oracle_keys(kind, keys='all'):
    from vf import sec_harness as sh
    store = sh.oracle_keys(keys)
    if keys == 'all' and kind == 'enc0-128':
        store.sym[b'ek'] = sh.ENC_KEY128
    return store


def plaintext_for(rng, plen):
    return bytes(rng.getrandbits(8) for _ in range(plen))


def produce(kind, bundle, content_iv=None, target_types=(1,)):
    from vf.world.sim import Sim
    from vf import sec_harness as sh
    from vf.gen import bundles as gen
    from bp.util import BundleContainer
    sim = Sim(0, 'eager')
    src = sh.source_node(sim, kind, sec_type='bcb', content_iv=content_iv, target_types=target_types)
    src.send(BundleContainer(gen.to_real(bundle)))
    sim.settle(5000)
    outs = src.cl.datas()
    return outs[0] if len(outs) == 1 else None


def receive(data, kind, keys='all', accept=True):
    from vf.world.sim import Sim
    from vf import sec_harness as sh
    sim = Sim(0, 'eager')
    dst = sh.receiver_node(sim, keys, accept=accept)
    ctx = dst.bpsec_ctx()
    if keys == 'all' and kind == 'enc0-128':
        ctx.sym_key_store[b'ek'] = sh.sym_key(b'ek', sh.ENC_KEY128, 'A128GCM', 'enc')
    log = sh.watch_verify(dst)
    err = dst.recv(data)
    sim.settle(5000)
    return dst, log, err, sim.world.callback_errors


def wire_check(kind, bundle, data, plain, obs):
    ''' Obligations on the transmitted octets.  :return: list of (kind, text) '''
    problems = []
    try:
        dec, issues = bpv7.decode(data)
    except bpv7.DecodeError as err:
        return [('wire', 'transmitted bundle does not decode: %s' % err)]
    bcbs = [blk for blk in dec['blocks'] if blk['type'] == 12]
    if len(bcbs) != 1:
        return [('wire', 'expected one confidentiality block on the wire, found %d' % len(bcbs))]
    target = bpv7.payload_of(dec)
    wire = bytes(target['data'])
    if plain and wire == plain:
        problems.append(('plaintext-on-wire', 'the target block data on the wire is the plaintext'))
    if len(plain) >= 8 and plain in data:
        problems.append(('plaintext-on-wire', 'the plaintext appears in the transmitted octets'))
    if len(wire) != len(plain) + 16:
        problems.append(('wire', 'ciphertext is %d octets for %d octets of plaintext (AES-GCM adds 16)' % (len(wire), len(plain))))
    keys = oracle_keys(kind)
    try:
        out = cb.verify_block(dec, bcbs[0], keys, 'bcb')
    except cb.SecError as err:
        problems.append(('wire', 'the confidentiality block produced by the agent does not decrypt independently: %s' % err))
        return problems
    orig_by_num = {blk['num']: blk for blk in bundle['blocks']}
    for tnum, recovered in out.items():
        if tnum != target['num'] and tnum in orig_by_num:
            wire_other = next(blk for blk in dec['blocks'] if blk['num'] == tnum)['data']
            if recovered != orig_by_num[tnum]['data']:
                problems.append(('wire', 'independent decryption of target block %d differs from its plaintext' % tnum))
            if orig_by_num[tnum]['data'] and wire_other == orig_by_num[tnum]['data']:
                problems.append(('plaintext-on-wire', 'the data of target block %d on the wire is the plaintext' % tnum))
    if out.get(target['num']) != plain:
        problems.append(('wire', 'independent decryption yields %d octets that differ from the plaintext' % len(out.get(target['num']) or b'')))
    else:
        obs['wire_ciphertext_confirmed'] += 1
    # explicit re-encryption for the direct-key modes
    asb = cb.parse_asb(bcbs[0]['data'])
    (rid, rval) = asb['results'][0][0]
    msg = cw.parse_all(rval).to_python()
    scope = dict(next((val for (pid, val) in asb['params'] if pid == 5), {0: 1, -1: 1, -2: 1}))
    addl = next((val for (pid, val) in asb['params'] if pid == 3), b'')
    ext_aad = cb.external_aad(dec, bcbs[0], target, scope, addl, asb['source_item'])
    if rid == cb.TAG_ENC0:
        from vf import sec_harness as sh
        uhdr = msg[1]
        key = sh.ENC_KEY128 if kind == 'enc0-128' else sh.ENC_KEY
        again = cb.gcm_encrypt(key, uhdr.get(5) or cw.parse_all(msg[0]).to_python().get(5), plain, cb.enc_aad('Encrypt0', msg[0], ext_aad))
        if again != wire:
            problems.append(('wire', 'independent AES-GCM encryption of the plaintext differs from the wire data'))
        else:
            obs['reencrypt_equal'] += 1
    elif rid == cb.TAG_ENC:
        from vf import sec_harness as sh
        recip = msg[3][0]
        cek = cb.kw_unwrap(sh.KEK, recip[2])
        phdr = cw.parse_all(msg[0]).to_python() if msg[0] else {}
        nonce = msg[1].get(5) or phdr.get(5)
        again = cb.gcm_encrypt(cek, nonce, plain, cb.enc_aad('Encrypt', msg[0], ext_aad))
        if again != wire:
            problems.append(('wire', 'independent AES-GCM encryption under the unwrapped content key differs from the wire data'))
        else:
            obs['reencrypt_equal'] += 1
            obs['kw_bundles'] += 1
        if cek in data:
            problems.append(('key-on-wire', 'the content encryption key appears unwrapped in the transmitted octets'))
    else:
        problems.append(('wire', 'result type %d in a confidentiality block' % rid))
    return problems


def judge(mutant, kind, plain, obs, label, keys='all', location=None, accept=True):
    verdict, why = cb.verify_bundle(mutant, oracle_keys(kind, keys))
    if verdict == 'none':
        obs['mutants_no_security_block'] += 1
        return []
    crypto_fail = verdict == 'fail' and any(why.startswith(text) for text in c03.CRYPTO_FAILS)
    dst, log, err, loop_errs = receive(mutant, kind, keys, accept)
    fails = [item for item in log if item[2] != 'ok']
    delivered = dst.delivered()
    released = [rec for rec in dst.observed if len(plain) >= 4 and rec['payload'] == plain]
    problems = []
    # exceptions out of the bundle decoder for mutated octets are C08's subject; C12 covers exceptions in the security steps
    expect_reject = (location is not None and location[0] == 'covered') or crypto_fail
    if expect_reject:
        obs['mutants_expect_reject'] += 1
        if fails:
            obs['verify_fail_seen'] += 1
        where = (' (in %s)' % location[1]) if location else ''
        if delivered:
            problems.append(('accepted-altered', '%s%s: delivered although decryption must fail; independent verdict %s %s; receiver log %s' % (
                label, where, verdict, why[:50], log[:2])))
        if released:
            problems.append(('plaintext-released', '%s%s: the plaintext reached the application step although decryption must fail' % (label, where)))
    elif verdict == 'ok':
        obs['mutants_expect_accept'] += 1
        if fails:
            problems.append(('false-reject', '%s: the independent decryption succeeds but the receiver failed: %s' % (label, fails[:1])))
        elif accept and delivered and delivered[0]['payload'] != plain:
            problems.append(('wrong-plaintext', '%s: delivered payload differs from the plaintext' % label))
    else:
        obs['mutants_structural_no_obligation'] += 1
        if released and not delivered:
            pass
        if location is not None and location[0] == 'outside' and fails:
            problems.append(('false-reject', '%s (in %s): decryption failed although only content outside the scope was altered: %s' % (
                label, location[1], fails[:1])))
    return problems


def bcb_field_mutants(data, rng):
    ''' Edits specific to the confidentiality block, re-encoded with correct CRCs. '''
    dec, _ = bpv7.decode(data)
    out = []

    def emit(label, edit):
        work = dict(primary=dict(dec['primary']), blocks=[dict(blk) for blk in dec['blocks']])
        try:
            edit(work)
            out.append((bpv7.encode(work), label))
        except Exception:  # pylint: disable=broad-except
            pass

    def target(w):
        return next(blk for blk in w['blocks'] if blk['type'] == 1)

    def bcb(w):
        return next(blk for blk in w['blocks'] if blk['type'] == 12)

    def edit_msg(w, func):
        blk = bcb(w)
        asb = cb.parse_asb(blk['data'])
        (rid, rval) = asb['results'][0][0]
        msg = cw.parse_all(rval).to_python()
        func(msg)
        asb['results'][0][0] = (rid, cw.enc(msg))
        blk['data'] = cb.encode_asb(asb)

    def flip(bstr, pos=None):
        arr = bytearray(bstr)
        pos = len(arr) // 2 if pos is None else pos
        arr[pos] ^= 0x10
        return bytes(arr)

    emit('GCM tag octet (last of the ciphertext)', lambda w: target(w).update(data=flip(target(w)['data'], -1)))
    emit('ciphertext first octet', lambda w: target(w).update(data=flip(target(w)['data'], 0)))
    emit('ciphertext truncated by one', lambda w: target(w).update(data=target(w)['data'][:-1]))
    emit('ciphertext extended by one', lambda w: target(w).update(data=target(w)['data'] + b'\x00'))
    emit('ciphertext replaced by zeros', lambda w: target(w).update(data=bytes(len(target(w)['data']))))
    emit('IV', lambda w: edit_msg(w, lambda m: m[1].update({5: flip(m[1][5])})))
    emit('key id', lambda w: edit_msg(w, lambda m: m[1].update({4: b'zz'}) if 4 in m[1] else m[3][0][1].update({4: b'zz'})))
    emit('wrapped content key', lambda w: edit_msg(w, lambda m: m[3][0].__setitem__(2, flip(m[3][0][2]))))
    def edit_asb(w, func):
        blk = bcb(w)
        asb = cb.parse_asb(blk['data'])
        func(asb)
        blk['data'] = cb.encode_asb(asb)

    # the result entries are what is checked: with one taken away (or all of them) a target is left without any check
    emit('last result entry of the confidentiality block removed', lambda w: edit_asb(w, lambda asb: asb.update(results=asb['results'][:-1])))
    emit('every result entry of the confidentiality block removed', lambda w: edit_asb(w, lambda asb: asb.update(results=[])))
    emit('content algorithm in the protected header', lambda w: edit_msg(w, lambda m: m.__setitem__(0, cw.enc({1: 1 if cw.parse_all(m[0]).to_python().get(1) == 3 else 3}))))
    return out


def check_partial_keys(case, obs):
    ''' Two confidentiality policies match one bundle (the payload and an extension block, different key ids) and the key of one
    of them is not in the key store.  Whatever the source then does, a confidentiality block that is on the wire names only
    blocks whose data is not their plaintext, carries one result per target and decrypts independently. '''
    import re
    from vf.world.sim import Sim
    from vf import sec_harness as sh
    from vf import bp_harness as bh
    from bp.app import bpsec
    from bp.util import BundleContainer
    from vf.gen import bundles as gen
    rng = random.Random(case['seed'] + 4242)
    problems = []
    for missing in ('payload', 'extension', 'none'):
        for rep in range(3):
            sim = Sim(0, 'eager')
            src = bh.BpNode(sim, sh.SRC_NODE, name='src', tx_routes=[dict(pattern=r'.*')])
            ctx = src.bpsec_ctx()
            ctx.sec_assoc = []
            ctx.sym_key_store[b'ek'] = sh.sym_key(b'ek', sh.ENC_KEY, 'A256GCM', 'enc')
            ctx.sym_key_store[b'ek128'] = sh.sym_key(b'ek128', sh.ENC_KEY128, 'A128GCM', 'enc')
            kids = {'payload': b'ek', 'extension': b'ek128'}
            if missing in kids:
                kids[missing] = b'not-provisioned'
            order = [('payload', 1), ('extension', 192)]
            if rep % 2:
                order.reverse()
            for (name, btype) in order:
                ctx.sec_assoc.append(bpsec.SecAssociation(
                    src_pat=re.compile('.*'), dst_pat=re.compile('.*'), tgt_blk_types=[btype],
                    templates=[bpsec.SecOperation(sec_type='bcb', role='source', priv_key_id=kids[name],
                                                  content_iv=[bytes([rng.randrange(256)] * 12), bytes([rng.randrange(256)] * 12)])]))
            plain = bytes(((pos * 29) ^ rep ^ 0x5a) & 0xFF for pos in range(rng.choice([8, 16, 40])))
            ext_plain = bytes(((pos * 7) ^ 0x11) & 0xFF for pos in range(10))
            pri = dict(version=7, flags=0, crc_type=rep % 3, dest='dtn://dst-node/app', src=sh.SRC_NODE + 'app', report_to='dtn:none',
                       create_time=820540000000 + rep, seqno=rep, lifetime=3600000, frag_offset=None, total_adu_len=None, crc=None)
            bundle = dict(primary=pri, blocks=[dict(type=192, num=4, flags=0, crc_type=rep % 3, data=ext_plain, crc=None),
                                               dict(type=1, num=1, flags=0, crc_type=rep % 3, data=plain, crc=None)])
            src.send(BundleContainer(gen.to_real(bundle)))
            sim.settle(5000)
            obs['partial_key_sends'] = obs.get('partial_key_sends', 0) + 1
            for data in src.cl.datas():
                try:
                    dec, _issues = bpv7.decode(data)
                except bpv7.DecodeError as err:
                    problems.append(('wire', 'key of the %s policy missing: the transmitted bundle does not decode: %s' % (missing, err)))
                    continue
                by_num = {blk['num']: blk for blk in dec['blocks']}
                for bcb in [blk for blk in dec['blocks'] if blk['type'] == 12]:
                    obs['partial_key_bcbs_on_wire'] = obs.get('partial_key_bcbs_on_wire', 0) + 1
                    try:
                        asb = cb.parse_asb(bcb['data'])
                    except Exception as err:  # pylint: disable=broad-except
                        problems.append(('wire', 'key of the %s policy missing: the confidentiality block on the wire does not parse: %s' % (missing, err)))
                        continue
                    if len(asb['results']) != len(asb['targets']):
                        problems.append(('wire', 'key of the %s policy missing: the confidentiality block names %d target(s) %r and carries %d result array(s)' % (
                            missing, len(asb['targets']), asb['targets'], len(asb['results']))))
                    for tnum in asb['targets']:
                        want = {1: plain, 4: ext_plain}.get(tnum)
                        if want is not None and tnum in by_num and bytes(by_num[tnum]['data']) == want:
                            problems.append(('plaintext-on-wire', 'key of the %s policy missing: a confidentiality block on the wire names block %d as its '
                                             'target and that block carries its plaintext' % (missing, tnum)))
    return problems


def cases(tier, seed):
    out = []
    thorough = tier == 'thorough'
    idx = 0
    out.append(dict(id='partial-keys', kind='partial-keys', cose='enc0-256', seed=seed))
    for kind in KINDS:
        for lidx, plen in enumerate(LENGTHS):
            out.append(dict(id='roundtrip-%s-%d' % (kind, plen), kind='roundtrip', cose=kind, plen=plen, seed=seed * 211 + idx, reps=4 if thorough else 1))
            idx += 1
        reps = 96 if thorough else 2
        for rep in range(reps):
            out.append(dict(id='flips-%s-%d' % (kind, rep), kind='flips', cose=kind, seed=seed * 101 + idx, limit=None if (thorough or rep == 0) else 900))
            out.append(dict(id='fields-%s-%d' % (kind, rep), kind='fields', cose=kind, seed=seed * 103 + idx))
            idx += 1
    for kind in KINDS:
        for rep in range(24 if thorough else 1):
            out.append(dict(id='multi-flips-%s-%d' % (kind, rep), kind='flips', cose=kind, seed=seed * 131 + idx, multi=True, limit=None if thorough else 1500))
            out.append(dict(id='multi-fields-%s-%d' % (kind, rep), kind='fields', cose=kind, seed=seed * 137 + idx, multi=True))
            out.append(dict(id='multi-roundtrip-%s-%d' % (kind, rep), kind='roundtrip', cose=kind, plen=rng_len(seed, idx), seed=seed * 139 + idx, reps=1, multi=True))
            idx += 1
    out.append(dict(id='recipients', kind='recipients', seed=seed, reps=6 if thorough else 2))
    for kind in KINDS:
        out.append(dict(id='admin-%s' % kind, kind='admin', cose=kind, seed=seed * 149 + idx, reps=8 if thorough else 2))
    out.append(dict(id='adjacent', kind='adjacent', seed=seed, reps=120 if thorough else 3))
    out.append(dict(id='typed-target', kind='typed-target', seed=seed, reps=12 if thorough else 2))
    out.append(dict(id='keys', kind='keys', seed=seed))
    return out


def oracle_bcb_bundle(rng, plain, recipients, crc=0, seq=9):
    ''' A bundle whose confidentiality block (COSE_Encrypt, A256GCM, content key wrapped per recipient) is built by the oracle. '''
    from vf import sec_harness as sh
    bundle = c03.base_bundle(rng, 0, next_=1, crc=crc, seq=seq)
    pay = bpv7.payload_of(bundle)
    sec = dict(type=12, num=2, flags=0, crc_type=crc, data=b'', crc=None)
    bundle['blocks'].insert(0, sec)
    scope = {0: 1, -1: 1}
    source_item = bpv7.eid_to_item(sh.SRC_NODE)
    ext_aad = cb.external_aad(bundle, sec, pay, scope, b'', source_item)
    cek = bytes(rng.getrandbits(8) for _ in range(32))
    result, ciphertext = cb.make_enc_kw_result(3, recipients, cek, bytes(rng.getrandbits(8) for _ in range(12)), ext_aad, plain)
    pay['data'] = ciphertext
    sec['data'] = cb.encode_asb(dict(targets=[1], context_id=3, flags=1, source=sh.SRC_NODE, params=[(5, scope)], results=[[result]]))
    return bpv7.encode(bundle)


def rng_len(seed, idx):
    return [0, 1, 16, 33, 200][(seed + idx) % 5]


def run_case(case):
    from vf import sec_harness as sh
    obs = dict(wire_ciphertext_confirmed=0, reencrypt_equal=0, plaintext_recovered=0, empty_plaintexts=0, kw_bundles=0, mutants_expect_reject=0,
               mutants_expect_accept=0, verify_fail_seen=0, wrong_key_runs=0, mutants_no_security_block=0, mutants_structural_no_obligation=0,
               delivered_ciphertext_without_accept=0, distinct_generated_ivs=0, multi_target_bcbs=0, multi_recipient_runs=0, multi_recipient_recovered=0, admin_reports_confirmed=0, admin_reports_recovered=0)
    rng = random.Random(case['seed'])
    violations = []
    classes = set()
    sample = None
    evaluations = 0

    def note(problems, mutant, desc):
        nonlocal sample, evaluations
        evaluations += 1
        classes.add(hash(mutant) & 0xFFFFFFFFFFFF)
        if sample is None:
            sample = dict(case=case['id'], what=desc, bundle=mutant.hex()[:240])
        for (kind, text) in problems:
            violations.append(dict(key=None, what='[%s] %s' % (kind, text), detail=dict(mutant=mutant.hex(), case=desc)))

    multi = bool(case.get('multi'))

    def make(kind, plen, fixed_iv):
        bundle = c03.base_bundle(rng, 0, next_=rng.choice([1, 2]) if multi else rng.choice([0, 1, 2]), crc=rng.choice([0, 1, 2]), seq=rng.randrange(1, 1000),
                                 force_types=(192,) if multi else ())
        plain = plaintext_for(rng, plen)
        bpv7.payload_of(bundle)['data'] = plain
        iv = [bytes(rng.getrandbits(8) for _ in range(12)) for _ in range(2)] if fixed_iv else None
        data = produce(kind, bundle, iv, target_types=(1, 192) if multi else (1,))
        if multi and data:
            dec0, _p = bpv7.decode(data)
            if len(cb.parse_asb(next(blk for blk in dec0['blocks'] if blk['type'] == 12)['data'])['targets']) >= 2:
                obs['multi_target_bcbs'] += 1
        return bundle, plain, data

    try:
        kind = case['kind']
        if kind == 'partial-keys':
            note(check_partial_keys(case, obs), b'partial-keys', 'two confidentiality policies, one key not provisioned')
        elif kind == 'roundtrip':
            cose = case['cose']
            ivs = set()
            for rep in range(case['reps'] * 2):
                bundle, plain, data = make(cose, case['plen'] if rep < 2 else rng.randrange(0, 600), fixed_iv=(rep % 2 == 0))
                if data is None:
                    return dict(verdict='inconclusive', nontrivial=False, cls='x', obs=obs, violations=[],
                                inconclusive_reason='source agent produced no single output for %s' % cose)
                problems = wire_check(cose, bundle, data, plain, obs)
                if not plain:
                    obs['empty_plaintexts'] += 1
                for accept in (True, False):
                    dst, log, err, loop_errs = receive(data, cose, 'all', accept)
                    delivered = dst.delivered()
                    if err is not None or loop_errs:
                        problems.append(('raised', 'unmodified %s bundle: exception escaped the receive path: %s' % (cose, err or loop_errs[0].exc)))
                    if len(delivered) != 1:
                        problems.append(('not-recovered', 'unmodified %s bundle (plaintext %d octets, accept=%s) was delivered %d times; receiver log %s' % (
                            cose, len(plain), accept, len(delivered), log[:2])))
                    elif accept:
                        rec = delivered[0]
                        if rec['payload'] != plain:
                            problems.append(('not-recovered', 'receiver with the key recovered %d octets that differ from the %d-octet plaintext' % (
                                len(rec['payload'] or b''), len(plain))))
                        elif any(blk[0] == 12 for blk in rec['blocks']):
                            problems.append(('not-recovered', 'the accepted confidentiality block is still present next to the plaintext'))
                        else:
                            obs['plaintext_recovered'] += 1
                            # the accepted bundle as the application gets it when it encodes / reloads what it was handed
                            try:
                                handed = bytes(dst.observed_ctrs[dst.observed.index(rec)].bundle)
                                hpay = bpv7.payload_of(bpv7.decode(handed, strict=False)[0])
                                obs['handed_bundles_reencoded'] = obs.get('handed_bundles_reencoded', 0) + 1
                                if hpay is None or hpay['data'] != plain:
                                    problems.append(('not-recovered', 'the accepted bundle, encoded as handed to the application, carries %d octets (%s...) in the '
                                                     'target block instead of the %d-octet plaintext' % (len(hpay['data']) if hpay else -1,
                                                                                                        (hpay['data'] if hpay else b'').hex()[:24], len(plain))))
                            except Exception as herr:  # pylint: disable=broad-except
                                obs['handed_bundles_not_encodable'] = obs.get('handed_bundles_not_encodable', 0) + 1
                    else:
                        if delivered[0]['payload'] == bpv7.payload_of(bpv7.decode(data)[0])['data']:
                            obs['delivered_ciphertext_without_accept'] += 1
                note(problems, data, 'unmodified %s plaintext %d accept both' % (cose, len(plain)))
                if rep % 2 == 1:
                    dec, _ = bpv7.decode(data)
                    asb = cb.parse_asb(next(blk for blk in dec['blocks'] if blk['type'] == 12)['data'])
                    msg = cw.parse_all(asb['results'][0][0][1]).to_python()
                    ivs.add(msg[1].get(5))
            obs['distinct_generated_ivs'] = len(ivs)
        elif kind in ('flips', 'fields'):
            cose = case['cose']
            plen = rng.choice([0, 5, 24, 60]) if kind == 'flips' else rng.choice([5, 100, 300])
            bundle, plain, data = make(cose, plen, fixed_iv=rng.choice([True, False]))
            problems = wire_check(cose, bundle, data, plain, obs) if data else [('wire', 'no output')]
            note(problems, data or b'', 'unmodified %s' % cose)
            if not problems:
                if kind == 'flips':
                    covered, outside = c03.covered_spans(data, 12)
                    count = 0
                    for mutant, label, pos in c03.bit_flips(data, rng, case.get('limit')):
                        count += 1
                        note(judge(mutant, cose, plain, obs, label, location=c03._locate(pos, covered, outside), accept=(count % 4 != 0)), mutant, label)
                else:
                    for mutant, label in c03.field_mutants(data, rng, 12) + bcb_field_mutants(data, rng):
                        for accept in (True, False):
                            note(judge(mutant, cose, plain, obs, label, accept=accept), mutant + bytes([accept]), label)
        elif kind == 'admin':
            # status reports generated by an agent that encrypts what it sources: the administrative record is the plaintext
            import re
            from vf.world.sim import Sim
            from bp import config as bp_config
            cose = case['cose']
            for rep in range(case['reps']):
                sim = Sim(0, 'eager')
                src = sh.source_node(sim, cose, sec_type='bcb')
                src.cfg.rx_route_table.append(bp_config.RxRouteItem(eid_pattern=re.compile(r'dtn://src-node/.*'), action='deliver'))
                subject = c03.base_bundle(rng, rng.choice([0, 10, 100]), crc=rng.choice([0, 1, 2]), seq=rep + 1)
                subject['primary'].update(dest='dtn://src-node/app', src='dtn://other/x', report_to=sh.DST_NODE,
                                          flags=bpv7.FLAG_REQ_RECEPTION | bpv7.FLAG_REQ_DELIVERY | rng.choice([0, bpv7.FLAG_REQ_STATUS_TIME]))
                src.recv(bpv7.encode(subject))
                sim.settle(5000)
                outs = src.cl.datas()
                problems = []
                if len(outs) != 1:
                    problems.append(('wire', 'expected one status report bundle from the source, got %d' % len(outs)))
                    note(problems, b'', 'admin %s' % cose)
                    continue
                data = outs[0]
                dec, _p = bpv7.decode(data)
                wire_pay = bpv7.payload_of(dec)['data']
                bcbs = [blk for blk in dec['blocks'] if blk['type'] == 12]
                plain = None
                if not (dec['primary']['flags'] & bpv7.FLAG_ADMIN) or len(bcbs) != 1:
                    problems.append(('wire', 'status report left the source with %d confidentiality blocks (flags 0x%x)' % (len(bcbs), dec['primary']['flags'])))
                else:
                    try:
                        plain = cb.verify_block(dec, bcbs[0], oracle_keys(cose), 'bcb').get(1)
                        rec = bpv7.decode_admin_record(plain)
                        if rec['record_type'] != 1 or rec['subj_src'] != 'dtn://other/x':
                            problems.append(('wire', 'decrypted payload is not the status report about the subject: %r' % (rec,)))
                        else:
                            obs['admin_reports_confirmed'] += 1
                    except (cb.SecError, bpv7.DecodeError) as err:
                        problems.append(('wire', 'the payload of the status report on the wire does not decrypt independently to an administrative record: %s' % err))
                    try:
                        bpv7.decode_admin_record(wire_pay)
                        problems.append(('plaintext-on-wire', 'the status report is readable on the wire although a confidentiality block targets it'))
                    except bpv7.DecodeError:
                        pass
                if plain is not None:
                    for accept in (True, False):
                        dst, log, err, loop_errs = receive(data, cose, 'all', accept)
                        seen = [rec for rec in dst.observed]
                        if err is not None or loop_errs:
                            problems.append(('raised', 'receiving the encrypted status report raised %s' % (err or loop_errs[0].exc)))
                        elif accept and not any(rec['payload'] == plain for rec in seen):
                            problems.append(('not-recovered', 'the receiver with the key did not recover the administrative record (log %s, seen %d)' % (log[:2], len(seen))))
                        elif accept:
                            obs['admin_reports_recovered'] += 1
                note(problems, data, 'admin %s' % cose)
        elif kind == 'recipients':
            # COSE_Encrypt with several recipients: any one usable recipient is enough, wherever it stands in the list
            layouts = [[(b'kk', sh.KEK)], [(b'kk', sh.KEK), (b'nobody', None)], [(b'nobody', None), (b'kk', sh.KEK)],
                       [(b'kk', None), (b'kk', sh.KEK)], [(b'x1', None), (b'kk', sh.KEK), (b'x2', None)], [(b'nobody', None)], [(b'kk', None)]]
            for rep in range(case['reps']):
                for layout in layouts:
                    plain = plaintext_for(rng, rng.choice([0, 5, 40, 300]))
                    data = oracle_bcb_bundle(rng, plain, layout, crc=rng.choice([0, 2]), seq=rep + 1)
                    usable = any(kek is not None for (_kid, kek) in layout)
                    verdict, why = cb.verify_bundle(data, oracle_keys('enc-kw'))
                    assert (verdict == 'ok') == usable, (verdict, why, layout)
                    label = 'COSE_Encrypt with recipients %s' % [(kid.decode(), 'usable' if kek else 'unusable') for (kid, kek) in layout]
                    for accept in (True, False):
                        obs['multi_recipient_runs'] += 1
                        problems = judge(data, 'enc-kw', plain, obs, label, accept=accept)
                        if usable:
                            dst, log, err, _le = receive(data, 'enc-kw', 'all', accept)
                            delivered = dst.delivered()
                            if len(delivered) != 1 or (accept and delivered[0]['payload'] != plain):
                                problems.append(('not-recovered', '%s: a receiver holding the key of one recipient did not recover the plaintext '
                                                 '(deliveries %d, log %s)' % (label, len(delivered), log[:2])))
                            else:
                                obs['multi_recipient_recovered'] += 1
                        note(problems, data + bytes([accept]), label)
        elif kind == 'typed-target':
            # the target is a block the agent itself builds from a typed layer (Bundle Age, Hop Count, Previous Node: the way the
            # forwarder writes them, without an explicit type code): what leaves is still a well-formed block of that type whose
            # data is ciphertext, and a receiver with the key gets the bundle
            from vf.world.sim import Sim
            from bp.util import BundleContainer
            from bp.encoding import Bundle, PrimaryBlock, CanonicalBlock, Timestamp, BundleAgeBlock, HopCountBlock, PreviousNodeBlock
            for rep in range(case['reps']):
                for (tcode, make_layer) in ((7, lambda: BundleAgeBlock(age=1000 + rep)), (10, lambda: HopCountBlock(limit=30, count=rep)),
                                            (6, lambda: PreviousNodeBlock(node='dtn://prev/'))):
                    for cose in ('enc0-256', 'enc-kw'):
                        sim = Sim(0, 'eager')
                        src = sh.source_node(sim, cose, sec_type='bcb', target_types=(1, tcode),
                                             content_iv=[bytes(rng.getrandbits(8) for _ in range(12)) for _ in range(2)])
                        plain = plaintext_for(rng, rng.choice([5, 40]))
                        real = Bundle(primary=PrimaryBlock(destination='dtn://dst-node/app', source='dtn://src-node/app', report_to='dtn:none',
                                                           create_ts=Timestamp(dtntime=820540000000 + rep, seqno=rep), lifetime=3600000, crc_type=rng.choice([0, 2])),
                                      blocks=[CanonicalBlock(block_num=4) / make_layer(), CanonicalBlock(type_code=1, block_num=1, btsd=plain)])
                        src.send(BundleContainer(real))
                        sim.settle(5000)
                        outs = src.cl.datas()
                        obs['typed_target_runs'] = obs.get('typed_target_runs', 0) + 1
                        label = 'confidentiality over the payload and a type-%d block built from its typed layer (%s)' % (tcode, cose)
                        problems = []
                        if len(outs) != 1:
                            problems.append(('wire', '%s: %d outputs' % (label, len(outs))))
                            note(problems, b'typed-%d-%d' % (tcode, rep), label)
                            continue
                        data = outs[0]
                        try:
                            dec, probs = bpv7.decode(data)
                            if probs:
                                problems.append(('wire', '%s: the transmitted bundle is not well-formed: %s' % (label, probs[:2])))
                            elif sorted(blk['type'] for blk in dec['blocks']) != sorted([1, 12, tcode]):
                                problems.append(('wire', '%s: transmitted block types %s' % (label, [blk['type'] for blk in dec['blocks']])))
                        except bpv7.DecodeError as derr:
                            problems.append(('wire', '%s: the transmitted bundle does not decode: %s' % (label, derr)))
                        if not problems:
                            verdict, why = cb.verify_bundle(data, oracle_keys(cose))
                            if verdict != 'ok':
                                problems.append(('wire', '%s: does not decrypt independently: %s' % (label, why[:80])))
                            dst, log, err, _le = receive(data, cose, 'all', True)
                            delivered = dst.delivered()
                            if err is not None or len(delivered) != 1 or delivered[0]['payload'] != plain:
                                problems.append(('not-recovered', '%s: a receiver with the key did not recover the plaintext (deliveries %d, error %s)' % (
                                    label, len(delivered), type(err).__name__ if err else None)))
                            else:
                                obs['plaintext_recovered'] += 1
                        note(problems, data, label)
        elif kind == 'adjacent':
            # two confidentiality blocks next to each other in the block array, over different targets (two sources or two
            # policies each added one): each is processed; with the second one's ciphertext altered nothing is released
            from vf.props import c12
            for rep in range(case['reps']):
                for cls in ('two-adjacent-good', 'two-adjacent-second-bad'):
                    data, plain, _desc = c12.build(cls, 'bcb', rng, False)
                    for accept in (True, False):
                        dst, log, err, _le = receive(data, 'enc0-256', 'all', accept)
                        delivered = dst.delivered()
                        obs['adjacent_bcb_runs'] = obs.get('adjacent_bcb_runs', 0) + 1
                        label = '%s, accept=%s' % (cls, accept)
                        problems = []
                        if err is not None:
                            problems.append(('raised', '%s: receive raised %s' % (label, type(err).__name__)))
                        elif cls == 'two-adjacent-good':
                            left = [blk for blk in (delivered[0]['blocks'] if delivered else []) if blk[0] == 12]
                            if len(delivered) != 1 or (accept and (delivered[0]['payload'] != plain or left)):
                                problems.append(('not-recovered', '%s: a receiver with the key did not recover exactly the plaintext of both targets '
                                                 '(deliveries %d, confidentiality blocks left %s, log %s)' % (label, len(delivered), [(b[0], b[1]) for b in left], log[:3])))
                            else:
                                obs['plaintext_recovered'] += 1
                        elif delivered and accept:
                            problems.append(('accepted-altered', '%s: delivered although the ciphertext of the second block\'s target was altered' % label))
                        note(problems, data + bytes([accept]), label)
        elif kind == 'keys':
            for cose in KINDS:
                bundle, plain, data = make(cose, 40, fixed_iv=False)
                for keys in ('wrong', 'none'):
                    for accept in (True, False):
                        obs['wrong_key_runs'] += 1
                        note(judge(data, cose, plain, obs, 'unmodified %s bundle, receiver key store "%s"' % (cose, keys), keys=keys, accept=accept),
                             data + keys.encode() + bytes([accept]), keys)
    finally:
        sh.cleanup_pki()
        sh._PKI.clear()
    uniq = {}
    for viol in violations:
        uniq.setdefault(viol['what'][:100], viol)
    violations = list(uniq.values())[:14]
    return dict(verdict='violated' if violations else 'held', nontrivial=bool(classes), cls=classes, obs=obs,
                violations=violations, sample=sample, evaluations=evaluations)
