''' RFC 9174 sequence automaton over the decoded octets of one direction of a
TCPCL connection, with cross-stream correlation (MRU, ACK echo).  Only what
property C04 lists is enforced.
'''
from vf.oracles import tcpcl_wire as tw

DATA_TYPES = ('XFER_SEGMENT', 'XFER_ACK', 'XFER_REFUSE', 'KEEPALIVE', 'MSG_REJECT')


def check_direction(msgs, status, peer_msgs, name='?'):
    ''' :param msgs: list of decoded messages this side wrote (contact header first)
    :param status: parse status of the stream ('complete' | 'partial' | 'malformed')
    :param peer_msgs: what the other side wrote
    :return: (list of problem strings, counters dict)
    '''
    problems = []
    counters = dict(messages=len(msgs), segments=0, acks=0, transfers=0, sess_term=0, keepalives=0)
    if status == 'malformed':
        problems.append('%s: octets written are not a sequence of TCPCLv4 messages' % name)
    if not msgs:
        return problems, counters
    first = msgs[0]
    if first['type'] != 'contact' or first['magic'] != tw.MAGIC or first['version'] != 4:
        problems.append('%s: stream does not start with a v4 contact header: %r' % (name, first))
    peer_mru = None
    for msg in peer_msgs:
        if msg['type'] == 'SESS_INIT':
            peer_mru = msg['segment_mru']
            break
    n_init = 0
    term_at = None
    cur = None  # open transfer: dict(id, total, sum)
    used_ids = set()
    for idx, msg in enumerate(msgs[1:], start=1):
        mtype = msg['type']
        if mtype == 'contact':
            problems.append('%s: second contact header at message %d' % (name, idx))
            continue
        if mtype == 'SESS_INIT':
            n_init += 1
            if idx != 1:
                problems.append('%s: SESS_INIT at position %d, not right after the contact header' % (name, idx))
            if n_init > 1:
                problems.append('%s: more than one SESS_INIT' % name)
            continue
        if n_init == 0:
            problems.append('%s: %s before SESS_INIT' % (name, mtype))
        if mtype == 'SESS_TERM':
            counters['sess_term'] += 1
            if term_at is not None:
                problems.append('%s: more than one SESS_TERM' % name)
            term_at = idx
            continue
        if mtype not in DATA_TYPES:
            problems.append('%s: unexpected message type %s' % (name, mtype))
            continue
        if mtype == 'KEEPALIVE':
            counters['keepalives'] += 1
        if mtype == 'XFER_ACK':
            counters['acks'] += 1
        if mtype == 'XFER_SEGMENT':
            counters['segments'] += 1
            flags = msg['flags']
            xid = msg['transfer_id']
            if flags & tw.FLAG_START:
                if term_at is not None:
                    problems.append('%s: transfer %d started after this side sent SESS_TERM' % (name, xid))
                if cur is not None:
                    problems.append('%s: transfer %d starts while transfer %d has not ended' % (name, xid, cur['id']))
                if xid in used_ids:
                    problems.append('%s: transfer id %d reused' % (name, xid))
                used_ids.add(xid)
                counters['transfers'] += 1
                total = tw.get_transfer_length(msg)
                if total is None:
                    problems.append('%s: START segment of transfer %d has no Transfer-Length extension' % (name, xid))
                cur = dict(id=xid, total=total, sum=0)
            else:
                if cur is None:
                    problems.append('%s: segment of transfer %d without START' % (name, xid))
                    cur = dict(id=xid, total=None, sum=0)
                elif xid != cur['id']:
                    problems.append('%s: segment of transfer %d inside transfer %d' % (name, xid, cur['id']))
            cur['sum'] += len(msg['data'])
            if peer_mru is not None and len(msg['data']) > peer_mru:
                problems.append('%s: segment of %d octets exceeds the peer segment MRU %d' % (name, len(msg['data']), peer_mru))
            if flags & tw.FLAG_END:
                if cur['total'] is not None and cur['total'] != cur['sum']:
                    problems.append('%s: transfer %d announced %d octets, segments carry %d' % (name, cur['id'], cur['total'], cur['sum']))
                cur = None
            elif cur['total'] is not None and cur['sum'] >= cur['total']:
                # "only the last segment carries END": the segment that completes the announced length IS the last one
                problems.append('%s: segment completing the announced %d octets of transfer %d carries no END (segments so far carry %d)'
                                % (name, cur['total'], cur['id'], cur['sum']))
    # ACK echo: k-th ACK here answers the k-th segment of the peer
    peer_segments = [msg for msg in peer_msgs if msg['type'] == 'XFER_SEGMENT']
    my_acks = [msg for msg in msgs if msg['type'] == 'XFER_ACK']
    received = {}
    for kth, ack in enumerate(my_acks):
        if kth >= len(peer_segments):
            problems.append('%s: XFER_ACK number %d has no segment to answer' % (name, kth + 1))
            break
        seg = peer_segments[kth]
        if seg['flags'] & tw.FLAG_START:
            received[seg['transfer_id']] = 0
        received[seg['transfer_id']] = received.get(seg['transfer_id'], 0) + len(seg['data'])
        want = (seg['transfer_id'], seg['flags'], received[seg['transfer_id']])
        got = (ack['transfer_id'], ack['flags'], ack['length'])
        if got != want:
            problems.append('%s: XFER_ACK number %d is (id, flags, length) %r, the segment it answers calls for %r' % (name, kth + 1, got, want))
            break
    return problems, counters
