''' Two real TCPCL endpoints in one Sim, with boundary-history and wire-log analysis helpers. '''
import dbus

from vf.oracles import tcpcl_wire as tw
from vf.world.sim import Sim
from vf import tcpcl_harness as th


def payload_for(side, index, length):
    ''' Unique, position-dependent payload: (side, index) is recoverable from the first octets for
    length >= 4 and every octet depends on its offset. '''
    tag = (1 if side == 'A' else 2) * 64 + (index % 61)
    return bytes(((pos * 73) ^ (tag * 11) ^ (pos >> 8) ^ (index * 3)) & 0xFF for pos in range(length))


class PairRun(object):
    ''' A scripted run of endpoints A (active) and B (passive). '''

    def __init__(self, seed=0, policy='fair', cfg_a=None, cfg_b=None, capacity=None):
        self.sim = Sim(seed=seed, policy=policy)
        cfg_a, cfg_b = dict(cfg_a or {}), dict(cfg_b or {})
        self.cfg_a = th.make_config(cfg_a.pop('node_id', 'dtn://node-a/'), **cfg_a)
        self.cfg_b = th.make_config(cfg_b.pop('node_id', 'dtn://node-b/'), **cfg_b)
        (self.a, self.b, self.sock_a, self.sock_b) = th.make_pair(self.sim, self.cfg_a, self.cfg_b, capacity=capacity)
        self.ends = {'A': self.a, 'B': self.b}
        self.queued = {'A': [], 'B': []}  # (tid, payload, event_no)
        self.user_errors = []
        self.sim.state_fn = self._abstract_state
        self.started = False

    def start(self):
        self.b.start()
        self.a.start()
        self.started = True

    def _abstract_state(self):
        ha, hb = self.a.hdl, self.b.hdl
        return (ha._state, hb._state, len(ha._tx_pend_start), len(hb._tx_pend_start), len(ha._tx_pend_ack), len(hb._tx_pend_ack),
                ha._in_term, hb._in_term, bool(self.sock_a.tx.pending()), bool(self.sock_b.tx.pending()))

    # -- user actions (through the D-Bus boundary)
    def send(self, side, payload):
        try:
            tid = str(self.ends[side].call('send_bundle_data', dbus.ByteArray(payload)))
        except Exception as err:  # pylint: disable=broad-except
            self.user_errors.append((side, 'send_bundle_data', err))
            return None
        self.queued[side].append((tid, bytes(payload), self.sim.world.event_no))
        return tid

    def call(self, side, member, *args):
        try:
            return self.ends[side].call(member, *args)
        except Exception as err:  # pylint: disable=broad-except
            self.user_errors.append((side, member, err))
            return err

    def drain(self, side):
        ''' Pop everything in the receive queue.  :return: list of (tid, bytes) in queue order. '''
        out = []
        queue = self.call(side, 'recv_bundle_get_queue')
        if isinstance(queue, Exception):
            return out
        for tid in list(queue):
            data = self.call(side, 'recv_bundle_pop_data', str(tid))
            if not isinstance(data, Exception):
                out.append((str(tid), bytes(data)))
        return out

    # -- history helpers
    def signals(self, side, member):
        path = self.ends[side].path
        # (a signal emitted on an object that is no longer exported reaches nobody: dbus-python sends one message per location)
        return [ev for ev in self.sim.hist.events if ev['kind'] == 'signal' and ev['path'] == path and ev['member'] == member
                and ev.get('exported', True)]

    def wire(self, side):
        ''' Decode what ``side`` wrote.  :return: (list of (msg, end offset, event_no of the write that completed it), status, raw) '''
        pipe = (self.sock_a if side == 'A' else self.sock_b).tx
        raw = pipe.all_bytes()
        msgs, pos, status = tw.parse_stream(raw)
        # event number at which each end offset was reached
        ends = []
        for (event_no, _vtime, offset, chunk) in pipe.log:
            ends.append((offset + len(chunk), event_no))
        out = []
        idx = 0
        for (msg, end) in msgs:
            while idx < len(ends) and ends[idx][0] < end:
                idx += 1
            event_no = ends[idx][1] if idx < len(ends) else None
            out.append((msg, end, event_no))
        return out, status, raw

    def closed(self, side):
        return (self.sock_a if side == 'A' else self.sock_b).closed

    def callback_errors(self):
        return self.sim.world.callback_errors
