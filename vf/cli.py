''' Entry point: ``python -m vf.cli Cnn [--tier quick|thorough] [--replay file]``. '''
import argparse
import os
import sys

VERIF_DIR = os.path.dirname(os.path.dirname(os.path.abspath(__file__)))
if VERIF_DIR not in sys.path:
    sys.path.insert(0, VERIF_DIR)


def main(argv=None):
    parser = argparse.ArgumentParser()
    parser.add_argument('prop', nargs='?')
    parser.add_argument('--tier', default=os.environ.get('VERIF_TIER', 'quick'), choices=['quick', 'thorough'])
    parser.add_argument('--seed', type=int, default=int(os.environ.get('VERIF_SEED', '0') or 0))
    parser.add_argument('--replay')
    parser.add_argument('--worker')
    parser.add_argument('--shard', default='0/1')
    parser.add_argument('--out')
    parser.add_argument('--case', help='run a single case id in-process, verbosely')
    parser.add_argument('-v', '--verbose', action='store_true')
    args = parser.parse_args(argv)

    from vf import runner
    if args.worker:
        shard, nshards = (int(part) for part in args.shard.split('/'))
        runner.worker_main(args.worker, args.tier, args.seed, shard, nshards, args.out)
        return 0
    if not args.prop:
        parser.error('property id required')
    prop_id = args.prop.upper()
    if args.replay:
        return runner.run_replay(prop_id, args.replay)
    if args.case:
        from vf import env
        env.bootstrap(quiet=not args.verbose)
        if args.verbose:
            env.enable_logging()
        prop = runner.load_prop(prop_id)
        import json
        for case in prop.cases(args.tier, args.seed):
            if case['id'] == args.case:
                res = prop.run_case(case)
                print(json.dumps(dict(case=case, result=res), indent=1, default=runner._json_default))
                return 0
        print('no such case')
        return 2
    return runner.run_check(prop_id, args.tier, args.seed, verbose=args.verbose)


if __name__ == '__main__':
    sys.exit(main())
