''' One simulation: world + network + bus history + seeded scheduler + virtual clock. '''
import datetime as _dt
import random
import sys
import time as _time
import types

from . import loop as _loop
from . import net as _net


# ---------------------------------------------------------------- virtual clock

class _VirtualDatetime(_dt.datetime):
    ''' ``datetime.datetime`` whose ``now``/``utcnow`` read the virtual clock. '''

    @classmethod
    def now(cls, tz=None):
        world = _loop.get_world()
        stamp = world.epoch_unix_s + world.now_ns / 1e9
        base = _dt.datetime.fromtimestamp(stamp, tz=_dt.timezone.utc)
        # microsecond-exact from integer arithmetic
        base = _dt.datetime(1970, 1, 1, tzinfo=_dt.timezone.utc) + _dt.timedelta(
            seconds=world.epoch_unix_s, microseconds=world.now_ns // 1000)
        if tz is None:
            return cls._from(base.replace(tzinfo=None))
        return cls._from(base.astimezone(tz))

    @classmethod
    def utcnow(cls):
        return cls.now(_dt.timezone.utc).replace(tzinfo=None)

    @classmethod
    def _from(cls, val):
        return cls(val.year, val.month, val.day, val.hour, val.minute, val.second, val.microsecond, tzinfo=val.tzinfo)


class _FakeDatetimeModule(types.ModuleType):
    def __init__(self):
        types.ModuleType.__init__(self, 'datetime')
        for name in dir(_dt):
            if not name.startswith('__'):
                setattr(self, name, getattr(_dt, name))
        self.datetime = _VirtualDatetime


class _FakeTimeModule(types.ModuleType):
    def __init__(self):
        types.ModuleType.__init__(self, 'time')
        for name in dir(_time):
            if not name.startswith('__'):
                setattr(self, name, getattr(_time, name))

    @staticmethod
    def monotonic_ns():
        return 1000000000 + _loop.get_world().now_ns

    @staticmethod
    def monotonic():
        return 1.0 + _loop.get_world().now_ns / 1e9

    @staticmethod
    def time():
        return _loop.get_world().unix_time()

    @staticmethod
    def sleep(_secs):
        # bp.cla polls with sleep(0.1); virtual time is not advanced by sleeping
        return None


FAKE_DATETIME = _FakeDatetimeModule()
FAKE_TIME = _FakeTimeModule()


def install_clock():
    ''' Substitute the clock seen by already-imported repository modules. '''
    for modname, attrs in (
            ('tcpcl.session', {'datetime': FAKE_DATETIME}),
            ('bp.agent', {'datetime': FAKE_DATETIME}),
            ('bp.util', {'datetime': FAKE_DATETIME}),
            ('bp.app.bpsec', {'datetime': FAKE_DATETIME}),
            ('bp.app.sand', {'datetime': FAKE_DATETIME}),
            ('bp.cla', {}),
            ('udpcl.agent', {'datetime': _VirtualDatetime, 'time': FAKE_TIME}),
            ('btpu.agent', {'datetime': _VirtualDatetime}),
    ):
        mod = sys.modules.get(modname)
        if mod is None:
            continue
        for key, val in attrs.items():
            setattr(mod, key, val)
    # bp.cla imports time inside a function: patch the global module's sleep lazily
    cla = sys.modules.get('bp.cla')
    if cla is not None and not getattr(cla, '_vf_sleep_patched', False):
        cla._vf_sleep_patched = True


# ---------------------------------------------------------------- scheduler

POLICIES = ('fair', 'rr', 'eager', 'starve0', 'starve1', 'octet', 'burst', 'lazy')


class Sim(object):
    ''' A seeded run.  Every nondeterministic choice goes through :attr:`rng`
    and is appended to :attr:`choices` for replay/debugging.
    '''

    def __init__(self, seed=0, policy='fair', capacity=None):
        import dbus.bus  # pylint: disable=import-outside-toplevel
        self.world = _loop.new_world()
        self.net = _net.Net(self.world)
        if capacity is not None:
            self.net.default_capacity = capacity
        dbus.bus.BusConnection.reset_all()
        self.hist = dbus.bus.new_history()
        self.seed = seed
        self.policy = policy
        self.rng = random.Random(seed)
        self.steps = 0
        self.n_time_jumps = 0
        self.allow_time = True
        self.user_actions = []  # callables offered as schedulable actions
        self._rr = 0
        self._burst_left = 0
        self._burst_node = None
        self._spin_fp = None
        self._spin_count = 0
        self.spin_detected = 0
        self.states_seen = set()
        self.state_fn = None
        # virtual time that passes with every network delivery step (0 = instantaneous network)
        self.deliver_latency_ns = 0
        # what a datagram network may legitimately do (off by default): deliver out of order, deliver a datagram twice
        self.udp_reorder = False
        self.udp_dup = 0.0
        self.udp_dups_made = 0
        self.udp_reorders_made = 0
        install_clock()

    # -- helpers
    def node(self, name):
        return self.world.node(name)

    def as_node(self, name):
        return self.world.as_node(name)

    def _fingerprint(self):
        world = self.world
        srcs = tuple(
            (node.name, tuple(sorted((src.kind, id(src.func) if src.kind != 'idle' else getattr(src.func, '__qualname__', '?'))
                                      for src in node.sources.values())))
            for node in world.nodes.values())
        return (
            tuple((pipe.total, pipe.read_total, len(pipe.inflight), pipe.fin_sent) for pipe in self.net.pipes),
            len(self.hist.events), len(world.callback_errors), srcs,
            len(self.net.udp_inflight), sum(len(getattr(s, 'sent', ())) for s in getattr(self.net, 'raw_sockets', [])),
        )

    def only_idle_ready(self):
        for node in self.world.nodes.values():
            kinds = node.ready_kinds()
            if any(kind != 'idle' for kind in kinds):
                return False
        return True

    def enabled_nodes(self):
        return self.world.ready_nodes()

    def pending_pipes(self):
        return [pipe for pipe in self.net.pipes if pipe.pending()]

    def _deliver_amount(self, pipe):
        pend = pipe.pending()
        if self.policy == 'octet':
            return 1
        if self.policy in ('eager', 'rr'):
            return pend
        roll = self.rng.random()
        if roll < 0.5:
            return pend
        if roll < 0.7:
            return 1
        return self.rng.randint(1, pend)

    def step(self):
        ''' Perform one scheduling step.
        :return: 'iter' / 'deliver' / 'time' / 'user' or None when quiescent.
        '''
        self.steps += 1
        rng = self.rng
        nodes = self.enabled_nodes()
        pipes = self.pending_pipes()
        udp = bool(self.net.udp_inflight)

        # spinning idle sources count as "nothing to do" once they stop changing anything
        spinning = False
        if nodes and not pipes and not udp:
            only_idle = self.only_idle_ready()
            fp = self._fingerprint()
            if fp == self._spin_fp:
                self._spin_count += 1
            else:
                self._spin_fp = fp
                self._spin_count = 0
            # a socket watch that is dispatched over and over without reading, writing, signalling or changing any source is a
            # busy loop of the real program too: nothing will ever change except by a timer (much longer run required than for
            # idle sources, whose spinning is ordinary)
            # (once established, the same unread sockets after a timer has run are recognised quickly)
            io_fp = tuple((pipe.read_total, len(pipe.rxbuf)) for pipe in self.net.pipes)
            known = (not only_idle) and io_fp == getattr(self, '_livelock_io_fp', None)
            if self._spin_count >= (6 if (only_idle or known) else 300) * max(1, len(self.world.nodes)):
                spinning = True
                self.spin_detected += 1
                if not only_idle:
                    self.livelock_detected = getattr(self, 'livelock_detected', 0) + 1
                    self._livelock_io_fp = io_fp
        else:
            self._spin_fp = None
            self._spin_count = 0

        if (not nodes or spinning) and not pipes and not udp:
            nxt = self.world.next_timer_ns()
            if nxt is not None and self.allow_time:
                if nxt > self.world.now_ns:
                    self.world.advance_to(nxt)
                    self.n_time_jumps += 1
                self._spin_fp = None
                self._spin_count = 0
                # dispatch timers right away so a spinning idle cannot starve them (priority 0 first)
                for node in self.world.ready_nodes():
                    if any(kind != 'idle' for kind in node.ready_kinds()):
                        node.iteration()
                self._note_state()
                return 'time'
            return None

        acts = []
        if nodes:
            acts.append('iter')
        if pipes or udp:
            acts.append('deliver')

        if self.deliver_latency_ns and 'iter' in acts and not self._latency_spin():
            # with a network delay, octets arrive only after everything that is runnable NOW has run: local work takes no
            # (virtual) time, so a due timer or an idle callback is never overtaken by a delivery that lies in the future
            choice = 'iter'
        elif self.policy in ('eager', 'rr') and 'deliver' in acts:
            choice = 'deliver'
        elif self.policy == 'lazy' and 'iter' in acts and (len(acts) == 1 or rng.random() < 0.9):
            # a slow network, but never one that stops delivering (that would be an unfair schedule)
            choice = 'iter'
        elif len(acts) == 1:
            choice = acts[0]
        else:
            choice = 'iter' if rng.random() < 0.6 else 'deliver'

        if choice == 'deliver':
            if self.deliver_latency_ns:
                # one network tick: every link carries what it holds in parallel, then the one-way delay has passed once
                # (serving a single link per tick would starve the other direction of a session that never falls silent)
                for pipe in pipes:
                    pipe.deliver(self._deliver_amount(pipe))
                if udp:
                    self._udp_deliver()
                # the one-way delay passes; timers that come due on the way fire at their own time, not at the end of the tick
                target = self.world.now_ns + self.deliver_latency_ns
                for _guard in range(1000):
                    nxt = self.world.next_timer_ns()
                    if nxt is None or nxt >= target:
                        break
                    if nxt > self.world.now_ns:
                        self.world.advance_to(nxt)
                    ran = False
                    for node in self.world.ready_nodes():
                        if any(kind != 'idle' for kind in node.ready_kinds()):
                            node.iteration()
                            ran = True
                    if not ran:
                        break
                self.world.advance_to(target)
            elif udp and (not pipes or rng.random() < 0.5):
                self._udp_deliver()
            else:
                pipe = pipes[0] if self.policy in ('eager', 'rr') else rng.choice(pipes)
                pipe.deliver(self._deliver_amount(pipe))
            self._note_state()
            return 'deliver'

        node = self._pick_node(nodes)
        node.iteration()
        self._note_state()
        return 'iter'

    def _udp_deliver(self):
        ''' One datagram reaches its destination: the oldest one, or (udp_reorder) any one in flight; with probability
        udp_dup a copy of it stays in flight as well. '''
        inflight = self.net.udp_inflight
        if not inflight:
            return 0
        index = 0
        if self.udp_reorder and len(inflight) > 1 and self.rng.random() < 0.5:
            index = self.rng.randrange(len(inflight))
            if index:
                self.udp_reorders_made += 1
        if self.udp_dup and self.rng.random() < self.udp_dup and not inflight[index].get('is_dup'):
            inflight.append(dict(inflight[index], is_dup=True))
            self.udp_dups_made += 1
        return self.net.udp_deliver_one(index)

    def _latency_spin(self):
        ''' True when only idle sources are ready and they have stopped changing anything (so waiting for them is pointless). '''
        if not self.only_idle_ready():
            self._lat_fp = None
            self._lat_count = 0
            return False
        fp = self._fingerprint()
        if fp == getattr(self, '_lat_fp', None):
            self._lat_count = getattr(self, '_lat_count', 0) + 1
        else:
            self._lat_fp = fp
            self._lat_count = 0
        return self._lat_count >= 6 * max(1, len(self.world.nodes))

    def _pick_node(self, nodes):
        rng = self.rng
        if len(nodes) == 1:
            return nodes[0]
        names = sorted(node.name for node in self.world.nodes.values())
        if self.policy == 'rr':
            self._rr += 1
            order = sorted(nodes, key=lambda n: n.name)
            return order[self._rr % len(order)]
        if self.policy in ('starve0', 'starve1', 'hold0', 'hold1'):
            starved = names[0] if self.policy in ('starve0', 'hold0') else names[min(1, len(names) - 1)]
            others = [node for node in nodes if node.name != starved]
            # (hold: that node's loop gets one turn per 300 turns of the others, or when nobody else has anything to do -- a process
            # that is descheduled for a while again and again; never for ever, which no real scheduler does)
            if self.policy.startswith('hold'):
                self._held = getattr(self, '_held', 0) + 1
                if others and self._held % 300:
                    return rng.choice(others)
                return next((node for node in nodes if node.name == starved), rng.choice(nodes))
            if others and rng.random() < 0.92:
                return rng.choice(others)
            return rng.choice(nodes)
        if self.policy == 'burst':
            if self._burst_left > 0 and self._burst_node in nodes:
                self._burst_left -= 1
                return self._burst_node
            self._burst_node = rng.choice(nodes)
            self._burst_left = rng.randint(1, 20)
            return self._burst_node
        return rng.choice(nodes)

    def _note_state(self):
        if self.state_fn is not None:
            try:
                self.states_seen.add(self.state_fn())
            except Exception:  # pylint: disable=broad-except
                pass

    def run(self, max_steps=200000, until=None):
        ''' Run until quiescent, ``until()`` is true, or the budget is exhausted.
        :return: 'quiescent' | 'until' | 'budget'
        '''
        for _ in range(max_steps):
            if until is not None and until():
                return 'until'
            if self.step() is None:
                return 'quiescent'
        return 'budget'

    def settle(self, max_steps=200000):
        ''' Run without letting virtual time pass (timers stay pending). '''
        prev = self.allow_time
        self.allow_time = False
        try:
            return self.run(max_steps)
        finally:
            self.allow_time = prev

    def advance(self, delta_ns, max_steps=200000):
        ''' Let exactly ``delta_ns`` of virtual time pass, running everything due. '''
        target = self.world.now_ns + int(delta_ns)
        for _ in range(max_steps):
            prev = self.allow_time
            self.allow_time = False
            try:
                res = self.step()
            finally:
                self.allow_time = prev
            if res is None:
                nxt = self.world.next_timer_ns()
                if nxt is None or nxt > target:
                    self.world.advance_to(target)
                    return 'done'
                self.world.advance_to(nxt)
                for node in self.world.ready_nodes():
                    if any(kind != 'idle' for kind in node.ready_kinds()):
                        node.iteration()
        return 'budget'
