''' Conformance self-tests of the shims (trusted base of every check).

* sim loop vs. traces recorded from real GLib 2.74 (fixtures/glib_semantics.json)
* dbus marshalling oracle vs. rows recorded from real dbus-python 1.3.2
* CRC shim and bitwise CRC oracle vs. standard check values and each other
* portion shim vs. set[int] on random operation sequences
'''
import importlib.util
import ipaddress  # noqa: F401  (used by eval of calibration rows)
import json
import os
import random

from . import loop as _loop
from . import net as _net

VERIF_DIR = os.path.dirname(os.path.dirname(os.path.dirname(os.path.abspath(__file__))))
FIXTURES = os.path.join(VERIF_DIR, 'fixtures')


class SimApi(object):
    IO_IN = _loop.IO_IN
    IO_OUT = _loop.IO_OUT

    def __init__(self):
        self.world = _loop.new_world()
        self.net = _net.Net(self.world)
        self.node = self.world.node('n')
        self.world.current_node = self.node

    def idle_add(self, func, *args):
        return self.world.idle_add(func, *args)

    def timeout_add(self, msec, func, *args):
        return self.world.timeout_add(msec, func, *args)

    def io_add_watch(self, sock, cond, func, *args):
        return self.world.io_add_watch(sock, cond, func, *args)

    def source_remove(self, sid):
        return self.world.source_remove(sid)

    def socketpair(self):
        a, b = self.net.tcp_pair()
        a.setblocking(False)
        b.setblocking(False)
        return a, b

    def deliver(self):
        self.net.deliver_all()

    def iterate(self):
        self.node.iteration()

    def sleep_ms(self, msec):
        self.world.advance_to(self.world.now_ns + msec * 1000000)


def check_glib():
    spec = importlib.util.spec_from_file_location('glib_scenarios', os.path.join(FIXTURES, 'glib_scenarios.py'))
    mod = importlib.util.module_from_spec(spec)
    spec.loader.exec_module(mod)
    with open(os.path.join(FIXTURES, 'glib_semantics.json'), 'r') as infile:
        want = json.load(infile)['traces']
    problems = []
    for name, func in mod.SCENARIOS.items():
        got = json.loads(json.dumps(func(SimApi())))
        if got != want.get(name):
            problems.append('glib scenario %s: sim %s != real %s' % (name, got, want.get(name)))
    return len(mod.SCENARIOS), problems


def check_dbus():
    import dbus  # noqa: F401  pylint: disable=unused-import,import-outside-toplevel
    from vf.oracles import dbus_sig  # pylint: disable=import-outside-toplevel
    with open(os.path.join(FIXTURES, 'dbus_marshal_calibration.json'), 'r') as infile:
        rows = json.load(infile)['rows']
    problems = []
    for row in rows:
        args = eval(row['expr'])  # pylint: disable=eval-used
        verdict = dbus_sig.check(row['sig'], args)
        okay = verdict is None
        exc = None if verdict is None else verdict[0]
        if okay != row['ok'] or (not okay and exc != row['exc']):
            problems.append('dbus row %s %s: model %s, real %s/%s' % (row['sig'], row['expr'], verdict, row['ok'], row['exc']))
    return len(rows), problems


def check_crc():
    import crcmod.predefined  # pylint: disable=import-outside-toplevel
    from vf.oracles import crc as crc_oracle  # pylint: disable=import-outside-toplevel
    problems = []
    shim16 = crcmod.predefined.mkPredefinedCrcFun('x-25')
    shim32 = crcmod.predefined.mkPredefinedCrcFun('crc-32c')
    if shim16(b'123456789') != 0x906E or crc_oracle.crc16_x25(b'123456789') != 0x906E:
        problems.append('CRC-16/X-25 check value')
    if shim32(b'123456789') != 0xE3069283 or crc_oracle.crc32c(b'123456789') != 0xE3069283:
        problems.append('CRC-32C check value')
    rng = random.Random(7)
    for _ in range(300):
        data = bytes(rng.getrandbits(8) for _ in range(rng.randint(0, 200)))
        if shim16(data) != crc_oracle.crc16_x25(data):
            problems.append('CRC-16 shim/oracle disagree on %s' % data.hex())
            break
        if shim32(data) != crc_oracle.crc32c(data):
            problems.append('CRC-32C shim/oracle disagree on %s' % data.hex())
            break
    return 302, problems


def check_portion():
    import portion  # pylint: disable=import-outside-toplevel
    problems = []
    rng = random.Random(11)
    count = 0
    for _ in range(300):
        model = set()
        intv = portion.empty()
        for _step in range(rng.randint(1, 12)):
            lo = rng.randint(0, 30)
            hi = lo + rng.randint(0, 10)
            op = rng.choice(['or', 'or', 'or', 'sub'])
            other = portion.closedopen(lo, hi)
            if op == 'or':
                intv = intv | other
                model |= set(range(lo, hi))
            else:
                intv = intv - other
                model -= set(range(lo, hi))
            count += 1
            if set(portion.iterate(intv, step=1)) != model:
                problems.append('portion points mismatch')
            total = rng.randint(0, 40)
            if (intv == portion.closedopen(0, total)) != (model == set(range(0, total))):
                problems.append('portion equality mismatch')
            atoms = [(atom.lower, atom.upper) for atom in intv]
            flat = set()
            for (alo, ahi) in atoms:
                flat |= set(range(alo, ahi))
            if flat != model or any(atoms[i][1] >= atoms[i + 1][0] for i in range(len(atoms) - 1)):
                problems.append('portion atoms not normalized: %s' % atoms)
            if problems:
                return count, problems
    # discrete API
    api = portion.create_api(type('I', (portion.AbstractDiscreteInterval,), {'_step': 1}))
    acc = api.empty()
    model = set()
    for val in [3, 0, 1, 2, 7]:
        acc |= api.singleton(val)
        model.add(val)
        if set(portion.iterate(acc, step=1)) != model:
            problems.append('discrete singleton union')
    if (acc == api.closed(0, 3)) or not ((acc - api.singleton(7)) == api.closed(0, 3)):
        problems.append('discrete closed equality')
    if 2 not in acc or 5 in acc:
        problems.append('discrete membership')
    return count + 8, problems


def run_all():
    total = 0
    problems = []
    report = {}
    for name, func in (('glib', check_glib), ('dbus', check_dbus), ('crc', check_crc), ('portion', check_portion)):
        count, probs = func()
        report[name] = count
        total += count
        problems += probs
    return report, problems
