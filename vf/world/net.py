''' Simulated network: TCP byte pipes, listeners, UDP datagrams, raw frames, fake TLS.

Kernel TCP/UDP and OpenSSL are *not* under test; the repository's use of the
socket API is.  Behaviour copied from measurements of the real thing:

* a non-blocking ``send`` accepts what fits and raises ``BlockingIOError`` when
  nothing fits; IO_OUT is ready iff something fits;
* peer close makes IO_IN ready and ``recv`` return ``b''`` once buffered data
  has been read;
* ``send`` after the peer has closed raises ``BrokenPipeError``.
'''
import errno
import ipaddress
import socket as _real_socket
import ssl as _real_ssl

from . import loop as _loop


class Pipe(object):
    ''' One direction of a TCP connection. '''

    def __init__(self, net, name, capacity):
        self.net = net
        self.name = name
        self.capacity = capacity
        self.inflight = bytearray()
        self.rxbuf = bytearray()
        self.fin_sent = False
        self.fin_delivered = False
        self.reader_closed = False
        # full log of octets written: list of (event_no, vtime_ns, offset, bytes)
        self.log = []
        self.total = 0
        self.read_total = 0

    def used(self):
        return len(self.inflight) + len(self.rxbuf)

    def room(self):
        return max(0, self.capacity - self.used())

    def write(self, data):
        world = self.net.world
        room = self.room()
        if room <= 0:
            return 0
        chunk = bytes(data[:room])
        world.event_no += 1
        self.log.append((world.event_no, world.now_ns, self.total, chunk))
        self.total += len(chunk)
        self.inflight += chunk
        return len(chunk)

    def all_bytes(self):
        return b''.join(item[3] for item in self.log)

    def pending(self):
        ''' Octets (or a FIN) sent but not yet visible to the reader. '''
        return len(self.inflight) + (1 if (self.fin_sent and not self.fin_delivered) else 0)

    def deliver(self, count=None):
        ''' Move up to ``count`` in-flight octets to the reader; a FIN follows the data. '''
        if count is None:
            count = len(self.inflight) + 1
        moved = min(count, len(self.inflight))
        if moved:
            self.rxbuf += self.inflight[:moved]
            del self.inflight[:moved]
        if count > moved and not self.inflight and self.fin_sent and not self.fin_delivered:
            self.fin_delivered = True
            moved += 1
        return moved


class TcpSocket(object):
    ''' Fake connected TCP socket. '''
    family = _real_socket.AF_INET
    type = _real_socket.SOCK_STREAM
    proto = _real_socket.IPPROTO_TCP

    def __init__(self, net, name, local, peer):
        self.net = net
        self.name = name
        self._local = local
        self._peer = peer
        self.tx = None
        self.rx = None
        self.closed = False
        self.blocking = True
        self.shut = False
        self._fd = net._next_fd()
        self.close_event_no = None
        self.n_send_calls = 0
        self.n_recv_calls = 0

    def __repr__(self):
        return '<TcpSocket %s fd=%s>' % (self.name, self.fileno())

    # -- readiness as seen by the loop
    def _vf_cond(self):
        if self.closed:
            return _loop.IO_NVAL
        cond = 0
        if self.rx.rxbuf or self.rx.fin_delivered:
            cond |= _loop.IO_IN
        if self.rx.fin_delivered and not self.rx.rxbuf:
            cond |= _loop.IO_HUP if self.tx.reader_closed else 0
        if self.tx.room() > 0 or self.tx.reader_closed:
            cond |= _loop.IO_OUT
        return cond

    # -- socket API
    def setblocking(self, flag):
        self.blocking = bool(flag)

    def settimeout(self, _val):
        return None

    def fileno(self):
        return -1 if self.closed else self._fd

    def getpeername(self):
        if self.closed:
            raise OSError(errno.EBADF, 'Bad file descriptor')
        return self._peer

    def getsockname(self):
        return self._local

    def setsockopt(self, *_args):
        return None

    def recv(self, bufsize):
        self.n_recv_calls += 1
        if self.closed:
            raise OSError(errno.EBADF, 'Bad file descriptor')
        if self.rx.rxbuf:
            data = bytes(self.rx.rxbuf[:bufsize])
            del self.rx.rxbuf[:len(data)]
            self.rx.read_total += len(data)
            return data
        if self.rx.fin_delivered:
            return b''
        raise BlockingIOError(errno.EAGAIN, 'Resource temporarily unavailable')

    def send(self, data):
        self.n_send_calls += 1
        if self.closed:
            raise OSError(errno.EBADF, 'Bad file descriptor')
        if self.shut or self.tx.fin_sent:
            raise BrokenPipeError(errno.EPIPE, 'Broken pipe')
        if self.tx.reader_closed:
            raise BrokenPipeError(errno.EPIPE, 'Broken pipe')
        if not data:
            return 0
        count = self.tx.write(data)
        if count == 0:
            raise BlockingIOError(errno.EAGAIN, 'Resource temporarily unavailable')
        return count

    def sendall(self, data):
        sent = 0
        while sent < len(data):
            sent += self.send(data[sent:])

    def shutdown(self, _how):
        if self.closed:
            raise OSError(errno.EBADF, 'Bad file descriptor')
        if self.shut:
            raise OSError(errno.ENOTCONN, 'Transport endpoint is not connected')
        self.shut = True
        self.tx.fin_sent = True

    def close(self):
        if self.closed:
            return
        self.closed = True
        self.tx.fin_sent = True
        self.rx.reader_closed = True
        self.net.world.event_no += 1
        self.close_event_no = self.net.world.event_no
        self.net.close_log.append((self.close_event_no, self.net.world.now_ns, self.name))

    def detach(self):
        return self._fd


class TlsSocket(object):
    ''' Pass-through "secured" socket produced by :class:`FakeSslContext`. '''

    def __init__(self, ctx, sock, server_side, server_hostname):
        self._ctx = ctx
        self._sock = sock
        self.server_side = server_side
        self.server_hostname = server_hostname
        self._handshaken = False
        self._unwrapped = False
        self.family = sock.family

    def __repr__(self):
        return '<TlsSocket over %r>' % (self._sock,)

    def _vf_cond(self):
        return self._sock._vf_cond()

    def do_handshake(self):
        self._ctx.handshakes += 1
        if self._ctx.handshake_fails:
            raise _real_ssl.SSLError(1, '[SSL] simulated handshake failure')
        self._handshaken = True

    def cipher(self):
        return ('TLS_AES_256_GCM_SHA384', 'TLSv1.3', 256)

    def getpeercert(self, binary_form=False):
        if binary_form:
            return self._ctx.peer_cert_der
        return self._ctx.peer_cert_dict

    def setblocking(self, flag):
        self._sock.setblocking(flag)

    def fileno(self):
        return self._sock.fileno()

    def getpeername(self):
        return self._sock.getpeername()

    def getsockname(self):
        return self._sock.getsockname()

    def recv(self, bufsize):
        return self._sock.recv(bufsize)

    def send(self, data):
        return self._sock.send(data)

    def shutdown(self, how):
        return self._sock.shutdown(how)

    def close(self):
        return self._sock.close()

    def unwrap(self):
        self._unwrapped = True
        return self._sock


class FakeSslContext(object):
    ''' Scenario-controlled TLS: succeed/fail the handshake, present a chosen cert. '''

    def __init__(self, handshake_fails=False, peer_cert_der=None, peer_cert_dict=None):
        self.handshake_fails = handshake_fails
        self.peer_cert_der = peer_cert_der
        self.peer_cert_dict = peer_cert_dict or {}
        self.handshakes = 0
        self.wrapped = []

    def wrap_socket(self, sock, server_side=False, do_handshake_on_connect=True, server_hostname=None, **_kwargs):
        tls = TlsSocket(self, sock, server_side, server_hostname)
        self.wrapped.append(tls)
        if do_handshake_on_connect:
            tls.do_handshake()
        return tls


class ListenSocket(object):
    ''' Fake listening TCP socket. '''
    family = _real_socket.AF_INET
    type = _real_socket.SOCK_STREAM
    proto = _real_socket.IPPROTO_TCP

    def __init__(self, net, family):
        self.net = net
        self.family = family
        self.addr = None
        self.listening = False
        self.backlog = []
        self.closed = False
        self.peer_to_connect = None
        self._fd = net._next_fd()
        self._connected = None

    def _vf_cond(self):
        if self.closed:
            return _loop.IO_NVAL
        if self._connected is not None:
            return self._connected._vf_cond()
        return _loop.IO_IN if self.backlog else 0

    def setsockopt(self, *_args):
        return None

    def setblocking(self, flag):
        if self._connected is not None:
            self._connected.setblocking(flag)

    def fileno(self):
        if self._connected is not None:
            return self._connected.fileno()
        return -1 if self.closed else self._fd

    def bind(self, addr):
        self.addr = (addr[0], addr[1])

    def listen(self, _backlog=0):
        if self.addr is None:
            self.addr = ('0.0.0.0', self.net._ephemeral_port())
        key = self.addr
        if key in self.net.listeners:
            raise OSError(errno.EADDRINUSE, 'Address already in use')
        self.net.listeners[key] = self
        self.listening = True

    def accept(self):
        if not self.backlog:
            raise BlockingIOError(errno.EAGAIN, 'Resource temporarily unavailable')
        sock = self.backlog.pop(0)
        return sock, sock.getpeername()

    def connect(self, addr):
        ''' An unconnected client socket turning into a connected one. '''
        pair = self.net.tcp_connect(self.addr, (addr[0], addr[1]))
        self._connected = pair
        # delegate everything to the connected socket from here on
        self.__class__ = _ConnectedProxy
        return None

    def getsockname(self):
        return self.addr or ('0.0.0.0', 0)

    def shutdown(self, _how):
        if self.closed:
            raise OSError(errno.EBADF, 'Bad file descriptor')
        if not self.listening:
            raise OSError(errno.ENOTCONN, 'Transport endpoint is not connected')

    def close(self):
        if self.closed:
            return
        self.closed = True
        if self.listening:
            self.net.listeners.pop(self.addr, None)
            self.listening = False
        # connections never accepted are reset by the kernel when the listener goes away
        for sock in self.backlog:
            sock.close()
        self.backlog = []


class _ConnectedProxy(ListenSocket):
    ''' A socket() object after connect(): forwards to the TcpSocket. '''

    def __getattribute__(self, name):
        if name in ('_connected', '__class__', 'net'):
            return object.__getattribute__(self, name)
        return getattr(object.__getattribute__(self, '_connected'), name)


class UdpSocket(object):
    ''' Fake UDP socket with ancillary data. '''
    type = _real_socket.SOCK_DGRAM
    proto = _real_socket.IPPROTO_UDP

    def __init__(self, net, family):
        self.net = net
        self.family = family
        self.addr = None
        self.peer = None
        self.queue = []  # (data, ancdata, fromaddr)
        self.closed = False
        self.opts = []
        self.sent = []  # (event_no, vtime_ns, data, ancdata, toaddr)
        self._fd = net._next_fd()

    def __hash__(self):
        return hash(self._fd)

    def __eq__(self, other):
        return self is other

    def _vf_cond(self):
        if self.closed:
            return _loop.IO_NVAL
        return (_loop.IO_IN if self.queue else 0) | _loop.IO_OUT

    def fileno(self):
        return -1 if self.closed else self._fd

    def setsockopt(self, *args):
        self.opts.append(args)

    def setblocking(self, _flag):
        return None

    def bind(self, addr):
        host, port = addr[0], addr[1]
        if not port:
            port = self.net._ephemeral_port()
        self.addr = (host, port)
        self.net.udp_bound.setdefault(port, []).append(self)

    def connect(self, addr):
        self.peer = addr

    def getsockname(self):
        if self.addr is None:
            self.bind(('0.0.0.0' if self.family == _real_socket.AF_INET else '::', 0))
        if self.family == _real_socket.AF_INET6:
            return (self.addr[0], self.addr[1], 0, 0)
        return self.addr

    def sendmsg(self, buffers, ancdata=(), flags=0, address=None):
        data = b''.join(bytes(buf) for buf in buffers)
        return self._send(data, list(ancdata), address or self.peer)

    def sendto(self, data, *rest):
        address = rest[-1]
        return self._send(bytes(data), [], address)

    def send(self, data):
        return self._send(bytes(data), [], self.peer)

    def _send(self, data, ancdata, address):
        if self.closed:
            raise OSError(errno.EBADF, 'Bad file descriptor')
        if self.addr is None:
            self.bind(('0.0.0.0' if self.family == _real_socket.AF_INET else '::', 0))
        # what a kernel refuses: destination port 0 (EINVAL), the limited broadcast address without SO_BROADCAST (EACCES)
        if address is not None and len(address) > 1 and address[1] == 0:
            raise OSError(errno.EINVAL, 'Invalid argument')
        if address is not None and address[0] == '255.255.255.255' and not any(
                len(opt) >= 2 and opt[1] == _real_socket.SO_BROADCAST for opt in self.opts):
            raise PermissionError(errno.EACCES, 'Permission denied')
        world = self.net.world
        world.event_no += 1
        self.sent.append((world.event_no, world.now_ns, data, ancdata, address))
        self.net.udp_inflight.append(dict(src=self, data=data, ancdata=ancdata, to=(address[0], address[1])))
        return len(data)

    def recvmsg(self, bufsize, ancbufsize=0, flags=0):
        if not self.queue:
            raise BlockingIOError(errno.EAGAIN, 'Resource temporarily unavailable')
        (data, ancdata, fromaddr) = self.queue.pop(0)
        return (data[:bufsize], ancdata, 0, fromaddr)

    def recvfrom(self, bufsize):
        if not self.queue:
            raise BlockingIOError(errno.EAGAIN, 'Resource temporarily unavailable')
        (data, _ancdata, fromaddr) = self.queue.pop(0)
        return (data[:bufsize], fromaddr)

    def close(self):
        if self.closed:
            return
        self.closed = True
        if self.addr is not None:
            lst = self.net.udp_bound.get(self.addr[1], [])
            if self in lst:
                lst.remove(self)


class Net(object):
    ''' All simulated sockets of one world. '''

    def __init__(self, world):
        self.world = world
        self.listeners = {}
        self.pipes = []
        self.close_log = []
        self.conns = []
        self.udp_bound = {}
        self.udp_inflight = []
        self.hosts = {}
        self.default_capacity = 1 << 20
        self._fd = 100
        self._port = 40000
        # local address given to connecting sockets, by node name
        self.node_addr = {}

    def _next_fd(self):
        self._fd += 1
        return self._fd

    def _ephemeral_port(self):
        self._port += 1
        return self._port

    # -- TCP
    def tcp_pair(self, name_a='A', name_b='B', addr_a=('10.0.0.1', 40001), addr_b=('10.0.0.2', 4556), capacity=None):
        ''' A connected pair: (active side socket, passive side socket). '''
        cap = capacity if capacity is not None else self.default_capacity
        sock_a = TcpSocket(self, name_a, addr_a, addr_b)
        sock_b = TcpSocket(self, name_b, addr_b, addr_a)
        a2b = Pipe(self, '%s>%s' % (name_a, name_b), cap)
        b2a = Pipe(self, '%s>%s' % (name_b, name_a), cap)
        sock_a.tx, sock_a.rx = a2b, b2a
        sock_b.tx, sock_b.rx = b2a, a2b
        self.pipes += [a2b, b2a]
        self.conns.append((sock_a, sock_b))
        return sock_a, sock_b

    def tcp_connect(self, local, remote):
        lsock = self.listeners.get(remote)
        if lsock is None:
            lsock = self.listeners.get(('0.0.0.0', remote[1])) or self.listeners.get(('::', remote[1]))
        if lsock is None or lsock.closed:
            raise ConnectionRefusedError(errno.ECONNREFUSED, 'Connection refused')
        node = self.world.current_node.name if self.world.current_node else 'X'
        if not local or not local[1]:
            host = self.node_addr.get(node, '10.0.0.1')
            local = (host, self._ephemeral_port())
        idx = len(self.conns)
        sock_a, sock_b = self.tcp_pair('%s#%d' % (node, idx), 'L%d#%d' % (remote[1], idx), local, remote)
        lsock.backlog.append(sock_b)
        return sock_a

    def in_flight(self):
        ''' True if anything sent has not yet become visible to its receiver. '''
        return any(pipe.pending() for pipe in self.pipes) or bool(self.udp_inflight)

    def deliver_all(self):
        moved = 0
        for pipe in self.pipes:
            moved += pipe.deliver()
        moved += self.udp_deliver_all()
        return moved

    # -- UDP
    def udp_deliver_one(self, index=0):
        if not self.udp_inflight:
            return 0
        dgram = self.udp_inflight.pop(index)
        dst_host, dst_port = dgram['to']
        src = dgram['src']
        src_addr = src.addr
        delivered = 0
        for sock in list(self.udp_bound.get(dst_port, [])):
            if sock.closed:
                continue
            if sock.addr[0] not in ('0.0.0.0', '::', dst_host):
                continue
            src_host = src_addr[0]
            if src_host in ('0.0.0.0', '::'):
                src_host = self.node_addr.get(getattr(src, '_vf_node', None), '10.0.0.1')
            fromaddr = (src_host, src_addr[1]) if sock.family == _real_socket.AF_INET else (src_host, src_addr[1], 0, 0)
            sock.queue.append((dgram['data'], list(dgram.get('rx_ancdata', [])), fromaddr))
            delivered += 1
        return delivered

    def udp_deliver_all(self):
        count = 0
        while self.udp_inflight:
            self.udp_deliver_one(0)
            count += 1
        return count

    # -- name resolution
    def getaddrinfo(self, host, port, family=0, type=0, proto=0, flags=0):  # pylint: disable=redefined-builtin
        if host is None:
            raise _real_socket.gaierror(_real_socket.EAI_NONAME, 'Name or service not known')
        text = str(host)
        try:
            ipobj = ipaddress.ip_address(text)
        except ValueError:
            if text not in self.hosts:
                raise _real_socket.gaierror(_real_socket.EAI_NONAME, 'Name or service not known')
            ipobj = ipaddress.ip_address(self.hosts[text])
        fam = _real_socket.AF_INET if ipobj.version == 4 else _real_socket.AF_INET6
        sockaddr = (str(ipobj), port or 0) if ipobj.version == 4 else (str(ipobj), port or 0, 0, 0)
        return [(fam, type or _real_socket.SOCK_STREAM, proto, '', sockaddr)]


class FakeSocketModule(object):
    ''' Stand-in for the ``socket`` module inside one repository module. '''

    def __init__(self, net):
        self._net = net
        self.error = _real_socket.error
        self.gaierror = _real_socket.gaierror
        self.timeout = _real_socket.timeout

    def __getattr__(self, name):
        return getattr(_real_socket, name)

    def socket(self, family=_real_socket.AF_INET, type=_real_socket.SOCK_STREAM, proto=0, fileno=None):  # pylint: disable=redefined-builtin
        if type == _real_socket.SOCK_DGRAM:
            sock = UdpSocket(self._net, family)
            node = self._net.world.current_node
            sock._vf_node = node.name if node else None
            return sock
        if type == _real_socket.SOCK_STREAM:
            return ListenSocket(self._net, family)
        if type == _real_socket.SOCK_RAW:
            return RawSocket(self._net, family, proto)
        raise OSError('vf: unsupported socket type %r' % (type,))

    def getaddrinfo(self, *args, **kwargs):
        return self._net.getaddrinfo(*args, **kwargs)

    def gethostname(self):
        return 'localhost'

    def gethostbyname(self, _name):
        return '127.0.0.1'

    def if_nametoindex(self, _name):
        return 1


class RawSocket(object):
    ''' Fake AF_PACKET socket: frames sent are captured; frames queued are received. '''
    type = _real_socket.SOCK_RAW

    def __init__(self, net, family, proto):
        self.net = net
        self.family = family
        self.proto = proto
        self.addr = None
        self.sent = []
        self.queue = []
        self.closed = False
        self._fd = net._next_fd()
        net.raw_sockets = getattr(net, 'raw_sockets', [])
        net.raw_sockets.append(self)

    def __hash__(self):
        return hash(self._fd)

    def __eq__(self, other):
        return self is other

    def _vf_cond(self):
        if self.closed:
            return _loop.IO_NVAL
        return (_loop.IO_IN if self.queue else 0) | _loop.IO_OUT

    def fileno(self):
        return -1 if self.closed else self._fd

    def setsockopt(self, *_args):
        return None

    def bind(self, addr):
        self.addr = addr

    def getsockname(self):
        return self.addr or ('', self.proto, 0, 1, b'\0' * 6)

    def send(self, frame):
        world = self.net.world
        world.event_no += 1
        self.sent.append((world.event_no, world.now_ns, bytes(frame)))
        return len(frame)

    def recvfrom(self, bufsize):
        if not self.queue:
            raise BlockingIOError(errno.EAGAIN, 'Resource temporarily unavailable')
        (data, fromaddr) = self.queue.pop(0)
        return (data[:bufsize], fromaddr)

    def close(self):
        self.closed = True
