''' sim-world: a GLib-faithful cooperative event loop, virtual clock and scheduler.

One :class:`World` holds several :class:`Node` objects (simulated processes).
The GLib shim (``gi.repository.GLib``) forwards ``io_add_watch`` /
``idle_add`` / ``timeout_add`` / ``source_remove`` to the *current* world and
attributes each new source to the *current node*.

Semantics of one ``Node.iteration()`` follow what was measured on real
GLib 2.74 (see fixtures/glib_semantics.json and vf/world/conformance.py):

* readiness is snapshotted; only sources of the highest ready priority are
  dispatched (io/timeout = 0, idle = 200), in attach order;
* a source removed by an earlier callback of the same iteration is skipped;
* sources added during dispatch first run in a later iteration;
* a callback returning falsy is removed; a callback that raises is recorded
  and its source removed;
* ``source_remove`` of a stale id returns False (counted, never a violation).
'''
import traceback

PRIORITY_DEFAULT = 0
PRIORITY_DEFAULT_IDLE = 200

IO_IN = 1
IO_OUT = 4
IO_PRI = 2
IO_ERR = 8
IO_HUP = 16
IO_NVAL = 32


class Source(object):
    __slots__ = ('sid', 'kind', 'prio', 'func', 'args', 'sock', 'cond',
                 'due_ns', 'interval_ns', 'node', 'alive', 'seq')

    def __init__(self, **kw):
        self.sock = None
        self.cond = 0
        self.due_ns = None
        self.interval_ns = None
        self.alive = True
        for k, v in kw.items():
            setattr(self, k, v)

    def describe(self):
        name = getattr(self.func, '__qualname__', None) or repr(self.func)
        return '%s:%s' % (self.kind, name)


class CallbackError(object):
    ''' Record of an exception which escaped an event-loop callback. '''

    def __init__(self, node, source, exc, tb, event_no, vtime_ns):
        self.node = node
        self.source = source
        self.exc = exc
        self.exc_type = type(exc).__name__
        self.tb = tb
        self.event_no = event_no
        self.vtime_ns = vtime_ns

    def to_json(self):
        return dict(node=self.node, source=self.source, exc_type=self.exc_type,
                    exc=str(self.exc)[:300], tb=self.tb[-1500:], event_no=self.event_no)


class Node(object):
    ''' One simulated process: a main context with sources. '''

    def __init__(self, world, name):
        self.world = world
        self.name = name
        self.sources = {}  # sid -> Source, insertion ordered
        self.dispatch_log = []  # short descriptions of dispatched callbacks
        self.n_dispatched = 0

    def _ready(self, src, now_ns):
        if not src.alive:
            return False
        if src.kind == 'idle':
            return True
        if src.kind == 'timeout':
            return src.due_ns <= now_ns
        if src.kind == 'io':
            return bool(_sock_cond(src.sock) & (src.cond | IO_HUP | IO_ERR))
        return False

    def has_ready(self):
        now = self.world.now_ns
        return any(self._ready(src, now) for src in self.sources.values())

    def ready_kinds(self):
        now = self.world.now_ns
        return sorted(set(src.kind for src in self.sources.values() if self._ready(src, now)))

    def next_timer_ns(self):
        due = [src.due_ns for src in self.sources.values() if src.alive and src.kind == 'timeout']
        return min(due) if due else None

    def iteration(self):
        ''' Run one main-context iteration (non-blocking).
        :return: number of callbacks dispatched.
        '''
        world = self.world
        now = world.now_ns
        ready = [src for src in self.sources.values() if self._ready(src, now)]
        if not ready:
            return 0
        top = min(src.prio for src in ready)
        batch = [src for src in ready if src.prio == top]
        count = 0
        prev = world.current_node
        world.current_node = self
        try:
            for src in batch:
                if not src.alive:
                    # removed by an earlier callback of this iteration
                    continue
                count += 1
                self.n_dispatched += 1
                world.event_no += 1
                world.n_callbacks += 1
                desc = src.describe()
                if world.trace_dispatch:
                    self.dispatch_log.append(desc)
                world.sched_hash_update(self.name, desc)
                try:
                    if src.kind == 'io':
                        ret = src.func(src.sock, _sock_cond(src.sock) & (src.cond | IO_HUP | IO_ERR), *src.args)
                    else:
                        ret = src.func(*src.args)
                except Exception as err:  # pylint: disable=broad-except
                    world.callback_errors.append(CallbackError(
                        self.name, desc, err, traceback.format_exc(), world.event_no, world.now_ns))
                    ret = False
                if not ret:
                    self._kill(src)
                elif src.kind == 'timeout' and src.alive:
                    src.due_ns = world.now_ns + src.interval_ns
                for hook in world.after_callback_hooks:
                    hook(self, desc)
        finally:
            world.current_node = prev
        return count

    def _kill(self, src):
        src.alive = False
        self.sources.pop(src.sid, None)


def _sock_cond(sock):
    fn = getattr(sock, '_vf_cond', None)
    if fn is None:
        return 0
    return fn()


_WORLDS_MADE = 0


class World(object):
    ''' Collection of nodes, a virtual clock and the global event counter. '''

    def __init__(self):
        self.nodes = {}
        self.now_ns = 0
        # 2026-01-01T00:00:00Z as the wall-clock origin of virtual time
        self.epoch_unix_s = 1767225600
        self.current_node = None
        self.event_no = 0
        self.n_callbacks = 0
        # source ids are unique across the worlds of one process: an object left over from an earlier case that is
        # collected later (TxSendWait.__del__, Agent.__del__ call source_remove) must not hit a live source of this world
        global _WORLDS_MADE  # pylint: disable=global-statement
        _WORLDS_MADE += 1
        self._next_sid = _WORLDS_MADE * 100000000 + 1
        self.callback_errors = []
        self.stale_removes = 0
        self.after_callback_hooks = []
        self.trace_dispatch = False
        self._sched_hash = 0xcbf29ce484222325
        self.mainloops_quit = 0

    # -- construction
    def node(self, name):
        if name not in self.nodes:
            self.nodes[name] = Node(self, name)
        return self.nodes[name]

    class _Enter(object):
        def __init__(self, world, node):
            self.world = world
            self.node = node

        def __enter__(self):
            self.prev = self.world.current_node
            self.world.current_node = self.node
            return self.node

        def __exit__(self, *exc):
            self.world.current_node = self.prev
            return False

    def as_node(self, name):
        ''' Context manager: code inside runs "in" that simulated process. '''
        return World._Enter(self, self.node(name))

    def sched_hash_update(self, *parts):
        h = self._sched_hash
        for part in parts:
            for ch in str(part).encode('utf8'):
                h ^= ch
                h = (h * 0x100000001b3) & 0xFFFFFFFFFFFFFFFF
        self._sched_hash = h

    @property
    def sched_hash(self):
        return '%016x' % self._sched_hash

    # -- GLib API backing
    def _add(self, **kw):
        node = self.current_node
        if node is None:
            node = self.node('_default')
        sid = self._next_sid
        self._next_sid += 1
        src = Source(sid=sid, node=node, **kw)
        node.sources[sid] = src
        return sid

    def io_add_watch(self, sock, *rest):
        # PyGObject accepts (fd, cond, cb, *args) or (fd, prio, cond, cb, *args)
        if len(rest) >= 3 and isinstance(rest[0], int) and isinstance(rest[1], int) and callable(rest[2]):
            prio, cond, func = rest[0], rest[1], rest[2]
            args = rest[3:]
        else:
            prio = PRIORITY_DEFAULT
            cond, func = rest[0], rest[1]
            args = rest[2:]
        return self._add(kind='io', prio=prio, func=func, args=tuple(args), sock=sock, cond=int(cond))

    def idle_add(self, func, *args, **kwargs):
        prio = kwargs.get('priority', PRIORITY_DEFAULT_IDLE)
        return self._add(kind='idle', prio=prio, func=func, args=tuple(args))

    def timeout_add(self, interval_ms, func, *args, **kwargs):
        prio = kwargs.get('priority', PRIORITY_DEFAULT)
        interval_ns = int(interval_ms) * 1000000
        return self._add(kind='timeout', prio=prio, func=func, args=tuple(args),
                         due_ns=self.now_ns + interval_ns, interval_ns=interval_ns)

    def source_remove(self, sid):
        for node in self.nodes.values():
            src = node.sources.get(sid)
            if src is not None:
                node._kill(src)
                return True
        self.stale_removes += 1
        return False

    # -- clock
    def next_timer_ns(self):
        due = [t for t in (node.next_timer_ns() for node in self.nodes.values()) if t is not None]
        return min(due) if due else None

    def advance_to(self, t_ns):
        if t_ns > self.now_ns:
            self.now_ns = t_ns

    def ready_nodes(self):
        return [node for node in self.nodes.values() if node.has_ready()]

    def unix_time(self):
        return self.epoch_unix_s + self.now_ns / 1e9


# The one world used by the GLib shim
WORLD = World()


def new_world():
    ''' Replace the global world (called at the start of each case). '''
    global WORLD  # pylint: disable=global-statement
    WORLD = World()
    return WORLD


def get_world():
    return WORLD
