''' Whole-stack scenarios (vf.stack): three hosts X - Y - Z, every one a real BP agent bound through the repository's own
adaptors (bp/cla.py) and the in-process bus to real UDPCL / TCPCL agents on a simulated network.  X and Z originate
bundles for each other (and for Y), Y forwards.  The same executions are judged by several properties, each looking only
at its own clauses:

  C10  every bundle is delivered at its destination node exactly once and nowhere else, although the datagram network may
       hand a datagram over twice and out of order (the BP agent sees the same bundle again from the real adaptor)
  C11  what the destination's application sees of a bundle forwarded by Y: primary block as sent, one Previous Node block
       naming Y, hop count one higher, payload identical
  C05/C06  (routes with a BP MTU) every bundle Y hands to its convergence layer is within the route MTU, and the pieces
       reassemble at the destination into one delivery of the original payload -- in whatever order the network hands them over
  C13  (UDPCL MTU set) no datagram above the MTU, and the bundle popped by the peer's BP adaptor equals the one handed over
  C19  the status reports that reach the report-to node over the real return path: one per (node, bundle) exactly when
       something requested occurred there, never "deleted" for a bundle that went through
  C18  no D-Bus emission or reply of any agent fails to marshal, no loop callback raises, and at quiescence nothing is
       left waiting in any convergence-layer receive queue (every announced bundle was popped by the adaptor exactly once)
'''
import random

import cbor2

from vf.oracles import bpv7

NOW_DTN_MS = (1767225600 - 946684800) * 1000

REQ_BITS = {'received': 0x4000, 'forwarded': 0x10000, 'delivered': 0x20000, 'deleted': 0x40000}
REQ_TIME = 0x40

HOSTS = {'x': ('dtn://x/', '10.0.0.1'), 'y': ('dtn://y/', '10.0.0.2'), 'z': ('dtn://z/', '10.0.0.3')}


def gen_case(seed, tier='quick'):
    rng = random.Random(seed * 2654435761 % (1 << 32))
    link1 = rng.choice(['udpcl', 'tcpcl', 'tcpcl'])
    link2 = rng.choice(['udpcl', 'udpcl', 'tcpcl'])
    case = dict(
        seed=seed, link1=link1, link2=link2,
        policy=rng.choice(['fair', 'fair', 'rr', 'burst', 'lazy', 'eager']),
        bp_mtu1=rng.choice([None, None, rng.randint(150, 400)]),
        bp_mtu2=rng.choice([None, rng.randint(150, 400), rng.randint(150, 260)]),
        udp_mtu=rng.choice([None, None, rng.randint(100, 300)]),
        udp_reorder=rng.random() < 0.6,
        udp_dup=rng.choice([0.0, 0.0, 0.3]),
        bundles=[],
    )
    count = rng.randint(2, 7 if tier == 'quick' else 14)
    for idx in range(count):
        src = rng.choice(['x', 'x', 'z'])
        dst = rng.choice([h for h in ('x', 'y', 'z', 'z' if src == 'x' else 'x') if h != src])
        mask = 0
        for bit in REQ_BITS.values():
            if rng.random() < 0.5:
                mask |= bit
        if mask and rng.random() < 0.5:
            mask |= REQ_TIME
        case['bundles'].append(dict(
            src=src, dst=dst, seqno=idx, plen=rng.choice([0, 1, 23, 24, 100, 255, 256, rng.randint(0, 700), rng.randint(300, 700)]),
            mask=mask, report_to=rng.choice(['src', 'src', 'none']), crc=rng.choice([0, 1, 2]), pcrc=rng.choice([0, 1, 2]),
            hop=rng.choice([None, None, (30, 0), (5, 2)]), no_frag=rng.random() < 0.15,
            gap=rng.choice([0, 0, 0, rng.randint(1, 400)]),
        ))
    return case


def _payload(host, seqno, plen):
    from vf import stackjudge  # pylint: disable=import-outside-toplevel
    return stackjudge.payload(host, seqno, plen)


def _encode(spec):
    src_id = HOSTS[spec['src']][0]
    flags = spec['mask'] | (0x4 if spec['no_frag'] else 0)
    pri = dict(version=7, flags=flags, crc_type=spec['crc'], dest=HOSTS[spec['dst']][0] + 'svc', src=src_id + 'app',
               report_to=(src_id + 'rpt') if spec['report_to'] == 'src' else 'dtn:none', create_time=NOW_DTN_MS - 5000,
               seqno=spec['seqno'], lifetime=3600000, frag_offset=None, total_adu_len=None, crc=None)
    blocks = []
    if spec['hop']:
        blocks.append(dict(type=10, num=2, flags=0, crc_type=spec['pcrc'], data=cbor2.dumps(list(spec['hop'])), crc=None))
    blocks.append(dict(type=1, num=1, flags=0, crc_type=spec['pcrc'], data=_payload(spec['src'], spec['seqno'], spec['plen']), crc=None))
    return pri, bpv7.encode(dict(primary=pri, blocks=blocks))


def _route(peer, cl, mtu):
    (node_id, ip) = HOSTS[peer]
    raw = dict(address=ip, port=4556)
    if cl == 'tcpcl':
        raw['next_nodeid'] = node_id
    return dict(next=node_id, cl=cl, mtu=mtu, raw=raw)


def build_world(case):
    from vf.world.sim import Sim  # pylint: disable=import-outside-toplevel
    from vf import stack  # pylint: disable=import-outside-toplevel
    sim = Sim(seed=case['seed'], policy=case['policy'])
    sim.udp_reorder = case['udp_reorder']
    sim.udp_dup = case['udp_dup']
    world = stack.StackWorld(sim)
    l1, l2 = case['link1'], case['link2']
    world.add('x', node_id=HOSTS['x'][0], ip=HOSTS['x'][1], tcp=(l1 == 'tcpcl'), udp_mtu=case['udp_mtu'],
              rx_routes=[('dtn://x/.*', 'deliver')],
              tx_routes=[dict(pattern='dtn://[yz]/.*', **_route('y', l1, case['bp_mtu1']))])
    world.add('y', node_id=HOSTS['y'][0], ip=HOSTS['y'][1], tcp=('tcpcl' in (l1, l2)), udp_mtu=case['udp_mtu'],
              rx_routes=[('dtn://y/.*', 'deliver'), ('dtn://.*', 'forward')],
              tx_routes=[dict(pattern='dtn://z/.*', **_route('z', l2, case['bp_mtu2'])),
                         dict(pattern='dtn://x/.*', **_route('x', l1, case['bp_mtu1']))])
    world.add('z', node_id=HOSTS['z'][0], ip=HOSTS['z'][1], tcp=(l2 == 'tcpcl'), udp_mtu=case['udp_mtu'],
              rx_routes=[('dtn://z/.*', 'deliver')],
              tx_routes=[dict(pattern='dtn://[xy]/.*', **_route('y', l2, case['bp_mtu2']))])
    return sim, world


def run(case, max_steps=1500000):
    ''' Execute the scenario; return the record the judges read. '''
    from vf.bp_harness import container_from_bytes  # pylint: disable=import-outside-toplevel
    sim, world = build_world(case)
    sent = []
    try:
        budget = 'quiescent'
        for spec in case['bundles']:
            if spec['gap']:
                if sim.run(spec['gap']) == 'budget':
                    pass
            pri, enc = _encode(spec)
            err = None
            try:
                world.stacks[spec['src']].bp.send(container_from_bytes(enc))
            except Exception as exc:  # pylint: disable=broad-except
                err = '%s: %s' % (type(exc).__name__, str(exc)[:160])
            sent.append(dict(spec=spec, pri=pri, enc=enc, ident=(pri['src'], pri['create_time'], pri['seqno']), send_error=err))
        budget = sim.run(max_steps)
        rec = dict(case=case, sent=sent, end=budget, vtime_s=sim.world.now_ns / 1e9, steps=sim.steps,
                   world_problems=world.problems(), udp_dups=sim.udp_dups_made, udp_reorders=sim.udp_reorders_made)
        rec['observed'] = {name: list(stk.bp.observed) for name, stk in world.stacks.items()}
        rec['observed_ctrs'] = {name: list(stk.bp.observed_ctrs) for name, stk in world.stacks.items()}
        rec['udp_sent'] = {name: stk.udp_sent() for name, stk in world.stacks.items()}
        # bundles handed to a convergence layer by each BP agent (arguments of the adaptor's bus call)
        handed = {name: list(stk.handed) for name, stk in world.stacks.items()}
        bus_handed = {name: [] for name in world.stacks}
        popped = {name: [] for name in world.stacks}
        announced = {name: [] for name in world.stacks}
        pop_args = {}
        for event in sim.hist.events:
            node = event.get('node') or ''
            if event['kind'] == 'call' and event.get('member') == 'send_bundle_data' and node.startswith('bp-'):
                bus_handed[node[3:]].append((event['no'], bytes(event['args'][0]), event['path']))
            if event['kind'] == 'call' and event.get('member') == 'recv_bundle_pop_data' and node.startswith('bp-'):
                pop_args[node] = str(event['args'][0])
            if event['kind'] == 'return' and event.get('member') == 'recv_bundle_pop_data' and node.startswith('bp-'):
                popped[node[3:]].append((event['no'], bytes(event['retval']), event['path'], pop_args.get(node)))
            if event['kind'] == 'signal' and event.get('member') == 'recv_bundle_finished' and event.get('exported', True):
                args = event.get('args') or ()
                if 'tcpcl' in event['path'] and len(args) > 2 and str(args[2]) != 'success':
                    continue
                announced[(node.split('-', 1) + ['?'])[1]].append((event['no'], event['path'], str(args[0]) if args else None))
        rec['handed'] = handed
        rec['bus_handed'] = bus_handed
        rec['popped'] = popped
        rec['announced'] = announced
        # receive queues of every CL object that is still on the bus: {host: {object path: [ids as text]}}
        left = {}
        for name, stk in world.stacks.items():
            left[name] = {stk.udp_path: [str(key) for key in stk.udp._rx_queue.keys()]}
            if stk.tcp is not None:
                for hdl in list(getattr(stk.tcp, '_handlers', []) or []):
                    left[name][hdl._object_path] = [str(key) for key in getattr(hdl, '_rx_map', {}).keys()]
        rec['left_in_rx_queues'] = left
        rec['seen'] = {name: len(stk.bp.seen()) for name, stk in world.stacks.items()}
        return rec
    finally:
        world.close()


# ------------------------------------------------------------------ judges: vf.stackjudge

def judge(rec, prop):
    from vf import stackjudge  # pylint: disable=import-outside-toplevel
    return stackjudge.judge(rec, prop)


def run_for(prop, case):
    """ A props-module ``run_case`` result for one stack case. """
    rec = run(case)
    problems, obs = judge(rec, prop)
    violations = []
    seen = set()
    for (kind, text) in problems:
        if kind in seen:
            continue
        seen.add(kind)
        violations.append(dict(key=None, what='[stack %s] %s' % (kind, text), detail=dict(case=case, vtime_s=rec['vtime_s'], steps=rec['steps'])))
    nontrivial = any(val for name, val in obs.items() if name not in ('stack_runs', 'stack_runs_out_of_budget'))
    cls = {hash((case['seed'], case['link1'], case['link2'], case['policy'])) & 0xFFFFFFFFFFFF} if nontrivial else set()
    if rec['end'] != 'quiescent':
        return dict(verdict='inconclusive', nontrivial=False, cls=set(), obs=obs, violations=[], sample=None, evaluations=1)
    obs['stack_udp_duplicates_injected'] = rec['udp_dups']
    obs['stack_udp_reorders'] = rec['udp_reorders']
    return dict(verdict='violated' if violations else 'held', nontrivial=nontrivial, cls=cls, obs=obs, violations=violations[:8],
                sample=dict(case={k: v for k, v in case.items() if k != 'bundles'}, bundles=len(case['bundles']), vtime_s=rec['vtime_s']),
                evaluations=1)


def add_cases(out, tier, seed):
    """ Blocks of whole-stack scenarios for a property module's case list. """
    total, block = (4000, 10) if tier == 'thorough' else (64, 4)
    for idx in range(0, total, block):
        out.append(dict(id='stack-%d' % idx, kind='stack', seed=seed * 50021 + idx, count=block, tier=tier))
    return out


def run_block(prop, case):
    """ Run ``count`` consecutive scenarios and merge their results into one run_case result. """
    merged = dict(verdict='held', nontrivial=False, cls=set(), obs={}, violations=[], sample=None, evaluations=0)
    for idx in range(case['count']):
        res = run_for(prop, gen_case(case['seed'] + idx, case.get('tier', 'quick')))
        merged['evaluations'] += 1
        for name, val in res['obs'].items():
            merged['obs'][name] = merged['obs'].get(name, 0) + val
        merged['cls'] |= res['cls']
        merged['nontrivial'] = merged['nontrivial'] or res['nontrivial']
        merged['violations'] += res['violations']
        if merged['sample'] is None:
            merged['sample'] = res['sample']
    if merged['violations']:
        merged['verdict'] = 'violated'
        merged['violations'] = merged['violations'][:8]
    return merged
