''' ``python -m vf.selftest``: shim / oracle conformance (run by ./setup). '''
import sys

from vf import env


def main():
    env.bootstrap()
    from vf.world import conformance
    report, problems = conformance.run_all()
    print('conformance rows checked:', report)
    from vf.oracles import selftest as oracle_selftest
    rep2, probs2 = oracle_selftest.run_all()
    print('oracle known-answer tests:', rep2)
    problems += probs2
    for item in problems:
        print('SELFTEST FAILURE:', item)
    return 1 if problems else 0


if __name__ == '__main__':
    sys.exit(main())
