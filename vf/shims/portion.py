''' Shim for the ``portion`` package restricted to integer bounds.

Every interval is a normalized list of half-open integer atoms ``[lo, hi)``.
``closedopen(a, b)`` of the real package merges with an adjacent
``closedopen(b, c)``, which integer half-open atoms reproduce exactly; the
discrete API (``create_api`` on an ``AbstractDiscreteInterval`` subclass with
step 1) maps ``closed(a, b)`` to ``[a, b + 1)`` and ``singleton(a)`` to
``[a, a + 1)`` and presents closed bounds.

Self-test against ``set[int]``: vf/world/conformance.py.
'''


def _normalize(atoms):
    out = []
    for (lo, hi) in sorted((lo, hi) for (lo, hi) in atoms if lo < hi):
        if out and lo <= out[-1][1]:
            if hi > out[-1][1]:
                out[-1] = (out[-1][0], hi)
        else:
            out.append((lo, hi))
    return out


class Interval(object):
    ''' Union of half-open integer atoms. '''
    _discrete = False

    def __init__(self, *atoms):
        self._atoms = _normalize(atoms)

    @classmethod
    def _make(cls, atoms):
        obj = cls()
        obj._atoms = _normalize(atoms)
        return obj

    @property
    def empty(self):
        return not self._atoms

    @property
    def atomic(self):
        return len(self._atoms) <= 1

    @property
    def lower(self):
        if not self._atoms:
            raise ValueError('empty interval has no lower bound')
        return self._atoms[0][0]

    @property
    def upper(self):
        if not self._atoms:
            raise ValueError('empty interval has no upper bound')
        hi = self._atoms[-1][1]
        return hi - 1 if self._discrete else hi

    def __iter__(self):
        for atom in self._atoms:
            yield type(self)._make([atom])

    def __len__(self):
        return len(self._atoms)

    def __or__(self, other):
        if not isinstance(other, Interval):
            return NotImplemented
        return type(self)._make(self._atoms + other._atoms)

    def __and__(self, other):
        if not isinstance(other, Interval):
            return NotImplemented
        out = []
        for (alo, ahi) in self._atoms:
            for (blo, bhi) in other._atoms:
                lo, hi = max(alo, blo), min(ahi, bhi)
                if lo < hi:
                    out.append((lo, hi))
        return type(self)._make(out)

    def __sub__(self, other):
        if not isinstance(other, Interval):
            return NotImplemented
        out = list(self._atoms)
        for (blo, bhi) in other._atoms:
            nxt = []
            for (alo, ahi) in out:
                if bhi <= alo or ahi <= blo:
                    nxt.append((alo, ahi))
                else:
                    if alo < blo:
                        nxt.append((alo, blo))
                    if bhi < ahi:
                        nxt.append((bhi, ahi))
            out = nxt
        return type(self)._make(out)

    def __eq__(self, other):
        if not isinstance(other, Interval):
            return NotImplemented
        return self._atoms == other._atoms

    def __ne__(self, other):
        res = self.__eq__(other)
        return res if res is NotImplemented else not res

    def __hash__(self):
        return hash(tuple(self._atoms))

    def __contains__(self, item):
        if isinstance(item, Interval):
            return (item - self).empty
        return any(lo <= item < hi for (lo, hi) in self._atoms)

    def contains(self, item):
        return item in self

    def __repr__(self):
        if not self._atoms:
            return '()'
        if self._discrete:
            return ' | '.join('[%d,%d]' % (lo, hi - 1) for (lo, hi) in self._atoms)
        return ' | '.join('[%d,%d)' % atom for atom in self._atoms)

    def _points(self):
        for (lo, hi) in self._atoms:
            for val in range(lo, hi):
                yield val


class AbstractDiscreteInterval(Interval):
    ''' Base of user-defined discrete intervals (``_step`` is 1 here). '''
    _discrete = True
    _step = 1


def _check_int(*vals):
    for val in vals:
        if not isinstance(val, int) or isinstance(val, bool):
            raise TypeError('vf portion shim handles integer bounds only, got %r' % (val,))


def closedopen(lower, upper):
    _check_int(lower, upper)
    return Interval((lower, upper))


def closed(lower, upper):
    _check_int(lower, upper)
    return Interval((lower, upper + 1))


def singleton(value):
    _check_int(value)
    return Interval((value, value + 1))


def empty():
    return Interval()


def iterate(interval, step=1, **_kwargs):
    if step != 1:
        raise ValueError('vf portion shim iterates with step 1 only')
    return interval._points()


class _Api(object):
    def __init__(self, cls):
        self._cls = cls

    def empty(self):
        return self._cls()

    def closedopen(self, lower, upper):
        _check_int(lower, upper)
        return self._cls((lower, upper))

    def closed(self, lower, upper):
        _check_int(lower, upper)
        return self._cls((lower, upper + 1))

    def singleton(self, value):
        _check_int(value)
        return self._cls((value, value + 1))

    def iterate(self, interval, step=1, **kwargs):
        return iterate(interval, step, **kwargs)


def create_api(cls):
    return _Api(cls)
