''' GLib main-loop API as used by the repository, backed by the sim-world. '''
from vf.world import loop as _loop

IO_IN = _loop.IO_IN
IO_OUT = _loop.IO_OUT
IO_PRI = _loop.IO_PRI
IO_ERR = _loop.IO_ERR
IO_HUP = _loop.IO_HUP
IO_NVAL = _loop.IO_NVAL
PRIORITY_DEFAULT = _loop.PRIORITY_DEFAULT
PRIORITY_DEFAULT_IDLE = _loop.PRIORITY_DEFAULT_IDLE
PRIORITY_HIGH = -100
PRIORITY_LOW = 300
glib_version = (2, 74, 4)


class IOCondition(int):
    IN = IO_IN
    OUT = IO_OUT
    PRI = IO_PRI
    ERR = IO_ERR
    HUP = IO_HUP
    NVAL = IO_NVAL


def io_add_watch(*args, **kwargs):
    return _loop.get_world().io_add_watch(*args, **kwargs)


def idle_add(func, *args, **kwargs):
    return _loop.get_world().idle_add(func, *args, **kwargs)


def timeout_add(interval, func, *args, **kwargs):
    return _loop.get_world().timeout_add(interval, func, *args, **kwargs)


def timeout_add_seconds(interval, func, *args, **kwargs):
    return _loop.get_world().timeout_add(int(interval) * 1000, func, *args, **kwargs)


def source_remove(sid):
    return _loop.get_world().source_remove(sid)


class MainLoop(object):
    ''' The harness drives iterations itself; run() is never entered. '''

    def __init__(self, *_args, **_kwargs):
        self._running = False

    def run(self):
        raise RuntimeError('vf shim: MainLoop.run() is driven by the harness')

    def quit(self):
        _loop.get_world().mainloops_quit += 1
        self._running = False

    def is_running(self):
        return self._running
