''' Shim for PyGObject: only ``gi.repository.GLib`` is provided (see vf/world/loop.py). '''


def require_version(_name, _version):
    return None
