''' Minimal stand-in for PyYAML: configuration documents handed to the real from_file() loaders by the checks are written
as JSON, which is a subset of YAML 1.2, so json is a faithful loader for them.  Nothing else is supported. '''
import json


class YAMLError(Exception):
    pass


def safe_load(stream):
    text = stream.read() if hasattr(stream, 'read') else stream
    if isinstance(text, bytes):
        text = text.decode('utf-8')
    if not text.strip():
        return None
    try:
        return json.loads(text)
    except ValueError as err:
        raise YAMLError('vf yaml shim reads the JSON subset only: %s' % err)


load = safe_load
