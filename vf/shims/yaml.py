''' Import-only stub (configuration files are not loaded by the checks). '''


def safe_load(_fileobj):
    raise NotImplementedError('vf shim: yaml is a stub')
