''' Minimal value classes of the macaddress package (BTP-U channel keys). '''


class HWAddress(object):
    size = 48

    def __init__(self, address):
        if isinstance(address, HWAddress):
            self._octets = bytes(address)
        elif isinstance(address, (bytes, bytearray)):
            if len(address) != self.size // 8:
                raise ValueError('wrong size for hardware address')
            self._octets = bytes(address)
        elif isinstance(address, int):
            self._octets = address.to_bytes(self.size // 8, 'big')
        elif isinstance(address, str):
            text = address.replace('-', ':').replace('.', ':')
            parts = text.split(':')
            if len(parts) == self.size // 8:
                self._octets = bytes(int(part, 16) for part in parts)
            else:
                hexes = ''.join(parts)
                if len(hexes) != self.size // 4:
                    raise ValueError('cannot parse hardware address %r' % address)
                self._octets = bytes.fromhex(hexes)
        else:
            raise TypeError('cannot make hardware address from %r' % type(address))

    def __bytes__(self):
        return self._octets

    def __int__(self):
        return int.from_bytes(self._octets, 'big')

    def __str__(self):
        return '-'.join('%02X' % octet for octet in self._octets)

    def __repr__(self):
        return '%s(%r)' % (type(self).__name__, str(self))

    def __eq__(self, other):
        return isinstance(other, HWAddress) and self._octets == other._octets

    def __lt__(self, other):
        return self._octets < bytes(other)

    def __hash__(self):
        return hash((type(self).__name__, self._octets))


class EUI48(HWAddress):
    size = 48


MAC = EUI48
