''' dbus-python value types (data only; marshalling rules are in vf/oracles/dbus_sig.py). '''


class _DBusTypeMixin(object):
    variant_level = 0


def _mkint(name):
    class _Int(int):
        variant_level = 0

        def __new__(cls, value=0, variant_level=0):
            obj = int.__new__(cls, value)
            obj.variant_level = variant_level
            return obj

        def __repr__(self):
            return 'dbus.%s(%d)' % (name, int(self))
    _Int.__name__ = name
    _Int.__qualname__ = name
    return _Int


Byte = _mkint('Byte')
Int16 = _mkint('Int16')
UInt16 = _mkint('UInt16')
Int32 = _mkint('Int32')
UInt32 = _mkint('UInt32')
Int64 = _mkint('Int64')
UInt64 = _mkint('UInt64')


class Boolean(int):
    variant_level = 0

    def __new__(cls, value=False, variant_level=0):
        obj = int.__new__(cls, bool(value))
        obj.variant_level = variant_level
        return obj

    def __repr__(self):
        return 'dbus.Boolean(%s)' % bool(self)


class Double(float):
    variant_level = 0

    def __new__(cls, value=0.0, variant_level=0):
        obj = float.__new__(cls, value)
        obj.variant_level = variant_level
        return obj


class String(str):
    variant_level = 0

    def __new__(cls, value='', variant_level=0):
        if isinstance(value, bytes):
            value = value.decode('utf-8')
        obj = str.__new__(cls, value)
        obj.variant_level = variant_level
        return obj


class ObjectPath(str):
    variant_level = 0

    def __new__(cls, value='/', variant_level=0):
        obj = str.__new__(cls, value)
        obj.variant_level = variant_level
        return obj


class Signature(str):
    variant_level = 0

    def __new__(cls, value='', variant_level=0):
        obj = str.__new__(cls, value)
        obj.variant_level = variant_level
        return obj


class ByteArray(bytes):
    variant_level = 0

    def __new__(cls, value=b'', variant_level=0):
        if isinstance(value, str):
            raise TypeError('string argument without an encoding')
        obj = bytes.__new__(cls, bytes(value))
        obj.variant_level = variant_level
        return obj


class Array(list):
    def __init__(self, iterable=(), signature=None, variant_level=0):
        list.__init__(self, iterable)
        self.signature = Signature(signature) if signature is not None else None
        self.variant_level = variant_level


class Dictionary(dict):
    def __init__(self, mapping_or_iterable=(), signature=None, variant_level=0):
        dict.__init__(self, mapping_or_iterable)
        self.signature = Signature(signature) if signature is not None else None
        self.variant_level = variant_level


class Struct(tuple):
    def __new__(cls, iterable=(), signature=None, variant_level=0):
        obj = tuple.__new__(cls, iterable)
        obj.signature = Signature(signature) if signature is not None else None
        obj.variant_level = variant_level
        return obj


class UTF8String(String):
    pass
