''' In-process bus, proxies and the boundary-history recorder. '''
from vf.oracles import dbus_sig
from vf.world import loop as _loop
from . import _types
from .exceptions import DBusException

BUS_SESSION = 0
BUS_SYSTEM = 1
BUS_STARTER = 2


class History(object):
    ''' Boundary history: signals and bus method calls, in global event order. '''

    def __init__(self):
        self.events = []
        self.sig_violations = []
        self.listeners = []

    def add(self, kind, **fields):
        world = _loop.get_world()
        world.event_no += 1
        event = dict(kind=kind, no=world.event_no, vtime_ns=world.now_ns,
                     node=(world.current_node.name if world.current_node else None))
        event.update(fields)
        self.events.append(event)
        for func in self.listeners:
            func(event)
        return event

    def signals(self, member=None, path=None):
        return [ev for ev in self.events
                if ev['kind'] == 'signal' and (member is None or ev['member'] == member)
                and (path is None or ev['path'] == path)]


_HISTORY = History()


def history():
    return _HISTORY


def new_history():
    global _HISTORY  # pylint: disable=global-statement
    _HISTORY = History()
    return _HISTORY


def to_dbus_arg(sig, val):
    ''' Convert a Python value to what the bus would deliver for ``sig``. '''
    code = sig[0]
    if code == 'y':
        return _types.Byte(val if not isinstance(val, bytes) else val[0])
    if code == 'b':
        return _types.Boolean(val)
    if code == 'n':
        return _types.Int16(val)
    if code == 'q':
        return _types.UInt16(val)
    if code == 'i':
        return _types.Int32(val)
    if code == 'u':
        return _types.UInt32(int(val))
    if code == 'x':
        return _types.Int64(int(val))
    if code == 't':
        return _types.UInt64(int(val))
    if code == 'd':
        return _types.Double(val)
    if code == 's':
        return _types.String(val)
    if code == 'o':
        return _types.ObjectPath(val)
    if code == 'g':
        return _types.Signature(val)
    if code == 'v':
        inner = dbus_sig.guess_signature(val)
        out = to_dbus_arg(inner, val)
        try:
            out.variant_level = 1
        except AttributeError:
            pass
        return out
    if code == 'a':
        elem = sig[1:]
        if elem.startswith('{'):
            ksig, vsig = dbus_sig.split_signature(elem[1:-1])
            return _types.Dictionary(
                {to_dbus_arg(ksig, key): to_dbus_arg(vsig, val[key]) for key in val},
                signature=elem[1:-1])
        if elem == 'y':
            if isinstance(val, (bytes, bytearray)):
                return _types.Array([_types.Byte(item) for item in bytes(val)], signature='y')
        return _types.Array([to_dbus_arg(elem, item) for item in val], signature=elem)
    if code == '(':
        parts = dbus_sig.split_signature(sig[1:-1])
        return _types.Struct([to_dbus_arg(part, item) for part, item in zip(parts, val)], signature=sig[1:-1])
    raise ValueError('bad signature %r' % sig)


class MethodCallError(Exception):
    ''' A bus method call whose arguments or reply do not marshal. '''


class _ProxyMethod(object):
    def __init__(self, proxy, name, iface):
        self._proxy = proxy
        self._name = name
        self._iface = iface

    def __call__(self, *args, **kwargs):
        return self._proxy._call(self._name, self._iface, args, kwargs)


class ProxyObject(object):
    ''' Client-side proxy to an exported object of the in-process bus. '''

    def __init__(self, conn, bus_name, object_path):
        self._conn = conn
        self.bus_name = bus_name
        self.requested_bus_name = bus_name
        self.object_path = object_path

    def _target(self):
        obj = self._conn._objects.get(self.object_path)
        if obj is None:
            raise DBusException('No such object path %r' % self.object_path,
                                name='org.freedesktop.DBus.Error.UnknownObject')
        return obj

    def _call(self, name, iface, args, kwargs):
        if self.bus_name == 'org.freedesktop.DBus':
            return self._conn._bus_daemon_call(name, args)
        obj = self._target()
        func = getattr(type(obj), name, None)
        if func is None or not getattr(func, '_dbus_is_method', False):
            raise DBusException('Method %r not found' % name, name='org.freedesktop.DBus.Error.UnknownMethod')
        hist = history()
        in_sig = func._dbus_in_signature
        out_sig = func._dbus_out_signature
        call_args = args
        if in_sig is not None:
            verdict = dbus_sig.check(in_sig, args)
            if verdict is not None:
                # the client-side library raises before anything is sent
                raise {'TypeError': TypeError, 'ValueError': ValueError, 'OverflowError': OverflowError}.get(
                    verdict[0], TypeError)(verdict[1])
            parts = dbus_sig.split_signature(in_sig)
            call_args = tuple(to_dbus_arg(part, arg) for part, arg in zip(parts, args))
        world = _loop.get_world()
        target_node = getattr(obj, '_vf_node', None)
        event = hist.add('call', path=self.object_path, iface=func._dbus_interface, member=name,
                         args=args, obj=obj)
        prev = world.current_node
        if target_node is not None:
            world.current_node = world.node(target_node)
        try:
            try:
                retval = getattr(obj, name)(*call_args)
            except Exception as err:  # pylint: disable=broad-except
                event['raised'] = err
                hist.add('error', path=self.object_path, member=name, exc_type=type(err).__name__,
                         exc=str(err)[:200], obj=obj)
                if isinstance(err, DBusException):
                    raise
                wrapped = DBusException('%s: %s' % (type(err).__name__, err),
                                        name='org.freedesktop.DBus.Python.' + type(err).__name__)
                wrapped.__cause__ = err
                raise wrapped
        finally:
            world.current_node = prev
        verdict = dbus_sig.check_return(out_sig, retval)
        ret_event = hist.add('return', path=self.object_path, iface=func._dbus_interface, member=name,
                             retval=retval, signature=out_sig, obj=obj)
        if verdict is not None:
            from .service import SignatureViolation
            viol = SignatureViolation('return', self.object_path, func._dbus_interface, name, out_sig, (retval,), *verdict)
            ret_event['sig_violation'] = viol
            hist.sig_violations.append(viol)
            raise DBusException('reply does not marshal: %s %s' % verdict, name='org.freedesktop.DBus.Error.Failed')
        return self._conn._convert_reply(out_sig, retval)

    def connect_to_signal(self, signal_name, handler_function, dbus_interface=None, **keywords):
        return self._conn._add_match(self.bus_name, self.object_path, dbus_interface, signal_name, handler_function)

    def get_dbus_method(self, member, dbus_interface=None):
        return _ProxyMethod(self, member, dbus_interface)

    def __getattr__(self, name):
        if name.startswith('_'):
            raise AttributeError(name)
        return _ProxyMethod(self, name, None)


class Interface(object):
    def __init__(self, obj, dbus_interface):
        if isinstance(obj, Interface):
            obj = obj.proxy_object
        self._obj = obj
        self._dbus_interface = dbus_interface

    object_path = property(lambda self: self._obj.object_path)
    bus_name = property(lambda self: self._obj.bus_name)
    proxy_object = property(lambda self: self._obj)
    dbus_interface = property(lambda self: self._dbus_interface)

    def connect_to_signal(self, signal_name, handler_function, dbus_interface=None, **keywords):
        if not dbus_interface:
            dbus_interface = self._dbus_interface
        return self._obj.connect_to_signal(signal_name, handler_function, dbus_interface, **keywords)

    def get_dbus_method(self, member, dbus_interface=None):
        return self._obj.get_dbus_method(member, dbus_interface or self._dbus_interface)

    def __getattr__(self, name):
        if name.startswith('_'):
            raise AttributeError(name)
        return self._obj.get_dbus_method(name, self._dbus_interface)


class SignalMatch(object):
    def __init__(self, conn, key, handler):
        self._conn = conn
        self._key = key
        self._handler = handler

    def remove(self):
        try:
            self._conn._matches.remove(self)
        except ValueError:
            pass


class BusConnection(object):
    ''' One process-wide bus shared by every connection with the same address. '''
    _BUSES = {}

    TYPE_SESSION = BUS_SESSION
    TYPE_SYSTEM = BUS_SYSTEM
    TYPE_STARTER = BUS_STARTER

    def __new__(cls, address_or_type=BUS_SESSION, mainloop=None):
        shared = cls._BUSES.get(address_or_type)
        if shared is None:
            shared = object.__new__(cls)
            shared._init_shared(address_or_type)
            cls._BUSES[address_or_type] = shared
        return shared

    def _init_shared(self, address):
        self._address = address
        self._objects = {}
        self._names = set()
        self._matches = []
        self._name_watch = []

    @classmethod
    def reset_all(cls):
        cls._BUSES = {}

    # -- service side
    def _register_object(self, path, obj):
        world = _loop.get_world()
        if world.current_node is not None:
            obj._vf_node = world.current_node.name
        self._objects[path] = obj

    def _unregister_object(self, path, obj):
        if self._objects.get(path) is obj:
            del self._objects[path]

    def _own_name(self, name):
        if name in self._names:
            raise DBusException('name %s already owned' % name)
        self._names.add(name)
        for match in list(self._matches):
            (bus_name, path, iface, member) = match._key
            if member == 'NameOwnerChanged':
                self._queue(match, (name, '', ':1.%d' % len(self._names)))

    def _queue(self, match, args):
        world = _loop.get_world()
        node = getattr(match, '_vf_node', None)
        prev = world.current_node
        if node is not None:
            world.current_node = world.node(node)
        try:
            # signal delivery is an ordinary priority-0 event of the subscriber
            def deliver():
                match._handler(*args)
                return False
            world.timeout_add(0, deliver)
        finally:
            world.current_node = prev

    def _deliver_signal(self, path, iface, member, args, signature):
        parts = dbus_sig.split_signature(signature) if signature else None
        if parts is not None:
            conv = tuple(to_dbus_arg(part, arg) for part, arg in zip(parts, args))
        else:
            conv = tuple(args)
        for match in list(self._matches):
            (m_name, m_path, m_iface, m_member) = match._key
            if m_path is not None and m_path != path:
                continue
            if m_iface is not None and m_iface != iface:
                continue
            if m_member is not None and m_member != member:
                continue
            self._queue(match, conv)

    def _add_match(self, bus_name, path, iface, member, handler):
        match = SignalMatch(self, (bus_name, path, iface, member), handler)
        world = _loop.get_world()
        if world.current_node is not None:
            match._vf_node = world.current_node.name
        self._matches.append(match)
        return match

    def _bus_daemon_call(self, name, args):
        if name == 'NameHasOwner':
            return _types.Boolean(args[0] in self._names)
        if name == 'ListNames':
            return _types.Array(sorted(self._names), signature='s')
        raise DBusException('bus daemon method %s not simulated' % name)

    def _convert_reply(self, out_sig, retval):
        if out_sig is None or out_sig == '':
            return retval if out_sig is None else None
        parts = dbus_sig.split_signature(out_sig)
        if len(parts) == 1:
            return to_dbus_arg(parts[0], retval)
        return tuple(to_dbus_arg(part, item) for part, item in zip(parts, retval))

    # -- client side
    def get_object(self, bus_name=None, object_path=None, introspect=True, **kwargs):
        named = kwargs.get('named_service')
        if named is not None:
            bus_name = named
        return ProxyObject(self, bus_name, object_path)

    def add_signal_receiver(self, handler_function, signal_name=None, dbus_interface=None,
                            bus_name=None, path=None, **keywords):
        return self._add_match(bus_name, path, dbus_interface, signal_name, handler_function)

    def name_has_owner(self, bus_name):
        return bus_name in self._names

    def get_unique_name(self):
        return ':1.0'

    def close(self):
        return None


class Bus(BusConnection):
    pass


def SessionBus(*_args, **_kwargs):
    return BusConnection(BUS_SESSION)


def SystemBus(*_args, **_kwargs):
    return BusConnection(BUS_SYSTEM)
