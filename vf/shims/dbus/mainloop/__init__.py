class NativeMainLoop(object):
    pass


NULL_MAIN_LOOP = NativeMainLoop()
