''' dbus exception classes. '''


class DBusException(Exception):
    include_traceback = False

    def __init__(self, *args, **kwargs):
        name = kwargs.pop('name', None)
        if name is not None or getattr(self, '_dbus_error_name', None) is None:
            self._dbus_error_name = name
        if kwargs:
            raise TypeError('DBusException does not take keyword arguments: %s' % ', '.join(kwargs.keys()))
        Exception.__init__(self, *args)

    def get_dbus_name(self):
        return self._dbus_error_name

    def get_dbus_message(self):
        return str(self)


class MissingErrorHandlerException(DBusException):
    pass


class MissingReplyHandlerException(DBusException):
    pass


class ValidationException(DBusException):
    pass


class IntrospectionParserException(DBusException):
    pass


class UnknownMethodException(DBusException):
    _dbus_error_name = 'org.freedesktop.DBus.Error.UnknownMethod'


class NameExistsException(DBusException):
    pass
