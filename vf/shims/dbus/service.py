''' dbus.service: exported objects, method and signal decorators. '''
from vf.oracles import dbus_sig
from . import bus as _bus
from .exceptions import DBusException


class BusName(object):
    def __init__(self, name, bus=None, allow_replacement=False, replace_existing=False, do_not_queue=False):
        self._name = name
        self._bus = bus
        if bus is not None:
            bus._own_name(name)

    def get_name(self):
        return self._name

    def get_bus(self):
        return self._bus


def method(dbus_interface, in_signature=None, out_signature=None, **_kwargs):
    def decorator(func):
        func._dbus_is_method = True
        func._dbus_interface = dbus_interface
        func._dbus_in_signature = in_signature
        func._dbus_out_signature = out_signature
        return func
    return decorator


class SignatureViolation(object):
    ''' Record of an emission / return that does not marshal. '''

    def __init__(self, kind, path, iface, member, signature, args, exc_type, msg):
        self.kind = kind
        self.path = path
        self.iface = iface
        self.member = member
        self.signature = signature
        self.args_repr = repr(args)[:300]
        self.exc_type = exc_type
        self.msg = msg

    def to_json(self):
        return dict(kind=self.kind, path=self.path, iface=self.iface, member=self.member,
                    signature=self.signature, args=self.args_repr, exc_type=self.exc_type, msg=self.msg)


_EXC_TYPES = {
    'TypeError': TypeError,
    'ValueError': ValueError,
    'OverflowError': OverflowError,
    'UnicodeError': UnicodeError,
    'ABORT': SystemError,
}


def signal(dbus_interface, signature=None, **_kwargs):
    def decorator(func):
        member = func.__name__

        def emit_signal(self, *args, **keywords):
            abs_path = None
            func(self, *args, **keywords)
            rec = _bus.history()
            verdict = None
            if signature is not None:
                verdict = dbus_sig.check(signature, args)
            else:
                try:
                    for arg in args:
                        dbus_sig.append_one(dbus_sig.guess_signature(arg), arg)
                except dbus_sig.SigError as err:
                    verdict = (err.exc_type, err.msg)
            path = getattr(self, '_object_path', abs_path)
            exported = bool(getattr(self, '_locations', ()))
            event = rec.add('signal', path=path, iface=dbus_interface, member=member, args=args,
                            signature=signature, exported=exported, obj=self)
            if verdict is not None:
                viol = SignatureViolation('signal', path, dbus_interface, member, signature, args, *verdict)
                event['sig_violation'] = viol
                rec.sig_violations.append(viol)
                if exported:
                    raise _EXC_TYPES.get(verdict[0], TypeError)(verdict[1])
                return
            if exported:
                for (conn, loc_path, _fallback) in list(self._locations):
                    conn._deliver_signal(loc_path, dbus_interface, member, args, signature)

        emit_signal.__name__ = func.__name__
        emit_signal.__doc__ = func.__doc__
        emit_signal._dbus_is_signal = True
        emit_signal._dbus_interface = dbus_interface
        emit_signal._dbus_signature = signature
        emit_signal.__wrapped__ = func
        return emit_signal
    return decorator


class Object(object):
    ''' Exported object. '''
    SUPPORTS_MULTIPLE_OBJECT_PATHS = False
    SUPPORTS_MULTIPLE_CONNECTIONS = False

    def __init__(self, conn=None, object_path=None, bus_name=None):
        self._object_path = None
        self._locations = []
        self._name = bus_name
        if conn is None and bus_name is not None:
            conn = bus_name.get_bus()
        if conn is not None and object_path is not None:
            self.add_to_connection(conn, object_path)

    @property
    def __dbus_object_path__(self):
        return self._object_path

    @property
    def locations(self):
        return iter(self._locations)

    @property
    def connection(self):
        return self._locations[0][0] if self._locations else None

    def add_to_connection(self, connection, path):
        if path == '/' and False:
            raise ValueError('bad path')
        if self._object_path is not None and self._locations:
            raise ValueError('%r is already exported at %r' % (self, self._object_path))
        self._object_path = path
        connection._register_object(path, self)
        self._locations.append((connection, path, False))

    def remove_from_connection(self, connection=None, path=None):
        if not self._locations:
            raise LookupError('%r is not exported' % self)
        dropped = []
        for loc in list(self._locations):
            if (connection is None or loc[0] is connection) and (path is None or loc[1] == path):
                dropped.append(loc)
        if not dropped:
            raise LookupError('%r is not exported at a location matching (%r,%r)' % (self, connection, path))
        for loc in dropped:
            self._locations.remove(loc)
            loc[0]._unregister_object(loc[1], self)

    def __repr__(self):
        return '<%s.%s at %s>' % (type(self).__module__, type(self).__name__, self._object_path)


class FallbackObject(Object):
    pass
