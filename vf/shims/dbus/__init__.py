''' Shim for dbus-python: recorder + in-process bus.

* ``dbus.service.method`` / ``dbus.service.signal`` keep the declared
  signatures; every signal emission (and every method call made through a bus
  proxy) is appended to the world-wide *boundary history* and checked against
  the declared signature by vf/oracles/dbus_sig.py (a calibrated model of
  dbus-python's marshalling).
* A signal whose arguments do not marshal raises, out of the emitting call, the
  exception dbus-python raises there -- but only while the object is exported
  (``locations`` non-empty), exactly like the real library.
'''
from ._types import (  # noqa: F401
    Byte, Int16, UInt16, Int32, UInt32, Int64, UInt64, Boolean, Double,
    String, ObjectPath, Signature, ByteArray, Array, Dictionary, Struct, UTF8String,
)
from .exceptions import (  # noqa: F401
    DBusException, MissingErrorHandlerException, MissingReplyHandlerException,
    ValidationException, IntrospectionParserException, UnknownMethodException,
    NameExistsException,
)
from . import exceptions  # noqa: F401
from . import bus  # noqa: F401
from .bus import BusConnection, Interface, SessionBus, SystemBus, Bus  # noqa: F401
from . import service  # noqa: F401
from . import mainloop  # noqa: F401

version = (1, 3, 2)
__version__ = '1.3.2'
