''' Import-only stub with a fake link-layer address table. '''
import collections

AF_LINK = 17
_Addr = collections.namedtuple('snicaddr', ['family', 'address', 'netmask', 'broadcast', 'ptp'])

# interface name -> MAC text; filled by the harness
FAKE_IFS = {}


def net_if_addrs():
    return {
        name: [_Addr(AF_LINK, mac, None, None, None)]
        for name, mac in FAKE_IFS.items()
    }
