''' Import-only stub. '''


class _Stub(object):
    def __init__(self, *_args, **_kwargs):
        pass

    def __getattr__(self, name):
        def func(*_args, **_kwargs):
            return None
        return func


class Zeroconf(_Stub):
    pass


class ServiceBrowser(_Stub):
    pass


class ServiceInfo(_Stub):
    pass


class ServiceStateChange(object):
    Added = 1
    Removed = 2
    Updated = 3


class IPVersion(object):
    All = 0
    V4Only = 1
    V6Only = 2


class ServiceListener(object):
    pass
