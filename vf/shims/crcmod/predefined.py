''' Table-driven reflected CRCs (the oracle in vf/oracles/crc.py is bitwise). '''


def _table(poly_reflected, width):
    tbl = []
    for idx in range(256):
        crc = idx
        for _ in range(8):
            if crc & 1:
                crc = (crc >> 1) ^ poly_reflected
            else:
                crc >>= 1
        tbl.append(crc)
    return tbl


_T16 = _table(0x8408, 16)
_T32C = _table(0x82F63B78, 32)


def _crc_x25(data, crc=0):
    crc ^= 0xFFFF
    for octet in bytes(data):
        crc = (crc >> 8) ^ _T16[(crc ^ octet) & 0xFF]
    return crc ^ 0xFFFF


def _crc_32c(data, crc=0):
    crc ^= 0xFFFFFFFF
    for octet in bytes(data):
        crc = (crc >> 8) ^ _T32C[(crc ^ octet) & 0xFF]
    return crc ^ 0xFFFFFFFF


_FUNCS = {
    'x-25': _crc_x25,
    'crc-32c': _crc_32c,
}


def mkPredefinedCrcFun(name):
    return _FUNCS[name]


mkCrcFun = mkPredefinedCrcFun
