''' Process bootstrap for every check: import paths, shims, oscrypto fix, clock.

Nothing here writes into /repo or /venv.  ``bootstrap()`` must run before any
repository module is imported.
'''
import importlib.util
import logging
import os
import sys
import types

VERIF_DIR = os.path.dirname(os.path.dirname(os.path.abspath(__file__)))
SHIMS_DIR = os.path.join(VERIF_DIR, 'vf', 'shims')
DEPS_DIR = os.path.join(VERIF_DIR, '.deps')

_BOOTED = False


def repo_dir():
    return os.environ.get('VERIF_REPO', '/repo')


def _fix_oscrypto():
    ''' oscrypto 1.3.0 rejects "OpenSSL 3.0.11" (two-digit patch level); the
    repository pins oscrypto@master for this.  Load the one module from its own
    source with the upstream regex fix applied in memory.
    '''
    name = 'oscrypto._openssl._libcrypto_cffi'
    if name in sys.modules:
        return
    try:
        spec = importlib.util.find_spec(name)
    except (ImportError, ValueError):
        return
    if spec is None or not spec.origin:
        return
    with open(spec.origin, 'r') as infile:
        source = infile.read()
    broken = "re.search('\\\\b(\\\\d\\\\.\\\\d\\\\.\\\\d[a-z]*)\\\\b', version_string)"
    fixed = "re.search('\\\\b(\\\\d+\\\\.\\\\d+\\\\.\\\\d+[a-z]*)\\\\b', version_string)"
    if broken not in source:
        return
    source = source.replace(broken, fixed)
    module = types.ModuleType(name)
    module.__file__ = spec.origin
    module.__package__ = 'oscrypto._openssl'
    module.__spec__ = spec
    sys.modules[name] = module
    try:
        exec(compile(source, spec.origin, 'exec'), module.__dict__)  # pylint: disable=exec-used
    except Exception:  # pylint: disable=broad-except
        del sys.modules[name]
        raise


def bootstrap(quiet=True):
    ''' Idempotent set-up of sys.path and shims. '''
    global _BOOTED  # pylint: disable=global-statement
    if _BOOTED:
        return
    _BOOTED = True
    sys.dont_write_bytecode = True
    src = os.path.join(repo_dir(), 'src')
    for path in (VERIF_DIR, DEPS_DIR, src, SHIMS_DIR):
        if path in sys.path:
            sys.path.remove(path)
    # shims first (they replace missing third-party modules), then the repository
    sys.path[:0] = [SHIMS_DIR, src, VERIF_DIR]
    if os.path.isdir(DEPS_DIR):
        sys.path.append(DEPS_DIR)
    if quiet:
        logging.disable(logging.CRITICAL)
        # scapy warns on import about missing capabilities
        logging.getLogger('scapy').setLevel(logging.CRITICAL)
    _fix_oscrypto()
    import scapy.config  # pylint: disable=import-outside-toplevel
    scapy.config.conf.verb = 0


def enable_logging(level=logging.DEBUG):
    logging.disable(logging.NOTSET)
    logging.basicConfig(level=level, stream=sys.stderr)
