''' Helpers to stand up a real ``bp.agent.Agent`` inside a Sim with observers at
its application and convergence-layer boundaries.
'''
import re

import dbus.bus

from bp import config as bp_config
from bp.util import ChainStep, BundleContainer
from bp.encoding import Bundle


class FakeCl(object):
    ''' CL observer: records every byte string handed to the convergence layer. '''

    def __init__(self, sim, name='fake'):
        self.sim = sim
        self.name = name
        self.sent = []  # (event_no, raw_config, bytes)
        self.fail_next = 0
        # the agent walks every registered adaptor on NameOwnerChanged (whole-stack worlds own bus names)
        self.serv_name = None

    def bind(self, _bus_conn):
        return None

    def unbind(self):
        return None

    def send_bundle_func(self, tx_params):
        def sender(data):
            if self.fail_next:
                self.fail_next -= 1
                raise IOError('vf: simulated CL failure')
            self.sim.world.event_no += 1
            self.sent.append((self.sim.world.event_no, tx_params, bytes(data)))
        return sender

    def datas(self):
        return [item[2] for item in self.sent]


class BpNode(object):
    ''' One real BP agent in its own simulated process. '''

    def __init__(self, sim, node_id, name='bp', rx_routes=(), tx_routes=(), observer_order=29.5, **cfg_kwargs):
        import bp.agent  # pylint: disable=import-outside-toplevel
        import bp.app  # noqa: F401  pylint: disable=import-outside-toplevel,unused-import
        from vf.world.sim import install_clock  # pylint: disable=import-outside-toplevel
        install_clock()
        self.sim = sim
        self.name = name
        self.node_id = node_id
        via_file = cfg_kwargs.pop('via_file', False)
        if via_file:
            # the way the daemon is configured: a document read by the real Config.from_file() (node id and route tables included)
            import io  # pylint: disable=import-outside-toplevel
            import json  # pylint: disable=import-outside-toplevel
            doc = dict(cfg_kwargs, node_id=node_id,
                       rx_route_table=[dict(eid_pattern=pattern, action=action) for (pattern, action) in rx_routes],
                       tx_route_table=[dict(eid_pattern=route['pattern'], next_nodeid=route.get('next', 'dtn://next/'), cl_type=route.get('cl', 'fake'))
                                       for route in tx_routes])
            if via_file == 'noisy':
                # a hand-edited file: entries that cannot be used (no regular expression, missing keys, not a mapping) between the
                # good ones; each is ignored by itself, the routes around it apply as written
                junk = [dict(eid_pattern='dtn://lab[/.*', action='deliver'), dict(action='forward'), dict(eid_pattern='dtn://x/.*'), 'delete', 7]
                for (table, junk_tx) in ((doc['rx_route_table'], False), (doc['tx_route_table'], True)):
                    good = list(table)
                    del table[:]
                    for idx, entry in enumerate(good):
                        table.append(junk[idx % len(junk)] if not junk_tx else dict(eid_pattern='dtn://lab[/.*', next_nodeid='dtn://n/', cl_type='fake'))
                        table.append(entry)
            cfg = bp_config.Config()
            cfg.from_file(io.StringIO(json.dumps({'bp': doc})))
        else:
            cfg = bp_config.Config(node_id=node_id, **cfg_kwargs)
            for (pattern, action) in rx_routes:
                cfg.rx_route_table.append(bp_config.RxRouteItem(eid_pattern=re.compile(pattern), action=action))
            for route in tx_routes:
                cfg.tx_route_table.append(bp_config.TxRouteItem(
                    eid_pattern=re.compile(route['pattern']), next_nodeid=route.get('next', 'dtn://next/'),
                    cl_type=route.get('cl', 'fake'), mtu=route.get('mtu'), raw_config=route.get('raw', {'route': route['pattern']})))
        cfg._bus_conn = dbus.bus.BusConnection('vf-bus-bp-' + name)
        self.cfg = cfg
        self.cl = FakeCl(sim)
        self.observed = []  # dicts
        self.observed_ctrs = []  # the containers themselves, same order
        with sim.as_node(name):
            self.agent = bp.agent.Agent(cfg, bus_kwargs=dict(conn=cfg.bus_conn, object_path='/org/ietf/dtn/bp/Agent'))
        self.agent._cl_agent['fake'] = self.cl
        self.agent._rx_chain.append(ChainStep(order=observer_order, name='vf observer', action=self._observe))
        self.agent._rx_chain.sort()
        self.recv_exceptions = []

    # -- application observer
    def _observe(self, ctr):
        pri = ctr.bundle.primary
        payload = None
        try:
            payload = bytes(ctr.block_num(1).getfieldval('btsd'))
        except Exception:  # pylint: disable=broad-except
            payload = None
        blocks = []
        for blk in ctr.bundle.getfieldval('blocks'):
            data = blk.getfieldval('btsd')
            blocks.append((int(blk.getfieldval('type_code')), blk.getfieldval('block_num'), int(blk.getfieldval('block_flags')),
                           bytes(data) if data is not None else None))
        self.observed_ctrs.append(ctr)
        self.observed.append(dict(
            event_no=self.sim.world.event_no,
            ident=ctr.bundle_ident(),
            actions=dict(ctr.actions),
            flags=int(pri.getfieldval('bundle_flags')),
            dest=pri.getfieldval('destination'),
            payload=payload,
            blocks=blocks,
            is_fragment=bool(int(pri.getfieldval('bundle_flags')) & 1),
        ))
        return None

    def delivered(self):
        ''' Observer records that count as delivery to an application. '''
        return [rec for rec in self.observed if 'deliver' in rec['actions'] and not rec['is_fragment']]

    # -- drive
    def recv(self, data, cltype='fake'):
        ''' Push encoded bundle octets through the agent's CL receive callback. '''
        func = self.agent._cl_recv_bundle_finish(cltype)
        with self.sim.as_node(self.name):
            try:
                func(bytes(data), {})
            except Exception as err:  # pylint: disable=broad-except
                self.recv_exceptions.append(err)
                return err
        return None

    def send(self, ctr):
        with self.sim.as_node(self.name):
            return self.agent.send_bundle(ctr)

    def settle(self, max_steps=20000):
        return self.sim.settle(max_steps)

    def seen(self):
        return set(self.agent._seen_bundle_ident)

    def fragment_app(self):
        return self.agent._app['fragment']

    def bpsec_ctx(self):
        from bp.app import bpsec as bpsec_mod  # pylint: disable=import-outside-toplevel
        return self.agent._app['bpsec'].get_context(bpsec_mod.BPSEC_COSE_CONTEXT_ID)


def container_from_bytes(data):
    return BundleContainer(Bundle(bytes(data)))
