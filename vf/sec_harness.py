''' Helpers for the BPSec properties: key material, source / receiver agents. '''
import datetime
import os
import re

from vf.oracles import cose_bpsec as cb

SRC_NODE = 'dtn://src-node/'
DST_NODE = 'dtn://dst-node/'
WORK_DIR = os.path.join(os.path.dirname(os.path.dirname(os.path.abspath(__file__))), '.work')

MAC_KEY = bytes((i * 7 + 1) & 0xFF for i in range(32))
MAC_KEY_WRONG = bytes((i * 5 + 3) & 0xFF for i in range(32))
ENC_KEY = bytes((i * 11 + 2) & 0xFF for i in range(32))
ENC_KEY128 = bytes((i * 13 + 4) & 0xFF for i in range(16))
KEK = bytes((i * 3 + 9) & 0xFF for i in range(32))

_PKI = {}


def pki():
    ''' EC test PKI: CA + end-entity certificate naming SRC_NODE (id-on-bundleEID), written as PEM files. '''
    if _PKI:
        return _PKI
    from cryptography import x509
    from cryptography.hazmat.primitives import hashes, serialization
    from cryptography.hazmat.primitives.asymmetric import ec
    os.makedirs(WORK_DIR, exist_ok=True)

    def fresh_key():
        # pycose 1.1.0 (the upstream library, not the repository) asserts on keys whose x, y or d has a leading zero octet: about
        # one random key in 85.  Such keys are not used, so that a run never fails for a reason outside the code under test.
        while True:
            key = ec.generate_private_key(ec.SECP256R1())
            nums = key.private_numbers()
            if min(nums.private_value, nums.public_numbers.x, nums.public_numbers.y) >> 248:
                return key
    ca_key = fresh_key()
    ee_key = fresh_key()
    other_key = fresh_key()
    start = datetime.datetime(2020, 1, 1)
    end = datetime.datetime(2040, 1, 1)
    ca_name = x509.Name([x509.NameAttribute(x509.oid.NameOID.COMMON_NAME, 'vf CA')])
    ca_cert = (x509.CertificateBuilder().subject_name(ca_name).issuer_name(ca_name).public_key(ca_key.public_key())
               .serial_number(11).not_valid_before(start).not_valid_after(end)
               .add_extension(x509.BasicConstraints(ca=True, path_length=1), critical=True)
               .add_extension(x509.KeyUsage(digital_signature=False, content_commitment=False, key_encipherment=False, data_encipherment=False,
                                            key_agreement=False, key_cert_sign=True, crl_sign=True, encipher_only=False, decipher_only=False), critical=False)
               .add_extension(x509.SubjectKeyIdentifier.from_public_key(ca_key.public_key()), critical=False)
               .add_extension(x509.AuthorityKeyIdentifier.from_issuer_public_key(ca_key.public_key()), critical=False)
               .sign(ca_key, hashes.SHA256()))

    def ee(name, key, eid, serial):
        value = bytes([0x16, len(eid)]) + eid.encode('ascii')  # IA5String
        return (x509.CertificateBuilder().subject_name(x509.Name([x509.NameAttribute(x509.oid.NameOID.COMMON_NAME, name)]))
                .issuer_name(ca_name).public_key(key.public_key()).serial_number(serial).not_valid_before(start).not_valid_after(end)
                .add_extension(x509.BasicConstraints(ca=False, path_length=None), critical=True)
                .add_extension(x509.SubjectAlternativeName([x509.OtherName(x509.oid.ObjectIdentifier(cb.OID_BUNDLE_EID), value)]), critical=False)
                .add_extension(x509.KeyUsage(digital_signature=True, content_commitment=False, key_encipherment=False, data_encipherment=False,
                                             key_agreement=False, key_cert_sign=False, crl_sign=False, encipher_only=False, decipher_only=False), critical=False)
                .add_extension(x509.ExtendedKeyUsage([x509.oid.ObjectIdentifier('1.3.6.1.5.5.7.3.35')]), critical=False)
                .add_extension(x509.SubjectKeyIdentifier.from_public_key(key.public_key()), critical=False)
                .add_extension(x509.AuthorityKeyIdentifier.from_issuer_public_key(ca_key.public_key()), critical=False)
                .sign(ca_key, hashes.SHA256()))

    ee_cert = ee('src-sign', ee_key, SRC_NODE, 12)
    other_cert = ee('other-sign', other_key, 'dtn://someone-else/', 13)

    def variant(name, key, serial, san, issuer_key=ca_key, issuer_name=ca_name, start=start, end=end):
        builder = (x509.CertificateBuilder().subject_name(x509.Name([x509.NameAttribute(x509.oid.NameOID.COMMON_NAME, name)]))
                   .issuer_name(issuer_name).public_key(key.public_key()).serial_number(serial).not_valid_before(start).not_valid_after(end)
                   .add_extension(x509.BasicConstraints(ca=False, path_length=None), critical=True)
                   .add_extension(x509.KeyUsage(digital_signature=True, content_commitment=False, key_encipherment=False, data_encipherment=False,
                                                key_agreement=False, key_cert_sign=False, crl_sign=False, encipher_only=False, decipher_only=False), critical=False)
                   .add_extension(x509.ExtendedKeyUsage([x509.oid.ObjectIdentifier('1.3.6.1.5.5.7.3.35')]), critical=False)
                   .add_extension(x509.SubjectKeyIdentifier.from_public_key(key.public_key()), critical=False)
                   .add_extension(x509.AuthorityKeyIdentifier.from_issuer_public_key(issuer_key.public_key()), critical=False))
        if san is not None:
            builder = builder.add_extension(x509.SubjectAlternativeName(san), critical=False)
        return builder.sign(issuer_key, hashes.SHA256())

    variants = {}
    for vname, san in (('nosan', None), ('dnsonly', [x509.DNSName('src-node.example')])):
        vkey = fresh_key()
        variants[vname] = (variant('v-' + vname, vkey, 20 + len(variants), san), vkey)
    rogue_key = fresh_key()
    rogue_name = x509.Name([x509.NameAttribute(x509.oid.NameOID.COMMON_NAME, 'rogue CA')])
    vkey = fresh_key()
    eid_san = [x509.OtherName(x509.oid.ObjectIdentifier(cb.OID_BUNDLE_EID), bytes([0x16, len(SRC_NODE)]) + SRC_NODE.encode('ascii'))]
    variants['untrusted'] = (variant('v-untrusted', vkey, 30, eid_san, issuer_key=rogue_key, issuer_name=rogue_name), vkey)
    # issued by the trusted CA to ANOTHER node whose id merely starts like the security source
    for vname, eid in (('prefixnode', SRC_NODE.rstrip('/') + '2/'), ('prefixpath', SRC_NODE + 'sub')):
        vkey = fresh_key()
        san = [x509.OtherName(x509.oid.ObjectIdentifier(cb.OID_BUNDLE_EID), bytes([0x16, len(eid)]) + eid.encode('ascii'))]
        variants[vname] = (variant('v-' + vname, vkey, 40 + len(variants), san), vkey)
    # a certificate whose validity begins and ends in the middle of a day
    vkey = fresh_key()
    variants['midday'] = (variant('v-midday', vkey, 60, eid_san, start=datetime.datetime(2021, 3, 10, 12, 0), end=datetime.datetime(2035, 6, 15, 12, 0)), vkey)
    variants['good'] = (ee_cert, ee_key)
    variants['othernode'] = (other_cert, other_key)
    paths = {}
    tag = str(os.getpid())
    for name, obj in (('ca.crt', ca_cert), ('ee.crt', ee_cert)):
        path = os.path.join(WORK_DIR, 'pki-%s-%s' % (tag, name))
        with open(path, 'wb') as out:
            out.write(obj.public_bytes(serialization.Encoding.PEM))
        paths[name] = path
    path = os.path.join(WORK_DIR, 'pki-%s-ee.key' % tag)
    with open(path, 'wb') as out:
        out.write(ee_key.private_bytes(serialization.Encoding.PEM, serialization.PrivateFormat.PKCS8, serialization.NoEncryption()))
    paths['ee.key'] = path
    _PKI.update(ca_cert=ca_cert, ee_cert=ee_cert, ee_key=ee_key, other_cert=other_cert, other_key=other_key, paths=paths, variants=variants,
                ee_der=ee_cert.public_bytes(serialization.Encoding.DER), other_der=other_cert.public_bytes(serialization.Encoding.DER))
    return _PKI


def cleanup_pki():
    for path in (_PKI.get('paths') or {}).values():
        try:
            os.remove(path)
        except OSError:
            pass


def sym_key(kid, key, alg, ops):
    from pycose import algorithms
    from pycose.keys import SymmetricKey, keyops
    algs = {'HMAC256': algorithms.HMAC256, 'HMAC384': algorithms.HMAC384, 'HMAC512': algorithms.HMAC512,
            'A128GCM': algorithms.A128GCM, 'A256GCM': algorithms.A256GCM, 'A256KW': algorithms.A256KW}
    opmap = {'mac': [keyops.MacCreateOp, keyops.MacVerifyOp], 'enc': [keyops.EncryptOp, keyops.DecryptOp],
             'wrap': [keyops.WrapOp, keyops.UnwrapOp]}
    return SymmetricKey(k=key, optional_params={'KID': kid, 'ALG': algs[alg], 'KEY_OPS': opmap[ops]})


def source_node(sim, kind, sec_type='bib', include_chain=True, target_types=(1,), content_iv=None, name='src'):
    ''' A real agent that applies a security block on transmit.
    kind: 'mac0-256' | 'mac0-384' | 'mac0-512' | 'sign1' | 'enc0-256' | 'enc0-128' | 'enc-kw'
    '''
    from vf import bp_harness as bh
    from bp.app import bpsec
    from pycose import algorithms
    kwargs = {}
    if kind == 'sign1':
        paths = pki()['paths']
        kwargs = dict(verify_ca_file=paths['ca.crt'], sign_cert_file=paths['ee.crt'], sign_key_file=paths['ee.key'],
                      integrity_include_chain=include_chain)
    node = bh.BpNode(sim, SRC_NODE, name=name, tx_routes=[dict(pattern=r'.*')], **kwargs)
    ctx = node.bpsec_ctx()
    if kind == 'sign1':
        # load_config registered an association that signs self-sourced payloads with the PEM key
        for assoc in ctx.sec_assoc:
            assoc.tgt_blk_types = list(target_types)
        return node
    ctx.sec_assoc = []
    op = dict(sec_type=sec_type, role='source')
    if kind.startswith('mac0'):
        alg = {'mac0-256': 'HMAC256', 'mac0-384': 'HMAC384', 'mac0-512': 'HMAC512'}[kind]
        ctx.sym_key_store[b'mk'] = sym_key(b'mk', MAC_KEY, alg, 'mac')
        op['priv_key_id'] = b'mk'
    elif kind == 'enc0-256':
        ctx.sym_key_store[b'ek'] = sym_key(b'ek', ENC_KEY, 'A256GCM', 'enc')
        op['priv_key_id'] = b'ek'
        op['content_iv'] = list(content_iv or [])
    elif kind == 'enc0-128':
        ctx.sym_key_store[b'ek'] = sym_key(b'ek', ENC_KEY128, 'A128GCM', 'enc')
        op['priv_key_id'] = b'ek'
        op['content_iv'] = list(content_iv or [])
    elif kind == 'enc-kw':
        ctx.sym_key_store[b'kk'] = sym_key(b'kk', KEK, 'A256KW', 'wrap')
        op['priv_key_id'] = b'kk'
        op['content_alg'] = algorithms.A256GCM
        op['content_iv'] = list(content_iv or [])
    else:
        raise ValueError(kind)
    ctx.sec_assoc.append(bpsec.SecAssociation(src_pat=re.compile('.*'), dst_pat=re.compile('.*'), tgt_blk_types=list(target_types),
                                              templates=[bpsec.SecOperation(**op)]))
    return node


def receiver_node(sim, keys='all', accept=False, name='dst'):
    ''' A real agent that verifies on receive.  keys: 'all' | 'none' | 'wrong' '''
    from vf import bp_harness as bh
    paths = pki()['paths']
    node = bh.BpNode(sim, DST_NODE, name=name, rx_routes=[(r'dtn://dst-node/.*', 'deliver')], tx_routes=[dict(pattern=r'.*')],
                     verify_ca_file=paths['ca.crt'] if keys != 'none' else None, accept_after_verify=accept)
    ctx = node.bpsec_ctx()
    if keys == 'all':
        ctx.sym_key_store[b'mk'] = sym_key(b'mk', MAC_KEY, 'HMAC256', 'mac')
        ctx.sym_key_store[b'ek'] = sym_key(b'ek', ENC_KEY, 'A256GCM', 'enc')
        ctx.sym_key_store[b'ek128'] = sym_key(b'ek128', ENC_KEY128, 'A128GCM', 'enc')
        ctx.sym_key_store[b'kk'] = sym_key(b'kk', KEK, 'A256KW', 'wrap')
    elif keys == 'wrong':
        ctx.sym_key_store[b'mk'] = sym_key(b'mk', MAC_KEY_WRONG, 'HMAC256', 'mac')
        ctx.sym_key_store[b'ek'] = sym_key(b'ek', MAC_KEY_WRONG, 'A256GCM', 'enc')
        ctx.sym_key_store[b'kk'] = sym_key(b'kk', MAC_KEY_WRONG, 'A256KW', 'wrap')
    return node


def oracle_keys(keys='all'):
    if keys == 'all':
        return cb.KeyStore(sym={b'mk': MAC_KEY, b'ek': ENC_KEY, b'ek128': ENC_KEY128, b'kk': KEK}, ca_certs=[pki()['ca_cert']])
    if keys == 'wrong':
        return cb.KeyStore(sym={b'mk': MAC_KEY_WRONG, b'ek': MAC_KEY_WRONG, b'kk': MAC_KEY_WRONG}, ca_certs=[pki()['ca_cert']])
    return cb.KeyStore()


def watch_verify(node):
    ''' Record the return values of the COSE context's verify_bib / verify_bcb on this node. '''
    ctx = node.bpsec_ctx()
    log = []
    for name in ('verify_bib', 'verify_bcb'):
        orig = getattr(ctx, name)

        def wrapper(ctr, blk, orig=orig, name=name):
            try:
                res = orig(ctr, blk)
            except Exception as err:  # pylint: disable=broad-except
                log.append((name, blk.block_num, 'raised', type(err).__name__))
                raise
            log.append((name, blk.block_num, 'ok' if res is None else 'fail', res))
            return res
        setattr(ctx, name, wrapper)
    return log


def sign1_variant_bundle(vname, rng, seq=1, plen=20, crc=0, ctime=None):
    ''' A bundle whose COSE_Sign1 integrity block is built by the oracle and signed under certificate variant ``vname``. '''
    from cryptography.hazmat.primitives import serialization
    from vf.oracles import bpv7
    (cert, key) = pki()['variants'][vname]
    pri = dict(version=7, flags=0, crc_type=crc, dest='dtn://dst-node/app', src='dtn://src-node/app', report_to='dtn:none',
               create_time=ctime if ctime is not None else 820540000000 + seq, seqno=seq, lifetime=10 ** 12, frag_offset=None, total_adu_len=None, crc=None)
    pay = dict(type=1, num=1, flags=0, crc_type=crc, data=bytes(((pos * 29) ^ seq ^ 0x17) & 0xFF for pos in range(plen)), crc=None)
    sec = dict(type=11, num=3, flags=0, crc_type=crc, data=b'', crc=None)
    bundle = dict(primary=pri, blocks=[sec, pay])
    scope = {0: 1, -1: 1}
    ext_aad = cb.external_aad(bundle, sec, pay, scope, b'', bpv7.eid_to_item(SRC_NODE))
    result = cb.make_sign1_result(-7, key, [cert.public_bytes(serialization.Encoding.DER)], ext_aad, pay['data'])
    sec['data'] = cb.encode_asb(dict(targets=[1], context_id=3, flags=1, source=SRC_NODE, params=[(5, scope)], results=[[result]]))
    return bpv7.encode(bundle)


CERT_VARIANTS = ('good', 'othernode', 'nosan', 'dnsonly', 'untrusted', 'prefixnode', 'prefixpath')
