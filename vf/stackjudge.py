''' Judges for the whole-stack scenarios of vf.stackcases.

Every judge is per node and conditional on what that node demonstrably received (the bundles its adaptor popped from its
convergence layer, in bus-history order) and handed on (the arguments of its adaptor's send_bundle_data bus calls): a
property of the BP agent is never blamed for a bundle that did not reach it, and nothing is demanded of the glue in
bp/cla.py, which no given property covers.
'''
import cbor2

from vf.oracles import bpv7

REQ_BITS = {'received': 0x4000, 'forwarded': 0x10000, 'delivered': 0x20000, 'deleted': 0x40000}
REQ_TIME = 0x40
HOSTS = {'x': ('dtn://x/', '10.0.0.1'), 'y': ('dtn://y/', '10.0.0.2'), 'z': ('dtn://z/', '10.0.0.3')}
STATUS_NAMES = ('received', 'forwarded', 'delivered', 'deleted')


def payload(host, seqno, plen):
    tag = ord(host)
    return bytes(((pos * 31) ^ (seqno * 13) ^ tag ^ (pos >> 8)) & 0xFF for pos in range(plen))


def _dec(data):
    try:
        dec, _probs = bpv7.decode(data)
        return dec
    except bpv7.DecodeError:
        return None


def _base(dec):
    pri = dec['primary']
    return (pri['src'], pri['create_time'], pri['seqno'])


def _extent(dec):
    pay = bpv7.payload_of(dec)
    size = len(pay['data']) if pay is not None else 0
    if dec['primary']['flags'] & 1:
        return (dec['primary']['frag_offset'], dec['primary']['frag_offset'] + size, dec['primary']['total_adu_len'])
    return (0, size, size)


def _route_action(host, dest):
    if dest.startswith(HOSTS[host][0]):
        return 'deliver'
    if host == 'y' and dest.startswith('dtn://'):
        return 'forward'
    return None


def _route_mtu(case, host, dest):
    if host == 'x':
        return case['bp_mtu1']
    if host == 'z':
        return case['bp_mtu2']
    return case['bp_mtu2'] if dest.startswith('dtn://z/') else case['bp_mtu1']


def _views(rec):
    views = {}
    for host in rec['observed']:
        popped = []
        for item in rec['popped'][host]:
            dec = _dec(item[1])
            if dec is not None:
                popped.append(dict(no=item[0], dec=dec, data=item[1], path=item[2]))
        handed = []
        for item in rec['handed'][host]:
            handed.append(dict(no=item[0], dec=_dec(item[1]), data=item[1], path=item[2]))
        views[host] = dict(popped=popped, handed=handed)
    return views


def _own_reports(view, host):
    out = []
    for item in view['handed']:
        dec = item['dec']
        if dec is None or not dec['primary']['flags'] & 0x2 or dec['primary']['src'] != HOSTS[host][0]:
            continue
        if dec['primary']['flags'] & 1:
            continue  # a fragment of a report cannot be decoded by itself
        try:
            adm = bpv7.decode_admin_record(bpv7.payload_of(dec)['data'])
        except (bpv7.DecodeError, TypeError) as err:
            adm = dict(record_type=None, error=str(err))
        out.append((item, adm))
    return out


def _delivered(rec, host, base):
    return [o for o in rec['observed'][host] if tuple(o['ident'][:3]) == tuple(base) and 'deliver' in o['actions'] and not o['is_fragment']]


def judge(rec, prop):
    ''' :return: (problems [(kind, text)], obs counters) for one property. '''
    problems = []
    obs = {}
    case = rec['case']
    where = 'links %s/%s, BP MTUs %r/%r, UDPCL MTU %r, policy %s, seed %d' % (
        case['link1'], case['link2'], case['bp_mtu1'], case['bp_mtu2'], case['udp_mtu'], case['policy'], case['seed'])

    def count(name, num=1):
        obs[name] = obs.get(name, 0) + num

    if rec['end'] != 'quiescent':
        count('stack_runs_out_of_budget')
        return problems, obs
    count('stack_runs')
    views = _views(rec)
    originals = {item['ident']: item for item in rec['sent']}

    if prop == 'C18':
        for (kind, text) in rec['world_problems']:
            if kind == 'signature':
                problems.append((kind, text))
        for host in rec['observed']:
            ann = {}
            for (_no, path, tid) in rec['announced'][host]:
                ann.setdefault(path, []).append(tid)
            pops = {}
            for item in rec['popped'][host]:
                pops.setdefault(item[2], []).append(item[3])
            count('stack_rx_announced', len(rec['announced'][host]))
            count('stack_rx_popped', len(rec['popped'][host]))
            for path, left in rec['left_in_rx_queues'][host].items():
                count('stack_rx_queues_compared')
                want = list(ann.get(path, []))
                for tid in pops.get(path, []):
                    if tid in want:
                        want.remove(tid)
                    else:
                        problems.append(('pop-unannounced', 'host %s %s: transfer %r was popped without (or more often than) being announced' % (host, path, tid)))
                if sorted(want) != sorted(left):
                    problems.append(('queue-mismatch', 'host %s %s at quiescence: receive queue holds %r, announced and not popped are %r (%s)' % (
                        host, path, sorted(left), sorted(want), where)))
        all_handed = set()
        for host, items in rec['bus_handed'].items():
            all_handed |= {data for (_no, data, _path) in items}
        for host, items in rec['popped'].items():
            for item in items:
                count('stack_pops_compared')
                if item[1] not in all_handed:
                    problems.append(('popped-unknown', 'host %s popped %d octets from %s that no BP agent had handed to a convergence layer '
                                     '(first octets %s; %s)' % (host, len(item[1]), item[2], item[1][:24].hex(), where)))
                    break
        return problems, obs

    if prop == 'C13':
        mtu = case['udp_mtu']
        for host, dgrams in rec['udp_sent'].items():
            for (_no, data, _to) in dgrams:
                count('stack_datagrams')
                if mtu is not None and len(data) > mtu:
                    problems.append(('datagram-over-mtu', 'host %s sent a UDPCL datagram of %d octets with MTU %d' % (host, len(data), mtu)))
                    break
        handed = set()
        for host, items in rec['bus_handed'].items():
            handed |= {data for (_no, data, path) in items if 'udpcl' in path}
        got = set()
        for host, items in rec['popped'].items():
            for item in items:
                if 'udpcl' not in item[2]:
                    continue
                count('stack_udpcl_pops')
                got.add(item[1])
                if item[1] not in handed:
                    problems.append(('not-intact', 'host %s: the bundle popped from UDPCL (%d octets) is none of those handed to a UDPCL agent (%s)' % (
                        host, len(item[1]), where)))
                    break
        for data in handed:
            count('stack_udpcl_handed')
            if data not in got:
                problems.append(('lost', 'a bundle of %d octets handed to a UDPCL agent never came out of the peer\'s UDPCL agent although every '
                                 'datagram was delivered (%s)' % (len(data), where)))
                break
        return problems, obs

    if prop == 'C10':
        for host, view in views.items():
            first = {}
            for item in view['popped']:
                ident = bpv7.ident(item['dec'])
                if ident in first:
                    count('stack_repeats_received')
                first.setdefault(ident, item)
            for ident, item in first.items():
                dec = item['dec']
                if dec['primary']['src'].startswith(HOSTS[host][0]):
                    continue
                action = _route_action(host, dec['primary']['dest'])
                is_frag = bool(dec['primary']['flags'] & 1)
                count('stack_identities_checked')
                delivered = _delivered(rec, host, ident[:3])
                out = [h for h in view['handed'] if h['dec'] is not None and _base(h['dec']) == ident[:3]
                       and not h['dec']['primary']['src'].startswith(HOSTS[host][0])]
                if action == 'deliver':
                    if out:
                        problems.append(('delivered-and-forwarded', 'host %s handed bundle %r, addressed to itself, to a convergence layer' % (host, ident)))
                    if not is_frag and len(delivered) != 1:
                        problems.append(('delivery-count', 'host %s received bundle %r (first matching route: deliver) and delivered it %d times (%s)' % (
                            host, ident, len(delivered), where)))
                    if len(delivered) > 1:
                        problems.append(('delivered-twice', 'host %s delivered bundle %r %d times (%s)' % (host, ident[:3], len(delivered), where)))
                elif action == 'forward':
                    if delivered:
                        problems.append(('forward-delivered', 'host %s delivered bundle %r, which its first matching route forwards' % (host, ident)))
                    if is_frag:
                        same = [h for h in out if bpv7.ident(h['dec']) == ident]
                        if len(same) != 1:
                            problems.append(('forward-count', 'host %s received fragment %r and handed it to a convergence layer %d times (%s)' % (
                                host, ident, len(same), where)))
                    else:
                        own = [h for h in out if not ((h['dec']['primary']['flags'] & 1) and any(
                            bpv7.ident(p['dec']) == bpv7.ident(h['dec']) for p in view['popped']))]
                        total = sum(_extent(h['dec'])[1] - _extent(h['dec'])[0] for h in own)
                        want = _extent(dec)[1]
                        wholes = [h for h in own if not h['dec']['primary']['flags'] & 1]
                        if len(wholes) > 1 or (wholes and len(own) > 1) or (not wholes and total != want) or not own:
                            must_not = bool(dec['primary']['flags'] & 0x4)
                            mtu = _route_mtu(case, host, dec['primary']['dest'])
                            if not own and mtu is not None and len(item['data']) + 40 > mtu and (must_not or mtu < 150):
                                count('stack_forward_impossible')
                            else:
                                problems.append(('forward-count', 'host %s received bundle %r (%d payload octets) and handed %d bundle(s) with %d payload '
                                                 'octets in all to a convergence layer (%s)' % (host, ident, want, len(own), total, where)))
                else:
                    if delivered or out:
                        problems.append(('no-route-acted', 'host %s has no route for %s and delivered %d / forwarded %d' % (
                            host, dec['primary']['dest'], len(delivered), len(out))))
        return problems, obs

    if prop == 'C06':
        for host, view in views.items():
            groups = {}
            for item in view['popped']:
                dec = item['dec']
                if dec['primary']['flags'] & 1 and _route_action(host, dec['primary']['dest']) == 'deliver':
                    groups.setdefault(_base(dec), []).append(item)
            for base, items in groups.items():
                orig = originals.get(base)
                if orig is None:
                    continue
                want = payload(orig['spec']['src'], orig['spec']['seqno'], orig['spec']['plen'])
                covered = set()
                bad_total = False
                for item in items:
                    (lo, hi, tot) = _extent(item['dec'])
                    covered.update(range(lo, hi))
                    bad_total = bad_total or tot != len(want)
                if bad_total:
                    continue
                whole_too = any(not p['dec']['primary']['flags'] & 1 and _base(p['dec']) == base for p in view['popped'])
                delivered = _delivered(rec, host, base)
                count('stack_fragment_sets_checked')
                if len(covered) == len(want):
                    count('stack_reassemblies_checked')
                    if len(delivered) != 1:
                        problems.append(('reassembly-count', 'host %s received %d fragment(s) of %r covering all %d payload octets and delivered %d '
                                         'reassembled bundle(s) (%s)' % (host, len(items), base, len(want), len(delivered), where)))
                    elif delivered[0]['payload'] != want:
                        problems.append(('reassembly-payload', 'host %s reassembled %r into a payload that differs from the original (%s)' % (host, base, where)))
                elif delivered and not whole_too:
                    problems.append(('early-delivery', 'host %s delivered %r with only %d of %d payload octets received (%s)' % (
                        host, base, len(covered), len(want), where)))
        return problems, obs

    if prop == 'C05':
        for host, view in views.items():
            came_as_fragment = {bpv7.ident(item['dec']) for item in view['popped'] if item['dec']['primary']['flags'] & 1}
            groups = {}
            for item in view['handed']:
                dec = item['dec']
                if dec is None:
                    problems.append(('undecodable', 'host %s handed an undecodable bundle (%d octets) to %s (%s)' % (host, len(item['data']), item['path'], where)))
                    continue
                mtu = _route_mtu(case, host, dec['primary']['dest'])
                if mtu is None:
                    continue
                count('stack_cl_handovers_with_mtu')
                if (dec['primary']['flags'] & 1) and bpv7.ident(dec) in came_as_fragment:
                    count('stack_received_fragments_passed_on')
                    continue
                if dec['primary']['flags'] & 1:
                    groups.setdefault((_base(dec), mtu), []).append(item)
                if len(item['data']) > mtu and not dec['primary']['flags'] & 0x4:
                    problems.append(('over-mtu', 'host %s handed %d octets to %s on a route with MTU %d (is a fragment: %s; %s)' % (
                        host, len(item['data']), item['path'], mtu, bool(dec['primary']['flags'] & 1), where)))
            for (base, mtu), items in groups.items():
                count('stack_fragmentations_checked')
                spans = sorted(_extent(item['dec']) for item in items)
                totals = {span[2] for span in spans}
                pos = 0
                good = len(totals) == 1
                for (lo, hi, _tot) in spans:
                    good = good and lo == pos
                    pos = hi
                good = good and pos == next(iter(totals))
                orig = originals.get(base)
                if orig is not None and good:
                    want = payload(orig['spec']['src'], orig['spec']['seqno'], orig['spec']['plen'])
                    whole = b''.join(bpv7.payload_of(item['dec'])['data'] for item in sorted(items, key=lambda it: _extent(it['dec'])))
                    good = whole == want
                if not good:
                    problems.append(('tiling', 'host %s fragmented %r for a route with MTU %d into payload ranges %r, which do not tile the payload%s (%s)' % (
                        host, base, mtu, [(lo, hi) for (lo, hi, _t) in spans][:12], ' of %d octets' % orig['spec']['plen'] if orig else '', where)))
        return problems, obs

    if prop == 'C11':
        view = views['y']
        first = {}
        for item in view['popped']:
            first.setdefault(bpv7.ident(item['dec']), item)
        for ident, item in first.items():
            dec = item['dec']
            if _route_action('y', dec['primary']['dest']) != 'forward':
                continue
            outs = [h for h in view['handed'] if h['dec'] is not None and _base(h['dec']) == ident[:3] and h['no'] > item['no']
                    and (not dec['primary']['flags'] & 1 or bpv7.ident(h['dec']) == ident)]
            if not dec['primary']['flags'] & 1:
                # fragments of the same bundle that merely pass through are not this forward's output
                outs = [h for h in outs if not ((h['dec']['primary']['flags'] & 1) and any(
                    bpv7.ident(p['dec']) == bpv7.ident(h['dec']) for p in view['popped']))]
            if not outs:
                continue
            count('stack_forwards_checked')
            for out in outs:
                odec = out['dec']
                refragmented = bool(odec['primary']['flags'] & 1) and not dec['primary']['flags'] & 1
                for key in ('version', 'dest', 'src', 'report_to', 'create_time', 'seqno', 'lifetime'):
                    if odec['primary'][key] != dec['primary'][key]:
                        problems.append(('primary-changed', 'y forwarded %r with %s = %r, received %r (%s)' % (ident, key, odec['primary'][key], dec['primary'][key], where)))
                if (odec['primary']['flags'] & ~1) != (dec['primary']['flags'] & ~1) or (not refragmented and odec['primary']['flags'] != dec['primary']['flags']):
                    problems.append(('primary-changed', 'y forwarded %r with flags %#x, received %#x (%s)' % (ident, odec['primary']['flags'], dec['primary']['flags'], where)))
                if bpv7.crc_failures(out['data']):
                    problems.append(('crc', 'y forwarded %r with an invalid block CRC: %r' % (ident, bpv7.crc_failures(out['data'])[:2])))
                nums = [blk['num'] for blk in odec['blocks']]
                if len(set(nums)) != len(nums) or odec['blocks'][-1]['type'] != 1 or odec['blocks'][-1]['num'] != 1:
                    problems.append(('block-numbers', 'y forwarded %r with block numbers %r (payload must be numbered 1 and last)' % (ident, nums)))
                first_piece = _extent(odec)[0] == _extent(dec)[0]
                prev = [blk for blk in odec['blocks'] if blk['type'] == 6]
                if first_piece or not refragmented:
                    if len(prev) != 1:
                        problems.append(('previous-node', 'y forwarded %r with %d Previous Node blocks (%s)' % (ident, len(prev), where)))
                    else:
                        try:
                            eid = bpv7.eid_from_item(cbor2.loads(prev[0]['data']))
                        except Exception as err:  # pylint: disable=broad-except
                            eid = 'undecodable (%s)' % err
                        count('stack_prev_node_checked')
                        if eid != HOSTS['y'][0]:
                            problems.append(('previous-node', 'y forwarded %r with Previous Node %r (%s)' % (ident, eid, where)))
                    hops_in = [cbor2.loads(blk['data']) for blk in dec['blocks'] if blk['type'] == 10]
                    hops_out = [cbor2.loads(blk['data']) for blk in odec['blocks'] if blk['type'] == 10]
                    if hops_in:
                        count('stack_hop_counts_checked')
                    if sorted([h[0], h[1] + 1] for h in hops_in) != sorted(list(h) for h in hops_out):
                        problems.append(('hop-count', 'y received %r with hop count(s) %r and forwarded it with %r (%s)' % (ident, hops_in, hops_out, where)))
                if not refragmented and bpv7.payload_of(odec)['data'] != bpv7.payload_of(dec)['data']:
                    problems.append(('payload', 'y forwarded %r with another payload (%s)' % (ident, where)))
        return problems, obs

    if prop == 'C19':
        for host, view in views.items():
            by_subject = {}
            for (item, adm) in _own_reports(view, host):
                count('stack_reports_emitted')
                dec = item['dec']
                if adm.get('record_type') != 1:
                    problems.append(('malformed', 'host %s emitted an administrative record that does not decode as a status report: %r' % (host, adm.get('error'))))
                    continue
                if dec['primary']['flags'] & (0x4000 | 0x10000 | 0x20000 | 0x40000):
                    problems.append(('report-requests-reports', 'a status report of host %s requests reports itself (flags %#x)' % (host, dec['primary']['flags'])))
                if bpv7.crc_failures(item['data']):
                    problems.append(('crc', 'a status report of host %s has an invalid CRC' % host))
                by_subject.setdefault((adm['subj_src'], adm['subj_time'], adm['subj_seqno']), []).append((item, adm))
            first = {}
            for item in view['popped']:
                first.setdefault(bpv7.ident(item['dec']), item)
            subjects = {}
            for ident, item in first.items():
                subjects.setdefault(ident[:3], []).append(item)
            for base in by_subject:
                if base not in subjects:
                    problems.append(('unknown-subject', 'host %s reported on bundle %r, which it never received (%s)' % (host, base, where)))
            for base, items in subjects.items():
                dec0 = items[0]['dec']
                if dec0['primary']['src'].startswith(HOSTS[host][0]) or dec0['primary']['flags'] & 0x2:
                    continue
                reps = by_subject.get(base, [])
                flags_all = [i['dec']['primary']['flags'] & ~1 for i in items]
                if len(set(flags_all)) != 1:
                    continue
                requested = {name for name, bit in REQ_BITS.items() if dec0['primary']['flags'] & bit}
                want_time = bool(dec0['primary']['flags'] & REQ_TIME)
                action = _route_action(host, dec0['primary']['dest'])
                delivered = _delivered(rec, host, base)
                forwarded = [h for h in view['handed'] if h['dec'] is not None and _base(h['dec']) == base and not h['dec']['primary']['src'].startswith(HOSTS[host][0])]
                occurred = {'received'}
                if delivered:
                    occurred.add('delivered')
                if forwarded and action == 'forward':
                    occurred.add('forwarded')
                count('stack_report_subjects_checked')
                if dec0['primary']['report_to'] == 'dtn:none':
                    if reps:
                        problems.append(('report-without-report-to', 'host %s emitted %d report(s) about %r, whose report-to is dtn:none' % (host, len(reps), base)))
                    continue
                asserted_all = set()
                for (item, adm) in reps:
                    asserted = {name for name, (flag, _when) in zip(STATUS_NAMES, adm['status']) if flag}
                    asserted_all |= asserted
                    if item['dec']['primary']['dest'] != dec0['primary']['report_to']:
                        problems.append(('report-misaddressed', 'host %s addressed a report about %r to %s, report-to is %s' % (
                            host, base, item['dec']['primary']['dest'], dec0['primary']['report_to'])))
                    if not asserted:
                        problems.append(('empty-report', 'host %s emitted a report about %r that asserts nothing (%s)' % (host, base, where)))
                    if not asserted <= requested:
                        problems.append(('unrequested', 'host %s: a report about %r asserts %s, requested were %s (%s)' % (host, base, sorted(asserted), sorted(requested), where)))
                    if 'deleted' in asserted and ('forwarded' in occurred or 'delivered' in occurred):
                        problems.append(('deleted', 'host %s reported %r deleted (reason %r) although it %s it (%s)' % (
                            host, base, adm['reason'], 'forwarded' if 'forwarded' in occurred else 'delivered', where)))
                    if not (asserted - {'deleted'}) <= occurred:
                        problems.append(('not-occurred', 'host %s: a report about %r asserts %s, what occurred there is %s (%s)' % (
                            host, base, sorted(asserted), sorted(occurred), where)))
                    times = [when is not None for (flag, when) in adm['status'] if flag]
                    if times and (any(times) != all(times) or all(times) != want_time):
                        problems.append(('status-time', 'host %s: a report about %r carries status times %r, time requested: %s' % (host, base, times, want_time)))
                for name in sorted(requested & occurred):
                    count('stack_report_obligations')
                    if name not in asserted_all:
                        problems.append(('report-missing', 'host %s %s bundle %r, which requested a report of that, and emitted no such report (%s)' % (
                            host, name, base, where)))
        return problems, obs

    raise ValueError(prop)
