#!/usr/bin/env python3
''' Run every seeded change against its property's check (scratch worktree, VERIF_REPO/VERIF_OUT), record the result in meta.json.
usage: tools/seed_matrix.py [quick|thorough] [ids...]
'''
import glob
import json
import os
import re
import subprocess
import sys
import tempfile

HERE = os.path.dirname(os.path.dirname(os.path.abspath(__file__)))
tier = sys.argv[1] if len(sys.argv) > 1 else 'quick'
only = set(sys.argv[2:])
EXTRA = {'C04-1': ['C14'], 'C09-3': ['C18'], 'C16-1': ['C12'], 'C14-1': ['C04'], 'C09-14': ['C14'], 'C17-12': ['C15'], 'C18-13': ['C09'],
         'C01-16': ['C09'], 'C02-16': ['C06'], 'C07-16': ['C09'], 'C16-16': ['C12'], 'C18-16': ['C17'], 'C11-18': ['C05'],
         'C01-22': ['C14'], 'C16-21': ['C12'], 'C02-21': ['C06']}
for path in sorted(glob.glob(os.path.join(HERE, 'seeded', '*', 'meta.json'))):
    meta = json.load(open(path))
    sid = meta['id']
    if only and sid not in only:
        continue
    title = ''
    for line in open(os.path.join(os.path.dirname(path), 'README.md')):
        if line.startswith('#'):
            title = re.sub(r'^#+\s*', '', line.strip())
            title = re.sub(r'^(C\d+ )?[Cc]hange \d+\s*(\(BONUS[^)]*\))?\s*(--|—|:|-)\s*', '', title)
            break
    meta['summary'] = title
    rec = meta.get('reconfirmed')
    if rec and not rec.get('still_breaks') and rec.get('demo_exit_clean_tree') and not meta.get('harmless_after'):
        # the demonstration itself no longer holds on the clean tree (it expected behaviour that a later fix: commit changed, or its
        # stubs lack something the repaired code uses): it cannot tell whether the change still breaks the property, the check decides
        meta['demo_outdated'] = 'demonstration differs on the clean tree at %s; judged by the check only' % rec.get('head')
        rec = None
    if rec and not rec.get('still_breaks'):
        # a later fix: commit in /repo removed the mechanism this change relied on: it no longer breaks the property on the current base
        meta[tier] = 'n/a'
        if rec.get('demo_exit_clean_tree'):
            meta['caught_by'] = ('no longer property-breaking on base %s (a later fix: commit closed the path it needed; its demonstration expected the '
                                 'pre-fix reaction and now differs on the clean tree too)' % rec.get('head'))
        else:
            meta['caught_by'] = 'no longer property-breaking on base %s (its own demonstration holds with the patch applied)' % rec.get('head')
        json.dump(meta, open(path, 'w'), indent=1)
        print(sid, tier, 'n/a (harmless on current base)', flush=True)
        continue
    scratch = tempfile.mkdtemp(prefix='seedmx-')
    wt = os.path.join(scratch, 'repo')
    subprocess.run(['git', '-C', '/repo', 'worktree', 'add', '-q', '--detach', wt, 'HEAD'], check=True)
    try:
        subprocess.run(['git', '-C', wt, 'apply', os.path.join(os.path.dirname(path), 'patch.diff')], check=True)
        caught = []
        for prop in [meta['property']] + (EXTRA.get(sid, []) if tier == 'quick' else []):
            env = dict(os.environ, VERIF_REPO=wt, VERIF_OUT=os.path.join(scratch, 'out'))
            res = subprocess.run([os.path.join(HERE, 'check'), prop, '--tier', tier], env=env, capture_output=True, text=True, timeout=7200)
            lines = [line for line in res.stdout.splitlines() if line.startswith('  what:')]
            verdict = {0: 'missed', 1: 'caught', 2: 'inconclusive'}.get(res.returncode, 'error %d' % res.returncode)
            if prop == meta['property']:
                meta[tier] = verdict
                meta[tier + '_first_violation'] = lines[0][8:300] if lines else ''
            if verdict == 'caught':
                caught.append(prop)
        prev = [item for item in meta.get('caught_by', '').split(', ') if item]
        meta['caught_by'] = ', '.join(sorted(set(prev + ['%s %s' % (prop, tier) for prop in caught])))
        print(sid, tier, meta[tier], '|', meta.get(tier + '_first_violation', '')[:150], flush=True)
    finally:
        subprocess.run(['git', '-C', '/repo', 'worktree', 'remove', '--force', wt])
        subprocess.run(['rm', '-rf', scratch])
    json.dump(meta, open(path, 'w'), indent=1)
