#!/usr/bin/env python3
''' Re-run every seeded change's own demonstration against the CURRENT /repo HEAD (in the sub-agents' scratch worktrees):
demo exits 0 on the clean tree and non-zero with the patch => the change still breaks the property on this base.
Writes the result into meta.json as "reconfirmed". '''
import glob
import json
import os
import subprocess
import sys

HERE = os.path.dirname(os.path.dirname(os.path.abspath(__file__)))
head = subprocess.check_output(['git', '-C', '/repo', 'rev-parse', '--short', 'HEAD']).decode().strip()
only = set(sys.argv[1:])
for path in sorted(glob.glob(os.path.join(HERE, 'seeded', '*', 'meta.json'))):
    meta = json.load(open(path))
    sid = meta['id']
    if only and sid not in only:
        continue
    prop, num = sid.split('-')
    num = int(num)
    prefix, k = ('out', num) if num <= 3 else (('r2', num - 3) if num <= 6 else (('r3', num - 6) if num <= 9 else (('r4', num - 9) if num <= 12 else (('r5', num - 12) if num <= 15 else ('r6', num - 15)))))
    wt = '/tmp/seed/%s' % prop
    demo = '/tmp/seed/%s-%s/change%d_demo.py' % (prefix, prop, k)
    if not os.path.isdir(wt) or not os.path.exists(demo):
        print(sid, 'skipped (scratch material gone)')
        continue
    run = lambda cmd: subprocess.run(cmd, shell=True, capture_output=True, text=True, timeout=900)
    run('git -C %s checkout -q -- . && git -C %s checkout -q --detach %s' % (wt, wt, head))
    clean = run('cd %s && PYTHONPATH=%s/src /venv/bin/python %s' % (wt, wt, demo)).returncode
    ok = run('git -C %s apply %s' % (wt, os.path.join(os.path.dirname(path), 'patch.diff'))).returncode == 0
    changed = run('cd %s && PYTHONPATH=%s/src /venv/bin/python %s' % (wt, wt, demo)).returncode if ok else None
    run('git -C %s checkout -q -- .' % wt)
    meta['reconfirmed'] = dict(head=head, patch_applies=ok, demo_exit_clean_tree=clean, demo_exit_changed_tree=changed,
                               still_breaks=(ok and clean == 0 and changed not in (0, None)))
    json.dump(meta, open(path, 'w'), indent=1)
    if not meta['reconfirmed']['still_breaks']:
        print(sid, meta['reconfirmed'], flush=True)
print('done at', head)
