#!/usr/bin/env python3
''' Fill the generated tables of DESIGN.md (section 8) from known_findings.json and seeded/*/meta.json. '''
import glob
import json
import os
import re

HERE = os.path.dirname(os.path.dirname(os.path.abspath(__file__)))
kf = json.load(open(os.path.join(HERE, 'known_findings.json')))['findings']


def esc(text):
    return str(text).replace('|', '\\|').replace('\n', ' ')


fixes = ['| property | commit(s) | key | what failed |', '|---|---|---|---|']
known = ['| property | key | what fails |', '|---|---|---|']
for item in kf:
    what = re.sub(r'^fixed: property=\S+ \S+ ', '', item['what'])
    if item['status'] == 'fixed':
        fixes.append('| %s | %s | `%s` | %s |' % (item['property'], item.get('commit'), item['key'].split('/', 1)[1], esc(what)))
    else:
        known.append('| %s | `%s` | %s |' % (item['property'], item['key'].split('/', 1)[1], esc(what)))
seeded = ['| change | property | what it breaks / trigger | quick | thorough | caught by |', '|---|---|---|---|---|---|']
for path in sorted(glob.glob(os.path.join(HERE, 'seeded', '*', 'meta.json'))):
    meta = json.load(open(path))
    seeded.append('| `%s` | %s | %s | %s | %s | %s |' % (os.path.basename(os.path.dirname(path)), meta['property'], esc(meta['summary']),
                                                    meta.get('quick', '?'), meta.get('thorough', '?'), esc(meta.get('caught_by', ''))))
text = open(os.path.join(HERE, 'DESIGN.md')).read()
for name, rows in (('fixes', fixes), ('known', known), ('seeded', seeded)):
    text = re.sub(r'<!-- BEGIN:%s -->.*?<!-- END:%s -->' % (name, name), '<!-- BEGIN:%s -->\n%s\n<!-- END:%s -->' % (name, '\n'.join(rows), name),
                  text, flags=re.S)
open(os.path.join(HERE, 'DESIGN.md'), 'w').write(text)
print('fixes %d known %d seeded %d' % (len(fixes) - 2, len(known) - 2, len(seeded) - 2))
