#!/usr/bin/env python3
''' Confirm a sub-agent's seeded change in its scratch worktree and import it as /verif/seeded/<id>/.
usage: tools/import_seed.py Cnn K [prefix [id-offset]]   (reads /tmp/seed/out-Cnn/changeK.{diff,md} and changeK_demo.py, worktree /tmp/seed/Cnn)
Confirmation done here, by us: the patch applies to the current /repo HEAD, the pinned suite still gives the baseline
result, the demonstration exits 0 on the clean tree and non-zero on the changed tree.
'''
import json
import os
import re
import shutil
import subprocess
import sys

prop, num = sys.argv[1], sys.argv[2]
prefix = sys.argv[3] if len(sys.argv) > 3 else 'out'      # 'out' = first round, 'r2' = second round ...
offset = int(sys.argv[4]) if len(sys.argv) > 4 else 0     # id = Cnn-(num + offset)
out = '/tmp/seed/%s-%s' % (prefix, prop)
wt = '/tmp/seed/%s' % prop
sid = '%s-%d' % (prop, int(num) + offset)
dest = os.path.join(os.path.dirname(os.path.dirname(os.path.abspath(__file__))), 'seeded', sid)
diff = os.path.join(out, 'change%s.diff' % num)
demo = os.path.join(out, 'change%s_demo.py' % num)


def run(cmd, **kw):
    return subprocess.run(cmd, shell=True, capture_output=True, text=True, timeout=900, **kw)


def demo_rc():
    if not os.path.exists(demo):
        return None, ''
    res = run('cd %s && PYTHONPATH=%s/src /venv/bin/python %s' % (wt, wt, demo))
    return res.returncode, (res.stdout + res.stderr)[-600:]


run('git -C %s checkout -- .' % wt)
head = run('git -C %s rev-parse --short HEAD' % wt).stdout.strip()
clean_rc, clean_out = demo_rc()
applied = run('git -C %s apply %s' % (wt, diff))
if applied.returncode:
    print('patch does not apply:', applied.stderr)
    sys.exit(1)
tests = run('cd %s && /venv/bin/python -m pytest -ra -q -p no:cacheprovider --timeout=900 --continue-on-collection-errors 2>&1 | tail -1' % wt).stdout.strip()
comp = run('cd %s && /venv/bin/python -m compileall -q src' % wt).returncode
changed_rc, changed_out = demo_rc()
files = run('git -C %s diff --stat' % wt).stdout.strip().splitlines()
run('git -C %s checkout -- .' % wt)
print(sid, 'tests:', tests, '| demo clean rc', clean_rc, 'changed rc', changed_rc)
ok = '59 passed' in tests and 'failed' not in tests and comp == 0
if os.path.isdir(dest):
    shutil.rmtree(dest)
os.makedirs(dest)
shutil.copy(diff, os.path.join(dest, 'patch.diff'))


def rewrite(text):
    return text.replace(out, '/verif/seeded/' + sid).replace(wt, '/repo')


for name in os.listdir(out):
    src = os.path.join(out, name)
    if name in ('PROMPT.txt', 'property.json') or name == '__pycache__':
        continue
    mine = re.match(r'change(\d+)', name)
    if mine and mine.group(1) != num:
        continue
    if name.startswith('foreign_'):
        continue
    target = {'change%s.md' % num: 'README.md', 'change%s_demo.py' % num: 'demo.py', 'change%s.diff' % num: None}.get(name, name)
    if target is None:
        continue
    if os.path.isdir(src):
        shutil.copytree(src, os.path.join(dest, target), ignore=shutil.ignore_patterns('__pycache__', '*.pyc'))
        for root, _dirs, fnames in os.walk(os.path.join(dest, target)):
            for fname in fnames:
                path = os.path.join(root, fname)
                try:
                    text = open(path).read()
                except UnicodeDecodeError:
                    continue
                open(path, 'w').write(rewrite(text))
    else:
        try:
            open(os.path.join(dest, target), 'w').write(rewrite(open(src).read()))
        except UnicodeDecodeError:
            shutil.copy(src, os.path.join(dest, target))
meta = dict(id=sid, property=prop, base_commit=head, files=[line.strip() for line in files[:-1]],
            origin='fresh sub-agent given only the property text and a scratch worktree of /repo (nothing from /verif)',
            confirmed=dict(compiles=(comp == 0), suite=tests, suite_matches_baseline=ok,
                           demo_exit_clean_tree=clean_rc, demo_exit_changed_tree=changed_rc,
                           demo_tail_changed_tree=changed_out[-300:]),
            apply='git -C /repo apply /verif/seeded/%s/patch.diff' % sid, undo='git -C /repo checkout -- .',
            demo='cd /repo && PYTHONPATH=/repo/src /venv/bin/python /verif/seeded/%s/demo.py  (exit 1 = property violated)' % sid,
            summary='', quick='?', thorough='?', caught_by='')
json.dump(meta, open(os.path.join(dest, 'meta.json'), 'w'), indent=1)
sys.exit(0 if ok and clean_rc == 0 and changed_rc not in (0, None) else 2)
