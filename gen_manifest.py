#!/usr/bin/env python3
''' Regenerate MANIFEST.json from the table below (keeps it schema-valid). '''
import json
import os

HERE = os.path.dirname(os.path.abspath(__file__))

# property id -> (technique, level text, level note, design section)
CLAIMED = {}
try:
    from manifest_table import CLAIMED, NOT_APPLICABLE  # noqa: F401,F811
except ImportError:
    NOT_APPLICABLE = {}

props = [json.loads(line) for line in open(os.path.join(HERE, 'properties.jsonl'))]
checks = []
for prop in props:
    pid = prop['id']
    if pid not in CLAIMED:
        continue
    info = CLAIMED[pid]
    checks.append(dict(
        property_id=pid,
        quick_cmd='./check %s --tier quick' % pid,
        thorough_cmd='./check %s --tier thorough' % pid,
        evidence_file='/verif/evidence/%s.json' % pid,
        replay_cmd_template='./check %s --replay {path}' % pid,
        engine='vf-runtime-monitor',
        level_claimed=dict(category='exploration', text=info['text'], design_ref=info.get('design_ref', 'DESIGN.md section 4, ' + pid)),
        level_note=info['note'],
        technique=info['technique'],
    ))
not_applicable = []
for prop in props:
    pid = prop['id']
    if pid in CLAIMED:
        continue
    not_applicable.append(dict(property_id=pid, reason=NOT_APPLICABLE.get(pid, 'check not built yet in this session (runtime-monitoring design exists in DESIGN.md section 4; not claimed until its monitor has been validated on the unchanged tree)')))

manifest = dict(
    version=1,
    setup_cmd='cd /verif && ./setup',
    hooks=dict(
        guard='DTN_DEMO_AGENT_VERIF',
        enable='no source hooks: all instrumentation is applied from /verif (sys.path shims, module attribute substitution, wrappers, sys.monitoring); the guard name is reserved',
        baseline_off_cmd='cd /repo && /venv/bin/python -m pytest -ra -q -p no:cacheprovider --timeout=900 --continue-on-collection-errors',
        source_commits=[],
        add_only=True,
    ),
    engines=[dict(
        name='vf-runtime-monitor',
        path='/verif/vf',
        serves_properties=sorted(CLAIMED),
        kind_free_text='runtime monitoring of the real repository code in a simulated GLib/D-Bus/socket world: boundary histories, wire-trace automata, invariants at callback boundaries, independent reference oracles',
    )],
    checks=checks,
    not_applicable=not_applicable,
    notes='Exit codes: 0 held on everything explored, 1 VIOLATION (replay written), 2 INCONCLUSIVE (monitor not reached / watchdog). Known genuine defects are listed in known_findings.json and printed as KNOWN-FINDING lines.',
)
with open(os.path.join(HERE, 'MANIFEST.json'), 'w') as outfile:
    json.dump(manifest, outfile, indent=1)
print('checks', len(checks), 'not_applicable', len(not_applicable))
