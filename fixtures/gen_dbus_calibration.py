''' Run under /usr/bin/python3 (real dbus-python) to regenerate
dbus_marshal_calibration.json from dbus_rows.py.
Each row runs in a forked child because libdbus aborts the process on some
invalid values (object paths, signatures).
'''
import ipaddress  # noqa: F401
import json
import os
import sys
import dbus
import dbus.lowlevel

sys.path.insert(0, os.path.dirname(os.path.abspath(__file__)))
from dbus_rows import ROWS  # noqa: E402


def one(sig, expr):
    args = eval(expr)  # pylint: disable=eval-used
    msg = dbus.lowlevel.SignalMessage('/a', 'a.b', 'c')
    row = dict(sig=sig, expr=expr)
    try:
        msg.append(*args, signature=sig)
        row['ok'] = True
        row['exc'] = None
        try:
            back = msg.get_args_list(byte_arrays=True)
            row['out_sig'] = str(msg.get_signature())
            row['out_types'] = [type(item).__name__ for item in back]
        except Exception as err:  # pylint: disable=broad-except
            row['out_sig'] = 'ERR:' + type(err).__name__
    except Exception as err:  # pylint: disable=broad-except
        row['ok'] = False
        row['exc'] = type(err).__name__
        row['msg'] = str(err)[:120]
    return row


out = []
for sig, expr in ROWS:
    rfd, wfd = os.pipe()
    pid = os.fork()
    if pid == 0:
        os.close(rfd)
        devnull = os.open(os.devnull, os.O_WRONLY)
        os.dup2(devnull, 2)
        data = json.dumps(one(sig, expr)).encode('utf8')
        os.write(wfd, data)
        os._exit(0)
    os.close(wfd)
    chunks = []
    while True:
        chunk = os.read(rfd, 65536)
        if not chunk:
            break
        chunks.append(chunk)
    os.close(rfd)
    _, status = os.waitpid(pid, 0)
    if status != 0 or not chunks:
        out.append(dict(sig=sig, expr=expr, ok=False, exc='ABORT'))
    else:
        out.append(json.loads(b''.join(chunks).decode('utf8')))

path = sys.argv[1] if len(sys.argv) > 1 else os.path.join(os.path.dirname(os.path.abspath(__file__)), 'dbus_marshal_calibration.json')
with open(path, 'w') as outfile:
    json.dump(dict(dbus_version=list(dbus.version), rows=out), outfile, indent=0)
print('rows', len(out), 'accepted', sum(1 for row in out if row['ok']))
