''' Rows (signature, python expression yielding the argument tuple) used to
calibrate vf/oracles/dbus_sig.py against real dbus-python 1.3.2.
Expressions may use ``dbus`` and ``ipaddress``.
'''

_BASIC_VALUES = [
    '0', '1', '-1', '5', '255', '256', '-129', '32767', '32768', '-32768', '-32769',
    '65535', '65536', '2**31-1', '2**31', '-2**31', '-2**31-1', '2**32-1', '2**32',
    '2**63-1', '2**63', '-2**63', '-2**63-1', '2**64-1', '2**64',
    '5.7', '-0.5', '1e30', 'True', 'False', 'None',
    '"5"', '"abc"', '""', 'b"5"', 'b"a"', 'b"ab"', 'b""', 'b"\\xff"', 'bytearray(b"x")',
    '[1]', '[]', '(1,)', '{}', '{"a": 1}',
    'dbus.String("x")', 'dbus.String()', 'dbus.Byte(7)', 'dbus.Int32(7)', 'dbus.UInt64(7)',
    'dbus.Boolean(True)', 'dbus.Double(1.5)', 'dbus.ByteArray(b"ab")', 'dbus.ObjectPath("/a/b")',
    'ipaddress.ip_address("1.2.3.4")', 'object()',
]

ROWS = []
for code in 'ybnqiuxtdsg':
    for val in _BASIC_VALUES:
        ROWS.append((code, '(%s,)' % val))

# object paths: only valid paths or non-strings (an invalid path string aborts libdbus)
for val in ['"/"', '"/a/b"', 'dbus.ObjectPath("/org/x")', '5', 'None', 'b"/a"', '[1]', 'dbus.String("/a")']:
    ROWS.append(('o', '(%s,)' % val))

_CONTAINER = [
    ('ay', ['b"abc"', 'b""', 'bytearray(b"ab")', '[1, 2, 255]', '[256]', '[-1]', '"abc"', '[b"a", b"b"]', '["a"]',
            'dbus.ByteArray(b"xy")', 'dbus.Array([1, 2])', 'dbus.Array([1, 2], signature="y")', '(1, 2)', 'iter([1, 2])',
            'None', '5', '{1: 2}', '[1.5]', '[None]', 'dbus.Array([dbus.Byte(1)], signature="y")', 'range(3)']),
    ('as', ['["a", "b"]', '[]', '("a",)', '"abc"', 'b"abc"', '[1]', '[b"a"]', '{"a": 1}.keys()', 'iter(["a"])',
            'dbus.Array(["a"])', 'dbus.Array([], signature="s")', 'None', '5', '[None]', '{"a": 1}', '[dbus.String("x")]',
            '[["a"]]']),
    ('ao', ['["/a"]', '[]', '{"/a": 1}.keys()', '[dbus.ObjectPath("/a")]', '[1]', 'None']),
    ('at', ['[1, 2]', '[-1]', '[2**64]', '["1"]', '[]']),
    ('a{sv}', ['{}', '{"a": 1}', '{"a": "x"}', '{"a": None}', '{"a": 2**31}', '{"a": -2**31-1}', '{"a": 1.5}', '{"a": True}',
               '{"a": b"xy"}', '{"a": [1, 2]}', '{"a": []}', '{"a": {}}', '{"a": {"b": 1}}', '{"a": (1, "x")}', '{"a": ()}',
               '{1: 1}', '{b"a": 1}', '{None: 1}', '[("a", 1)]', '[]', 'None', '5', '"abc"',
               '{"a": ipaddress.ip_address("1.2.3.4")}', '{"a": object()}',
               'dbus.Dictionary({"a": 1})', 'dbus.Dictionary({"a": 1}, signature="sv")', 'dbus.Dictionary({})',
               '{"a": dbus.String("x")}', '{"a": dbus.UInt64(2**40)}', '{"a": dbus.Int64(-2**40)}', '{"a": dbus.Byte(3)}',
               '{"a": dbus.ByteArray(b"xy")}', '{"a": dbus.Array([], signature="s")}', '{"a": dbus.Array([])}',
               '{"a": dbus.Dictionary({}, signature="sv")}', '{"a": dbus.Dictionary({})}', '{"a": bytearray(b"x")}',
               '{"a": [None]}', '{"a": [1, "x"]}', '{"a": ["x", 1]}', '{"a": {"b": None}}', '{"a": 2**63}',
               '{"a": dbus.ObjectPath("/a")}', '{"a": dbus.Boolean(False)}', '{"a": dbus.Double(2.0)}',
               '{"a": [[1]]}', '{"a": [[]]}', '{"a": ("x",)}', '{dbus.String("k"): 1}',
               '{"a": 1, "b": "x", "c": 1.5}']),
    ('v', ['1', '2**31', '-2**31', '-2**31-1', '2**31-1', '"x"', 'b"x"', 'b""', 'None', '1.5', 'True', '[]', '[1]', '{}', '{"a": 1}', '()', '(1,)',
           'dbus.String()', 'dbus.String("q")', 'dbus.UInt64(5)', 'dbus.Int64(2**40)', 'dbus.ByteArray(b"")', 'dbus.Array([], signature="y")',
           'object()', 'ipaddress.ip_address("::1")', 'bytearray(b"")', '[b"a"]', '["a", "b"]', '[1.5]', '[True]', '[None]',
           '{1: "a"}', '{"a": [1]}', '(1, "a", 1.5)', 'dbus.Struct((1, "a"))', 'dbus.Struct((1, 2), signature="tt")',
           'dbus.Dictionary({"a": 1}, signature="sv")', 'dbus.Array([1], signature="t")', 'dbus.Byte(1)', 'dbus.Int16(1)',
           'dbus.UInt16(1)', 'dbus.UInt32(1)', 'dbus.Int32(1)', 'dbus.Signature("s")', 'dbus.ObjectPath("/")']),
    ('(st)', ['("a", 1)', '["a", 1]', '("a",)', '("a", 1, 2)', '(1, 1)', '("a", -1)', 'None', '"ab"', 'dbus.Struct(("a", 1))']),
    ('a(st)', ['[("a", 1)]', '[]', '[("a",)]', '[["a", 2]]']),
    ('a{ss}', ['{"a": "b"}', '{"a": 1}', '{1: "a"}', '{}']),
    ('a{st}', ['{"a": 1}', '{"a": -1}', '{"a": "1"}']),
    ('aay', ['[b"ab", b"c"]', '[[1], [2]]', '[]', '["ab"]']),
    ('av', ['[1, "a", None]', '[1, "a"]', '[]', '[2**31]']),
]
for sig, vals in _CONTAINER:
    for val in vals:
        ROWS.append((sig, '(%s,)' % val))

# multi-argument signatures as used by the repository's signals
_MULTI = [
    ('s', ['("a",)', '()', '("a", "b")']),
    ('st', ['("1", 5)', '("1", -5)', '(1, 5)', '("1", None)', '("1", "5")', '("1", 5.5)', '("1",)', '("1", 5, 6)', '("1", 2**64)']),
    ('sts', ['("1", 5, "success")', '(1, "refused with code %s", 2)', '("1", 0, "x")', '("1", "x", 3)', '("1", 5, None)', '("1", 5, 7)',
             '("1", 5)', '(dbus.String("1"), 5, dbus.String("s"))']),
    ('sv', ['("1", 5)', '("1", dbus.String())', '("1", None)', '("1", 2**31)', '("1", 2**40)', '("1", dbus.UInt64(2**40))', '("1", "")', '("1", 2**31-1)']),
    ('sta{sv}', ['("0", 5, {"address": "1.2.3.4", "port": 4556})', '("0", 5, {})', '("0", None, {})', '("0", 5, {"address": None})',
                 '("0", 5, {"port": 2**31})', '("0", 5, {"port": 70000})', '("0", 5, {"address": ipaddress.ip_address("1.2.3.4")})',
                 '("0", 5, {"local_port": 0})']),
    ('xissq', ['(1, 2, "n", "a", 5)', '(2**63, 2, "n", "a", 5)', '(1, 2**31, "n", "a", 5)', '(1, 2, "n", "a", 65536)', '(1, 2, "n", "a", -1)',
               '(1, 2, 5, "a", 5)', '(1, 2, None, "a", 5)', '(1, 2, "n", "a", None)', '(1.5, 2, "n", "a", 5)', '(1, 2, b"n", "a", 5)',
               '(1, 2, "", "a", 5)']),
    ('o', ['("/org/ietf/dtn/tcpcl/Contact0",)']),
    ('b', ['(True,)', '(0,)', '(None,)', '("x",)', '([],)']),
    ('ssb', ['("a", "b", True)', '("a", "b", None)', '("a", None, True)']),
    ('', ['()', '(1,)', '(None,)']),
    ('ay', ['(b"",)']),
]
for sig, vals in _MULTI:
    for val in vals:
        ROWS.append((sig, val))
