''' Micro-scenarios run against both real GLib (via gen_glib_semantics.py) and
the sim loop (vf/world/conformance.py).  Each scenario takes an ``api`` object:

  api.idle_add(cb, *a) / api.timeout_add(ms, cb, *a) / api.io_add_watch(sock, cond, cb, *a)
  api.source_remove(id) -> bool
  api.IO_IN / api.IO_OUT
  api.socketpair() -> (a, b) non-blocking connected stream sockets
  api.iterate() -> run one non-blocking main-context iteration
  api.sleep_ms(n) -> let n ms pass (real sleep / virtual advance)
and returns a JSON-able trace.
'''


def sc_priority(api):
    ''' io/timeout (prio 0) run before idle (prio 200); attach order within a priority. '''
    log = []
    a, b = api.socketpair()
    b.send(b'x')
    api.idle_add(lambda: log.append('idle1') or False)
    api.io_add_watch(a, api.IO_IN, lambda *args: log.append('io') or False)
    api.timeout_add(0, lambda: log.append('timeout') or False)
    api.idle_add(lambda: log.append('idle2') or False)
    api.deliver()
    api.sleep_ms(2)
    trace = []
    for _ in range(4):
        before = len(log)
        api.iterate()
        trace.append(log[before:])
    return trace


def sc_idle_starved(api):
    ''' A permanently writable IO_OUT watch starves idle callbacks. '''
    log = []
    a, _b = api.socketpair()
    count = [0]

    def out_cb(*_args):
        count[0] += 1
        log.append('out')
        return count[0] < 3

    api.idle_add(lambda: log.append('idle') or False)
    api.io_add_watch(a, api.IO_OUT, out_cb)
    trace = []
    for _ in range(5):
        before = len(log)
        api.iterate()
        trace.append(log[before:])
    return trace


def sc_raise_removes(api):
    ''' A callback that raises is removed (like returning False). '''
    log = []

    def bad():
        log.append('bad')
        raise ValueError('boom')

    api.idle_add(bad)
    api.idle_add(lambda: log.append('good') or True)
    trace = []
    for _ in range(3):
        before = len(log)
        api.iterate()
        trace.append(log[before:])
    return trace


def sc_add_during_dispatch(api):
    ''' A source added during dispatch first runs in a later iteration. '''
    log = []

    def first():
        log.append('first')
        api.idle_add(lambda: log.append('added') or False)
        return False

    api.idle_add(first)
    api.idle_add(lambda: log.append('second') or False)
    trace = []
    for _ in range(3):
        before = len(log)
        api.iterate()
        trace.append(log[before:])
    return trace


def sc_remove_pending(api):
    ''' A pending source removed by an earlier callback of the same iteration is skipped. '''
    log = []
    ids = {}

    def first():
        log.append('first')
        log.append('removed=%s' % bool(api.source_remove(ids['second'])))
        return False

    api.idle_add(first)
    ids['second'] = api.idle_add(lambda: log.append('second') or False)
    api.idle_add(lambda: log.append('third') or False)
    trace = []
    for _ in range(2):
        before = len(log)
        api.iterate()
        trace.append(log[before:])
    return trace


def sc_stale_remove(api):
    ''' source_remove of an id that already ran returns False. '''
    log = []
    sid = api.idle_add(lambda: log.append('ran') or False)
    api.iterate()
    import warnings
    with warnings.catch_warnings():
        warnings.simplefilter('ignore')
        res = api.source_remove(sid)
    return [log, bool(res)]


def sc_eof_readiness(api):
    ''' Peer close makes IO_IN ready; recv returns b''. '''
    log = []
    a, b = api.socketpair()

    def in_cb(sock, cond, *_args):
        data = sock.recv(100)
        log.append(['in', bool(cond & api.IO_IN), len(data)])
        return bool(data)

    api.io_add_watch(a, api.IO_IN, in_cb)
    b.send(b'abc')
    api.deliver()
    api.sleep_ms(2)
    api.iterate()
    b.close()
    api.deliver()
    api.sleep_ms(2)
    api.iterate()
    api.iterate()
    return log


def sc_timeout_repeat(api):
    ''' A timeout returning True fires again one interval after its dispatch. '''
    log = []
    count = [0]

    def tick():
        count[0] += 1
        log.append('tick')
        return count[0] < 3

    api.timeout_add(20, tick)
    trace = []
    for _ in range(5):
        api.sleep_ms(21)
        before = len(log)
        api.iterate()
        trace.append(log[before:])
    return trace


def sc_timeout_order(api):
    ''' Two timeouts due in the same iteration dispatch in attach order; both before idle. '''
    log = []
    api.idle_add(lambda: log.append('idle') or False)
    api.timeout_add(5, lambda: log.append('t1') or False)
    api.timeout_add(1, lambda: log.append('t2') or False)
    api.sleep_ms(10)
    trace = []
    for _ in range(3):
        before = len(log)
        api.iterate()
        trace.append(log[before:])
    return trace


def sc_remove_self_then_return_true(api):
    ''' A callback that removes its own source and returns True is not called again. '''
    log = []
    ids = {}

    def cb():
        log.append('cb')
        api.source_remove(ids['me'])
        return True

    ids['me'] = api.idle_add(cb)
    for _ in range(3):
        api.iterate()
    return log


SCENARIOS = {
    'priority': sc_priority,
    'idle_starved': sc_idle_starved,
    'raise_removes': sc_raise_removes,
    'add_during_dispatch': sc_add_during_dispatch,
    'remove_pending': sc_remove_pending,
    'stale_remove': sc_stale_remove,
    'eof_readiness': sc_eof_readiness,
    'timeout_repeat': sc_timeout_repeat,
    'timeout_order': sc_timeout_order,
    'remove_self_then_return_true': sc_remove_self_then_return_true,
}
