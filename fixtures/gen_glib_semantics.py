''' Run under /usr/bin/python3 (real PyGObject/GLib) to record glib_semantics.json. '''
import json
import os
import socket
import sys
import time

from gi.repository import GLib

sys.path.insert(0, os.path.dirname(os.path.abspath(__file__)))
from glib_scenarios import SCENARIOS  # noqa: E402


class RealApi(object):
    IO_IN = GLib.IO_IN
    IO_OUT = GLib.IO_OUT

    def __init__(self):
        self.ctx = GLib.MainContext.default()
        self.ids = []
        self.socks = []

    def idle_add(self, func, *args):
        sid = GLib.idle_add(func, *args)
        self.ids.append(sid)
        return sid

    def timeout_add(self, msec, func, *args):
        sid = GLib.timeout_add(msec, func, *args)
        self.ids.append(sid)
        return sid

    def io_add_watch(self, sock, cond, func, *args):
        sid = GLib.io_add_watch(sock, cond, func, *args)
        self.ids.append(sid)
        return sid

    def cleanup(self):
        for sid in self.ids:
            if self.ctx.find_source_by_id(sid) is not None:
                GLib.source_remove(sid)
        for sock in self.socks:
            sock.close()

    def source_remove(self, sid):
        return GLib.source_remove(sid)

    def socketpair(self):
        a, b = socket.socketpair()
        a.setblocking(False)
        b.setblocking(False)
        self.socks += [a, b]
        return a, b

    def deliver(self):
        return None

    def iterate(self):
        self.ctx.iteration(False)

    def sleep_ms(self, msec):
        time.sleep(msec / 1000.0)


out = {}
for name, func in SCENARIOS.items():
    api = RealApi()
    stderr = os.dup(2)
    devnull = os.open(os.devnull, os.O_WRONLY)
    os.dup2(devnull, 2)
    try:
        out[name] = json.loads(json.dumps(func(api)))
        api.cleanup()
    finally:
        os.dup2(stderr, 2)
path = os.path.join(os.path.dirname(os.path.abspath(__file__)), 'glib_semantics.json')
if len(sys.argv) > 1:
    path = sys.argv[1]
with open(path, 'w') as outfile:
    json.dump(dict(glib_version=[GLib.MAJOR_VERSION, GLib.MINOR_VERSION, GLib.MICRO_VERSION], traces=out), outfile, indent=1)
print(json.dumps(out, indent=1))
